// C02 — kriging is exact, unbiased, linear and invariant under relabelling.
// Engine E1 over the menus of vf/krig_menu.hpp; metamorphic oracle between runs of the REAL code:
//   exact      target on a datum without measurement error  => estimate = datum, stdev = 0 (variance scale)
//   bounds     stdev finite, >= 0 ; known mean => stdev^2 <= C_vv(0)
//   unbiased   X^t lambda = X0 for every drift function (krigtest().wgt, harness-evaluated monomials / external drift)
//   shift      data + c.f(x)  => estimates + c.f(x0), stdev unchanged          (every unit coefficient vector + one mixed)
//   linear     estimate(z) = estimate(0) + sum_i z_i (estimate(e_i) - estimate(0))   (basis of unit data vectors) and menu combos
//   permute    every permutation of the samples (n<=4; rotations + one transposition for n>=5; all in the thorough tier)
//   translate  dyadic translations of all coordinates
// Tolerances: 1e-10 * kappa * natural scale, kappa = 1-norm condition number of the documented system assembled by
// the harness over the neighbours the library reports (vf/krig_ref.hpp).  Targets whose system is singular, has kappa > 1e8,
// has no neighbour, or (permutations) whose neighbour search has tied distances are excluded and counted.
#include "vf/krig_ref.hpp"

#include "Estimation/KrigingSystem.hpp"

using namespace vf;
using namespace vf::krig;

static const double TOL = 1e-10;
static const double KAPPA_MAX = 1e8;

struct CaseId
{
  int ndim, nvar, klayout, kupat, kverr, kmodel, kdrift, kneigh;
  std::string str() const
  {
    char b[256];
    snprintf(b, sizeof b, "ndim=%d nvar=%d layout=%d upat=%d verr=%d model=%s drift=%s neigh=%s", ndim, nvar, klayout, kupat, kverr, model_name(kmodel), drift_name(kdrift), neigh_name(kneigh));
    return b;
  }
  std::string cls() const
  {
    const char* dc = drift_known_mean(kdrift) ? "known-mean" : drift_fext(kdrift) ? "external-drift" : "drift";
    return std::string(dc) + ":" + (nvar > 1 ? "multivar" : "monovar") + ":" + (neigh_unique(kneigh) ? "unique" : "moving");
  }
};

// targets of C02: #0,#1 generic A ; then one target ON every datum (coordinates of the base layout) ; far ; generic B
static void set_targets_c02(KData& d, const VVD& xbase)
{
  // generic A is a fine dyadic (k/1024) so that the menu translations are exact in floating point
  static const double A[3] = {379. / 1024, 215. / 1024, 133. / 1024}, FAR[3] = {37.5, -41.25, 29}, B[3] = {1.3125, 1.0625, .4375};
  int n = (int)xbase[0].size();
  d.grid = false;
  d.tx.assign(d.ndim, VD());
  bool fx = !d.f.empty();
  d.tf.clear();
  auto add = [&](const double* c, double f) { for (int k = 0; k < d.ndim; k++) d.tx[k].push_back(c[k]); if (fx) d.tf.push_back(f); };
  add(A, 2.5); add(A, 2.5);
  for (int i = 0; i < n; i++) { double c[3]; for (int k = 0; k < d.ndim; k++) c[k] = xbase[k][i]; add(c, fext_data(i)); }
  add(FAR, 1.5); add(B, 3.5);
}
static KData base_data(const CaseId& c)
{
  KData d = make_data(c.ndim, c.nvar, c.klayout, c.kupat, c.kverr, drift_fext(c.kdrift));
  set_targets_c02(d, layout(c.ndim, c.klayout));
  return d;
}

struct Run
{
  bool ok = false;
  std::vector<VD> est, sd;  // [nvar][nt]
};
static Run runKrig(Ctx& C, const KData& d, const CaseId& c, double ls = 1., double vs = 1.)
{
  Run r;
  KBuilt b(d, c.kmodel, c.kdrift, c.kneigh, ls, vs);
  int err = kriging(b.dbin, b.dbout, b.model, b.neigh, b.calcul, true, true, false, b.ndiscs);
  C.eval();
  if (err) return r;
  std::vector<int> cE = find_cols(b.dbout, ".estim"), cS = find_cols(b.dbout, ".stdev");
  if ((int)cE.size() != c.nvar || (int)cS.size() != c.nvar) return r;
  int nt = d.nt();
  r.est.assign(c.nvar, VD(nt)); r.sd.assign(c.nvar, VD(nt));
  for (int v = 0; v < c.nvar; v++)
    for (int t = 0; t < nt; t++) { r.est[v][t] = b.dbout->getValueByColIdx(t, cE[v]); r.sd[v][t] = b.dbout->getValueByColIdx(t, cS[v]); }
  r.ok = true;
  return r;
}

// Base run + conditioning information per target
struct TInfo
{
  bool usable = false;      // neighbours exist, system regular, kappa <= 1e8
  std::string why;          // exclusion class
  std::vector<int> nbgh;
  double kappa = 0;
  bool tie = false;         // tied distances in the neighbour search (moving neighbourhoods)
  std::vector<RefTarget> R; // per target variable (scales)
  RefSystem S;
  MatrixRectangular wgt;
};
struct Base
{
  KData d;
  Run run;
  std::vector<TInfo> T;
};

static bool buildBase(Ctx& C, const CaseId& c, Base& B, bool wantTies)
{
  B.d = base_data(c);
  const KData& d = B.d;
  KBuilt b(d, c.kmodel, c.kdrift, c.kneigh);
  int err = kriging(b.dbin, b.dbout, b.model, b.neigh, b.calcul, true, true, false, b.ndiscs);
  C.eval();
  if (err) return false;
  std::vector<int> cE = find_cols(b.dbout, ".estim"), cS = find_cols(b.dbout, ".stdev");
  if ((int)cE.size() != c.nvar || (int)cS.size() != c.nvar) return false;
  int nt = d.nt(), n = d.n();
  B.run.est.assign(c.nvar, VD(nt)); B.run.sd.assign(c.nvar, VD(nt));
  for (int v = 0; v < c.nvar; v++)
    for (int t = 0; t < nt; t++) { B.run.est[v][t] = b.dbout->getValueByColIdx(t, cE[v]); B.run.sd[v][t] = b.dbout->getValueByColIdx(t, cS[v]); }
  B.run.ok = true;
  Reference ref(d, b.model, c.kdrift);
  B.T.assign(nt, TInfo());
  std::map<std::vector<int>, RefSystem> cache;
  bool intrinsic = model_is_intrinsic(c.kmodel);
  const NeighMoving* nm = dynamic_cast<const NeighMoving*>(b.neigh);
  for (int t = 1; t < nt; t++)
  {
    TInfo& I = B.T[t];
    Krigtest_Res res = krigtest(b.dbin, b.dbout, b.model, b.neigh, t, b.calcul, b.ndiscs);
    I.nbgh.assign(res.nbgh.begin(), res.nbgh.end());
    bool bad = false;
    for (size_t i = 0; i < I.nbgh.size(); i++) if (I.nbgh[i] < 0 || I.nbgh[i] >= n) bad = true;
    if (bad) { I.why = "nbgh-invalid"; continue; }
    if (I.nbgh.empty()) { I.why = "no-neighbour"; continue; }
    auto it = cache.find(I.nbgh);
    if (it == cache.end()) { RefSystem S; ref.buildSystem(I.nbgh, S); it = cache.emplace(I.nbgh, S).first; }
    I.S = it->second;
    if (I.S.nr == 0 || I.S.singular) { I.why = "reference-singular"; continue; }
    I.kappa = I.S.kappa;
    I.R.resize(c.nvar);
    for (int v0 = 0; v0 < c.nvar; v0++) ref.solveTarget(I.S, t, v0, VVD(), I.R[v0]);
    if (intrinsic && res.var.getNRows() > 0 && I.R[0].s0 > 0) I.kappa *= std::max(1., std::fabs(res.var.getValue(0, 0)) / (double)I.R[0].s0);
    if (I.kappa > KAPPA_MAX) { I.why = "ill-conditioned"; continue; }
    I.wgt = res.wgt;
    I.usable = true;
    if (wantTies && nm != nullptr)
    {
      // distances exactly as the neighbour search computes them; a tie (within 1e-7 of the largest) makes the selected set
      // depend on the sample order (the code breaks ties by index): excluded by the property
      VD dist;
      for (int i = 0; i < n; i++)
      {
        if (!ref.coordOk[i]) continue;
        bool any = false;
        for (int v = 0; v < c.nvar; v++) if (!FFFF(d.z[v][i])) any = true;
        if (!any) continue;
        VectorDouble dd(d.ndim);
        for (int k = 0; k < d.ndim; k++) dd[k] = d.tx[k][t] - d.x[k][i];
        dist.push_back(nm->getBiPtDist()->getNormalizedDistance(dd));
      }
      std::sort(dist.begin(), dist.end());
      double dmax = dist.empty() ? 0 : dist.back();
      for (size_t i = 1; i < dist.size(); i++) if (dist[i] - dist[i - 1] <= 1e-7 * std::max(dmax, 1e-300)) I.tie = true;
    }
  }
  // target 0 is the same location as target 1
  B.T[0] = B.T[1];
  return true;
}

static bool ref_cell_ok(const KData& d, const CaseId& c, int i, int v)
{
  for (int k = 0; k < d.ndim; k++) if (FFFF(d.x[k][i])) return false;
  if (FFFF(d.z[v][i])) return false;
  if (drift_fext(c.kdrift) && (d.f.empty() || FFFF(d.f[i]))) return false;
  return true;
}
static double tolOf(const TInfo& I) { return TOL * std::max(1., I.kappa); }

// compare the estimates / stdevs of a transformed run with expected values
struct Expect { double est, sd; double scaleEst; };

// ------------------------------------------------------------------------------------------------- menus
struct Menus
{
  std::vector<int> ndims, nvars, layouts, upats, verrs, models, drifts, neighs;
};
// u-pattern menu entries are symbolic: 0 none, 1 first cell, 2 cell (sample 1, last variable), 3 sample 2 undefined in all variables (nvar>1),
// 4 undefined coordinate (unique only), 5 undefined external drift at sample 0
static int upatIndex(int sym, int n, int nvar)
{
  switch (sym)
  {
    case 0: return 0;
    case 1: return 1;
    case 2: return 1 + 1 + (nvar - 1) * n;
    case 3: return nvar > 1 ? 1 + n * nvar + 2 : -1;
    case 4: return 1 + n * nvar + (nvar > 1 ? n : 0);
    default: return 1 + n * nvar + (nvar > 1 ? n : 0) + 1;
  }
}
template<class F> static void forBases(Ctx& C, const Menus& M, bool wantTies, F f)
{
  Space sp;
  sp.axis("ndim", (int)M.ndims.size()).axis("neigh", (int)M.neighs.size()).axis("model", (int)M.models.size()).axis("verr", (int)M.verrs.size());
  sp.axis("drift", (int)M.drifts.size()).axis("upat", (int)M.upats.size()).axis("nvar", (int)M.nvars.size()).axis("layout", (int)M.layouts.size());
  for_each_case(C, sp, [&](uint64_t id, const std::vector<int>& ix) {
    CaseId c;
    c.ndim = M.ndims[ix[0]]; c.kneigh = M.neighs[ix[1]]; c.kmodel = M.models[ix[2]]; c.kverr = M.verrs[ix[3]];
    c.kdrift = M.drifts[ix[4]]; c.nvar = M.nvars[ix[6]]; c.klayout = M.layouts[ix[7]];
    int n = (int)layout(c.ndim, c.klayout)[0].size();
    int sym = M.upats[ix[5]];
    c.kupat = upatIndex(sym, n, c.nvar);
    if (c.kupat < 0) return;
    if (!combo_valid(c.ndim, c.kmodel, c.kdrift, c.kneigh)) { C.outcome("combination-documented-invalid"); return; }
    if (sym == 4 && !neigh_unique(c.kneigh)) return;
    if (sym == 5 && !drift_fext(c.kdrift)) return;
    Base B;
    if (!buildBase(C, c, B, wantTies))
    {
      C.violation("kriging:refused-valid-input", "kriging() returned an error on a valid combination: " + c.str(), std::to_string(id));
      return;
    }
    f(id, c, B);
  });
}

static void countExcluded(Ctx& C, const Base& B)
{
  for (size_t t = 1; t < B.T.size(); t++)
    if (!B.T[t].usable) { C.skip(); C.outcome("excluded:" + B.T[t].why); }
}

static Menus quickMenus()
{
  Menus M;
  M.ndims = {1, 2, 3}; M.nvars = {1, 2}; M.layouts = {1, 2, 3}; M.upats = {0, 1, 2, 3}; M.verrs = {0, 2};
  M.models = {0, 1, 5, 7, 9}; M.drifts = {1, 2, 3, 5}; M.neighs = {0, 2, 3, 4};
  return M;
}
static Menus thoroughMenus()
{
  Menus M;
  M.ndims = {1, 2, 3}; M.nvars = {1, 2}; M.layouts = {0, 1, 2, 3, 4, 5}; M.upats = {0, 1, 2, 3, 4, 5}; M.verrs = {0, 1, 2};
  M.models = {0, 1, 2, 3, 5, 7, 8, 9, 10}; M.drifts = {0, 1, 2, 3, 4, 5, 6}; M.neighs = {0, 1, 2, 3, 4, 5, 6};
  return M;
}

// ------------------------------------------------------------------------------------------------- (a)(b)(c)
VF_PART(exact_bounds_unbiased)
{
  Menus M = C.thorough() ? thoroughMenus() : quickMenus();
  if (!C.thorough()) { M.layouts = {0, 1, 2, 3, 4, 5}; M.verrs = {0, 1, 2}; M.upats = {0, 1, 2, 3, 4, 5}; M.drifts = {0, 1, 2, 3, 4, 5}; M.models = {0, 1, 5, 7, 9}; }
  forBases(C, M, false, [&](uint64_t id, const CaseId& c, Base& B) {
    const KData& d = B.d;
    int n = d.n(), nt = d.nt();
    std::string kase = std::to_string(id);
    countExcluded(C, B);
    bool nontriv = false;
    Model* model = nullptr;
    for (int t = 0; t < nt; t++)
    {
      const TInfo& I = B.T[t];
      if (!I.usable)
      {
        // outside the property (no unique solution / no neighbour): only a histogram of what the library answers
        if (t >= 1)
          for (int v0 = 0; v0 < c.nvar; v0++)
          {
            double s = B.run.sd[v0][t];
            C.outcome("undefined-system(" + I.why + "):stdev-is-" + (FFFF(s) ? "TEST" : std::isnan(s) ? "NaN" : std::isinf(s) ? "inf" : s < 0 ? "negative" : "finite>=0"));
          }
        continue;
      }
      double tol = tolOf(I);
      for (int v0 = 0; v0 < c.nvar; v0++)
      {
        double e = B.run.est[v0][t], s = B.run.sd[v0][t];
        const RefTarget& R = I.R[v0];
        double c00 = (double)R.s0;  // C_vv(0) by pointwise evaluation
        std::string info = c.str() + " target#" + std::to_string(t) + " var=" + std::to_string(v0) + " nbgh=" + vstr(I.nbgh) + " kappa=" + fmt(I.kappa);
        // (b) finite, non negative
        C.eval();
        if (FFFF(s) || !std::isfinite(s) || s < 0 || FFFF(e) || !std::isfinite(e))
        {
          C.violation("bounds:not-finite:" + c.cls(), "estimate " + fmt(e) + " / stdev " + fmt(s) + " is undefined, not finite or negative although the system is regular; " + info, kase);
          C.outcome("bounds:VIOLATED");
          continue;
        }
        if (drift_known_mean(c.kdrift))
        {
          if (s * s > c00 + tol * std::max(1., (double)R.scaleVar))
            C.violation("bounds:sk-variance-exceeds-prior:" + c.cls(), "known mean: stdev^2 = " + fmt(s * s) + " exceeds the a-priori variance " + fmt(c00) + "; " + info, kase);
          C.outcome(s * s < c00 * (1 - 1e-6) ? "bounds:sk-variance-strictly-below-prior" : "bounds:sk-variance-equals-prior");
        }
        else C.outcome("bounds:finite-nonnegative");
        // (a) exactness: target t = 2+i sits on datum i
        int i = t - 2;
        if (i >= 0 && i < n && ref_cell_ok(d, c, i, v0) && std::find(I.nbgh.begin(), I.nbgh.end(), i) != I.nbgh.end())
        {
          double ve = d.v.empty() ? 0. : d.v[v0][i];
          if (ve <= 0)
          {
            double z = d.z[v0][i];
            C.eval();
            bool okE = std::fabs(e - z) <= tol * std::max(1., (double)R.scaleEst);
            bool okS = s * s <= tol * std::max(c00, (double)R.scaleVar);
            if (!okE) C.violation("exact:estimate:" + c.cls(), "target on datum " + std::to_string(i) + " (no measurement error): estimate " + fmt(e) + " != datum " + fmt(z) + "; " + info, kase);
            if (!okS) C.violation("exact:stdev:" + c.cls(), "target on datum " + std::to_string(i) + " (no measurement error): stdev " + fmt(s) + " (variance " + fmt(s * s) + ") is not zero on the variance scale (C00=" + fmt(c00) + "); " + info, kase);
            C.outcome(okE && okS ? "exact:datum-reproduced" : "exact:VIOLATED");
            nontriv = true;
          }
          else
          {
            C.outcome(std::fabs(e - d.z[v0][i]) > 1e-6 ? "exact:n/a-measurement-error(estimate-differs-from-datum)" : "exact:n/a-measurement-error");
          }
        }
        // (c) unbiasedness from the exported weights
        if (t >= 1 && I.S.nbfl > 0)
        {
          C.eval();
          const RefSystem& S = I.S;
          bool shape = I.wgt.getNRows() == S.nr + S.nfeq && I.wgt.getNCols() == c.nvar;
          if (!shape) { C.violation("unbiased:wgt-shape:" + c.cls(), "krigtest().wgt has " + std::to_string(I.wgt.getNRows()) + " rows, expected " + std::to_string(S.nr + S.nfeq) + "; " + info, kase); continue; }
          Reference ref(d, nullptr, c.kdrift);
          VD f0 = ref.driftAtTarget(t);
          bool ok = true;
          for (int w = 0; w < c.nvar && ok; w++)
            for (int l = 0; l < S.nbfl && ok; l++)
            {
              long double sum = 0, sc = 0;
              for (int a = 0; a < S.nr; a++)
              {
                if (S.rv[a] != w) continue;
                double fl = ref.driftAtData(S.rs[a])[l];
                sum += (long double)I.wgt.getValue(a, v0) * fl;
                sc += fabsl((long double)I.wgt.getValue(a, v0) * fl);
              }
              double want = (w == v0) ? f0[l] : 0.;
              if (!(std::fabs((double)sum - want) <= tol * std::max(1., (double)sc + std::fabs(want))))
              {
                C.violation("unbiased:" + std::string(l == 0 ? "sum-of-weights" : (drift_fext(c.kdrift) && l == S.nbfl - 1) ? "external-drift" : "monomial") + ":" + c.cls(),
                            "sum over the weights of variable " + std::to_string(w) + " of drift function #" + std::to_string(l) + " = " + fmt((double)sum) + ", expected " + fmt(want) + "; " + info, kase);
                ok = false;
              }
            }
          C.outcome(ok ? "unbiased:drift-reproduced" : "unbiased:VIOLATED");
          nontriv = true;
        }
      }
    }
    (void)model;
    if (nontriv) C.nontrivial(id);
    if (id % 5003 == 1) C.sample("{\"id\":" + kase + ",\"case\":" + jstr(c.str()) + "}");
  });
}

// compare a transformed run with the expectation derived from the base run
static void compareRuns(Ctx& C, const CaseId& c, const Base& B, const Run& r, const std::vector<VD>& wantEst, const std::vector<VD>& extraScale, const std::string& what,
                        const std::string& keyprefix, const std::string& kase, bool skipTies, double tolFactor = 1.)
{
  int nt = B.d.nt();
  for (int t = 0; t < nt; t++)
  {
    const TInfo& I = B.T[t];
    if (!I.usable) continue;
    if (skipTies && I.tie) { C.skip(); C.outcome("excluded:tied-distances-in-neighbour-search"); continue; }
    double tol = 2 * tolOf(I) * tolFactor;
    for (int v0 = 0; v0 < c.nvar; v0++)
    {
      C.eval();
      double e = r.est[v0][t], s = r.sd[v0][t], s0 = B.run.sd[v0][t];
      double scE = std::max(1., (double)I.R[v0].scaleEst + extraScale[v0][t]);
      double scV = std::max((double)I.R[v0].scaleVar, 1e-300);
      std::string info = c.str() + " target#" + std::to_string(t) + " var=" + std::to_string(v0) + " nbgh=" + vstr(I.nbgh) + " kappa=" + fmt(I.kappa) + " [" + what + "]";
      bool ok = true;
      if (FFFF(e) || !(std::fabs(e - wantEst[v0][t]) <= tol * scE))
      {
        C.violation(keyprefix + ":estimate:" + c.cls(), "estimate " + fmt(e) + ", expected " + fmt(wantEst[v0][t]) + " (base run " + fmt(B.run.est[v0][t]) + "); " + info, kase);
        ok = false;
      }
      if (FFFF(s) || !(std::fabs(s * s - s0 * s0) <= tol * scV))
      {
        C.violation(keyprefix + ":stdev:" + c.cls(), "stdev " + fmt(s) + " differs from the base run " + fmt(s0) + "; " + info, kase);
        ok = false;
      }
      C.outcome(keyprefix + (ok ? ":holds" : ":VIOLATED"));
    }
  }
}
static std::vector<VD> zeros(int nvar, int nt) { return std::vector<VD>(nvar, VD(nt, 0.)); }

// ------------------------------------------------------------------------------------------------- (d) drift shift
VF_PART(drift_shift)
{
  Menus M = C.thorough() ? thoroughMenus() : quickMenus();
  M.drifts.erase(std::remove_if(M.drifts.begin(), M.drifts.end(), [](int k) { return drift_known_mean(k); }), M.drifts.end());
  if (!C.thorough()) M.drifts = {2, 3, 4, 5};
  forBases(C, M, false, [&](uint64_t id, const CaseId& c, Base& B) {
    const KData& d = B.d;
    int n = d.n(), nt = d.nt();
    std::string kase = std::to_string(id);
    countExcluded(C, B);
    Reference ref(d, nullptr, c.kdrift);
    int nbfl = drift_nbfl(c.ndim, c.kdrift);
    // coefficient vectors: every unit vector (variable w, function l) + one mixed vector on all variables
    int ncoef = c.nvar * nbfl;
    for (int k = 0; k <= ncoef; k++)
    {
      std::vector<VD> coef(c.nvar, VD(nbfl, 0.));
      std::string what;
      if (k < ncoef) { coef[k / nbfl][k % nbfl] = 1.; what = "data of variable " + std::to_string(k / nbfl) + " shifted by drift function #" + std::to_string(k % nbfl); }
      else { for (int w = 0; w < c.nvar; w++) for (int l = 0; l < nbfl; l++) coef[w][l] = (l % 2 ? -0.5 : 2.) + w + 0.25 * l; what = "data shifted by a mixed combination of all drift functions"; }
      KData d2 = d;
      bool undefinedShift = false;
      for (int w = 0; w < c.nvar; w++)
        for (int i = 0; i < n; i++)
        {
          if (FFFF(d.z[w][i])) continue;
          if (!ref.coordOk[i] || (drift_fext(c.kdrift) && FFFF(d.f[i]))) { continue; }  // the cell is not used by kriging anyway
          VD f = ref.driftAtData(i);
          double sh = 0;
          for (int l = 0; l < nbfl; l++) sh += coef[w][l] * f[l];
          d2.z[w][i] += sh;
        }
      (void)undefinedShift;
      Run r = runKrig(C, d2, c);
      if (!r.ok) { C.violation("shift:kriging-refused", "kriging() failed on shifted data; " + c.str(), kase); continue; }
      std::vector<VD> want = B.run.est, extra = zeros(c.nvar, nt);
      for (int t = 0; t < nt; t++)
      {
        VD f0 = ref.driftAtTarget(t);
        for (int w = 0; w < c.nvar; w++)
        {
          double sh = 0, as = 0;
          for (int l = 0; l < nbfl; l++) { sh += coef[w][l] * f0[l]; as += std::fabs(coef[w][l] * f0[l]); }
          want[w][t] += sh;
          // scale of the shifted data entering the estimate: sum |lambda| |shift_i| <= scaleW * n * max|shift|
          double ms = 0;
          for (int i = 0; i < n; i++) { if (!ref.coordOk[i]) continue; VD f = ref.driftAtData(i); double q = 0; for (int l = 0; l < nbfl; l++) q += std::fabs(coef[w][l] * f[l]); ms = std::max(ms, q); }
          extra[w][t] = as + (B.T[t].usable ? (double)B.T[t].R[w].scaleW * n * c.nvar * ms : 0.);
        }
      }
      compareRuns(C, c, B, r, want, extra, what, k < ncoef ? (k % nbfl == 0 ? "shift:constant" : (drift_fext(c.kdrift) && k % nbfl == nbfl - 1) ? "shift:external-drift" : "shift:monomial") : "shift:mixed", kase, false);
    }
    C.nontrivial(id);
  });
}

// ------------------------------------------------------------------------------------------------- (e) linearity
VF_PART(linearity)
{
  Menus M = C.thorough() ? thoroughMenus() : quickMenus();
  if (C.thorough()) { M.layouts = {0, 1, 2, 3}; M.models = {0, 1, 5, 7, 9}; M.neighs = {0, 2, 3, 4}; M.verrs = {0, 2}; }
  else { M.layouts = {1, 2}; M.models = {1, 5, 9}; M.upats = {0, 2, 3}; }
  forBases(C, M, false, [&](uint64_t id, const CaseId& c, Base& B) {
    const KData& d = B.d;
    int n = d.n(), nt = d.nt();
    std::string kase = std::to_string(id);
    countExcluded(C, B);
    // est(0): all defined data set to zero
    KData dz = d;
    for (int w = 0; w < c.nvar; w++) for (int i = 0; i < n; i++) if (!FFFF(d.z[w][i])) dz.z[w][i] = 0.;
    Run r0 = runKrig(C, dz, c);
    if (!r0.ok) { C.violation("linear:kriging-refused", "kriging() failed on zero data; " + c.str(), kase); return; }
    // basis: unit data vectors
    std::vector<VD> want = r0.est, extra = zeros(c.nvar, nt);
    for (int w = 0; w < c.nvar; w++)
      for (int i = 0; i < n; i++)
      {
        if (FFFF(d.z[w][i])) continue;
        KData de = dz;
        de.z[w][i] = 1.;
        Run ri = runKrig(C, de, c);
        if (!ri.ok) { C.violation("linear:kriging-refused", "kriging() failed on a unit data vector; " + c.str(), kase); return; }
        for (int v0 = 0; v0 < c.nvar; v0++)
          for (int t = 0; t < nt; t++)
          {
            want[v0][t] += d.z[w][i] * (ri.est[v0][t] - r0.est[v0][t]);
            extra[v0][t] += std::fabs(d.z[w][i]) * (std::fabs(ri.est[v0][t]) + std::fabs(r0.est[v0][t]));
            // stdev must not depend on the data at all
            if (B.T[t].usable && ri.sd[v0][t] != B.run.sd[v0][t])
            {
              double a = ri.sd[v0][t], b0 = B.run.sd[v0][t];
              if (!(std::fabs(a * a - b0 * b0) <= 2 * tolOf(B.T[t]) * std::max((double)B.T[t].R[v0].scaleVar, 1e-300)))
                C.violation("linear:stdev-depends-on-data:" + c.cls(), "stdev " + fmt(a) + " with a unit data vector, " + fmt(b0) + " with the menu data; " + c.str() + " target#" + std::to_string(t), kase);
            }
          }
      }
    // the base run must be the superposition of the basis runs
    {
      Run rb = B.run;
      compareRuns(C, c, B, rb, want, extra, "superposition of unit-vector runs", "linear:basis", kase, false);
    }
    // menu combinations a*z + b*z2 with z2 = a second data set (values of the other variables rotated)
    static const double AB[2][2] = {{1, 1}, {2, -1}};
    KData d2 = d;
    for (int w = 0; w < c.nvar; w++) { VD alt = values((w + 1) % 3, n); for (int i = 0; i < n; i++) if (!FFFF(d.z[w][i])) d2.z[w][i] = alt[(i + 1) % n]; }
    Run r2 = runKrig(C, d2, c);
    if (!r2.ok) return;
    for (int q = 0; q < 2; q++)
    {
      double a = AB[q][0], b = AB[q][1];
      KData dc = d;
      for (int w = 0; w < c.nvar; w++) for (int i = 0; i < n; i++) if (!FFFF(d.z[w][i])) dc.z[w][i] = a * d.z[w][i] + b * d2.z[w][i];
      Run rc = runKrig(C, dc, c);
      if (!rc.ok) continue;
      std::vector<VD> w2 = zeros(c.nvar, nt), ex = zeros(c.nvar, nt);
      for (int v0 = 0; v0 < c.nvar; v0++)
        for (int t = 0; t < nt; t++)
        {
          w2[v0][t] = a * B.run.est[v0][t] + b * r2.est[v0][t] + (1 - a - b) * r0.est[v0][t];
          ex[v0][t] = std::fabs(a * B.run.est[v0][t]) + std::fabs(b * r2.est[v0][t]) + std::fabs((1 - a - b) * r0.est[v0][t]) + 3 * (B.T[t].usable ? (double)B.T[t].R[v0].scaleEst : 0.);
        }
      compareRuns(C, c, B, rc, w2, ex, "data = " + fmt(a) + "*z + " + fmt(b) + "*z2", "linear:combination", kase, false);
    }
    C.nontrivial(id);
  });
}

// ------------------------------------------------------------------------------------------------- (f) permutations
static std::vector<std::vector<int>> permMenu(int n, bool all)
{
  std::vector<std::vector<int>> out;
  std::vector<int> p(n);
  for (int i = 0; i < n; i++) p[i] = i;
  if (n <= 4 || all)
  {
    while (std::next_permutation(p.begin(), p.end())) out.push_back(p);
    return out;
  }
  for (int r = 1; r < n; r++) { std::vector<int> q(n); for (int i = 0; i < n; i++) q[i] = (i + r) % n; out.push_back(q); }
  std::vector<int> q = p; std::swap(q[0], q[n - 1]); out.push_back(q);
  q = p; std::reverse(q.begin(), q.end()); out.push_back(q);
  return out;
}
VF_PART(permutation)
{
  Menus M = C.thorough() ? thoroughMenus() : quickMenus();
  if (C.thorough()) { M.layouts = {0, 1, 2, 3, 4, 5}; M.models = {1, 5, 7, 9}; M.verrs = {0, 2}; M.drifts = {1, 2, 3, 5}; }
  else { M.models = {5, 7, 9}; M.upats = {0, 2, 3}; M.drifts = {1, 3, 5}; M.layouts = {1, 2, 4}; }
  forBases(C, M, true, [&](uint64_t id, const CaseId& c, Base& B) {
    const KData& d = B.d;
    int n = d.n(), nt = d.nt();
    std::string kase = std::to_string(id);
    countExcluded(C, B);
    bool all = C.thorough() && (n <= 5 || (c.kmodel == 5 && c.kverr == 0 && c.kupat == 0));
    for (auto& p : permMenu(n, all))
    {
      KData dp = permuted(d, p);
      Run r = runKrig(C, dp, c);
      if (!r.ok) { C.violation("permute:kriging-refused", "kriging() failed on permuted samples; " + c.str(), kase); continue; }
      compareRuns(C, c, B, r, B.run.est, zeros(c.nvar, nt), "samples reordered as " + vstr(p), "permute", kase, true);
    }
    bool anyTieFree = false;
    for (int t = 1; t < nt; t++) if (B.T[t].usable && !B.T[t].tie && B.T[t].nbgh.size() < (size_t)n) anyTieFree = true;
    if (anyTieFree || neigh_unique(c.kneigh)) C.nontrivial(id);
  });
}

// ------------------------------------------------------------------------------------------------- (g) translations
VF_PART(translation)
{
  Menus M = C.thorough() ? thoroughMenus() : quickMenus();
  if (!C.thorough()) { M.models = {1, 5, 7, 9}; M.drifts = {1, 2, 3, 5}; }
  static const double TR[3][3] = {{8, 0, 0}, {-16, 32, 0}, {1024, -512, 256}};
  forBases(C, M, false, [&](uint64_t id, const CaseId& c, Base& B) {
    const KData& d = B.d;
    int nt = d.nt();
    std::string kase = std::to_string(id);
    countExcluded(C, B);
    for (int q = 0; q < 3; q++)
    {
      VD tv(TR[q], TR[q] + c.ndim);
      KData dt = translated(d, tv);
      // conditioning of the TRANSLATED problem (the drift monomials change): rebuild the reference on the translated data
      KBuilt bt(dt, c.kmodel, c.kdrift, c.kneigh);
      Reference reft(dt, bt.model, c.kdrift);
      Base Bt = B;
      double tnorm = 0;
      for (double x : tv) tnorm = std::max(tnorm, std::fabs(x));
      for (int t = 0; t < nt; t++)
      {
        TInfo& I = Bt.T[t];
        if (!I.usable) continue;
        RefSystem S;
        reft.buildSystem(I.nbgh, S);
        if (S.singular) { I.usable = false; continue; }
        double k2 = S.kappa;
        if (model_is_intrinsic(c.kmodel)) k2 *= B.T[t].kappa / std::max(1., B.T[t].S.kappa);
        if (k2 > KAPPA_MAX) { I.usable = false; C.skip(); C.outcome("excluded:translated-system-ill-conditioned"); continue; }
        I.kappa = std::max(I.kappa, k2);
      }
      Run r = runKrig(C, dt, c);
      if (!r.ok) { C.violation("translate:kriging-refused", "kriging() failed on translated coordinates; " + c.str(), kase); continue; }
      // covariances are evaluated between points projected in absolute coordinates: relative error eps*|t|/range on the
      // distances -> factor (1 + |t|) on the tolerance is within "round-off proportional to the conditioning"
      compareRuns(C, c, Bt, r, B.run.est, zeros(c.nvar, nt), "coordinates translated by " + vstr(tv), "translate", kase, false, 1. + tnorm / 16.);
    }
    C.nontrivial(id);
  });
}

// ------------------------------------------------------------------------------------------------- (h) common rescaling
// All lengths (coordinates of data and targets, ranges, neighbourhood radius) multiplied by 2^-10, 2^-20, 2^10, 2^20 and / or
// all values (data, known means; sills and measurement errors by the square) by 2^-8, 2^6: the estimates and stdev are
// multiplied by the value factor and nothing else changes.  (A consequence of linearity and of the fact that the model is
// parameterised by ranges; it is the "invariance under relabelling" of the unit of length.)  The conditioning is recomputed on
// the rescaled system (polynomial drifts are badly scaled in small / large units).
VF_PART(rescale)
{
  Menus M;
  M.ndims = {2, 3}; M.nvars = {1, 2}; M.layouts = {1, 2, 3}; M.upats = {0, 2}; M.verrs = {0, 2};
  M.models = {5, 7, 8, 10}; M.drifts = {1, 2, 3, 5}; M.neighs = {0, 2, 3, 6};
  if (C.thorough()) { M.ndims = {1, 2, 3}; M.layouts = {0, 1, 2, 3, 4, 5}; M.upats = {0, 1, 2, 3}; M.models = {1, 3, 5, 6, 7, 8, 10}; M.drifts = {1, 2, 3, 4, 5}; M.neighs = {0, 1, 2, 3, 4, 5, 6}; }
  static const double TR[7][2] = {{1. / 1024, 1}, {1. / 1048576, 1}, {1024, 1}, {1048576, 1}, {1, 1. / 256}, {1, 64}, {1. / 1024, 64}};
  forBases(C, M, false, [&](uint64_t id, const CaseId& c, Base& B) {
    const KData& d = B.d;
    int nt = d.nt();
    std::string kase = std::to_string(id);
    countExcluded(C, B);
    for (int q = 0; q < 7; q++)
    {
      double ls = TR[q][0], vs = TR[q][1];
      KData ds = scaled(d, ls, vs);
      KBuilt bs(ds, c.kmodel, c.kdrift, c.kneigh, ls, vs);
      Reference refs(ds, bs.model, c.kdrift);
      refs.meanScale = vs;
      Base Bs = B;
      for (int t = 0; t < nt; t++)
      {
        TInfo& I = Bs.T[t];
        if (!I.usable) continue;
        RefSystem S;
        refs.buildSystem(I.nbgh, S);
        if (S.singular || S.kappa > KAPPA_MAX) { I.usable = false; C.skip(); C.outcome("excluded:rescaled-system-ill-conditioned"); continue; }
        I.kappa = std::max(I.kappa, S.kappa);
      }
      Run r = runKrig(C, ds, c, ls, vs);
      if (!r.ok) { C.violation("rescale:kriging-refused", "kriging() failed on the rescaled problem; " + c.str(), kase); continue; }
      for (auto& a : r.est) for (double& x : a) if (!FFFF(x)) x /= vs;
      for (auto& a : r.sd) for (double& x : a) if (!FFFF(x)) x /= vs;
      std::string tag = ls != 1. ? (ls < 1 ? "rescale:lengths-down" : "rescale:lengths-up") : (vs < 1 ? "rescale:values-down" : "rescale:values-up");
      compareRuns(C, c, Bs, r, B.run.est, zeros(c.nvar, nt), "all lengths x " + fmt(ls) + ", all values x " + fmt(vs) + " (outputs divided by the value factor)", tag, kase, false);
    }
    C.nontrivial(id);
  });
}

// ------------------------------------------------------------------------------------------------- unconditional clauses
// "the standard deviation is ALWAYS a finite non-negative number and, with a known mean, its square never exceeds the
// a-priori variance" is not conditional on the conditioning of the system.  This part enumerates deliberately demanding
// configurations (smooth models without nugget, range of the order of the field, 8..30 samples, targets on and next to the
// data) where the computed variance C00 - lambda.rhs is a rounded zero of either sign, and judges ONLY those clauses:
//   estimate defined (not TEST)  =>  stdev defined, not NaN/inf, >= 0 ; varz not NaN/inf ;
//   known mean                   =>  stdev^2 <= C00 + 1e-10*kappa*C00     (upper side only; skipped when kappa > 1e14 or unknown)
// Non-vacuity is measured by driving a private KrigingSystem on the same inputs and reading the raw variance
// _var0 - _results before the guarded square root (histogram only, the verdict uses the public kriging() outputs).
static VVD hardLayout(int ndim, int n, int kind, double field)
{
  VVD x(ndim, VD(n));
  if (kind == 0)
  {
    // lattice: m^ndim nodes (first n in lexicographic order) spanning [0, field]
    int m = ndim == 1 ? n : ndim == 2 ? (int)std::ceil(std::sqrt((double)n)) : (int)std::ceil(std::cbrt((double)n));
    if (m < 2) m = 2;
    for (int i = 0; i < n; i++) { int r = i; for (int k = 0; k < ndim; k++) { x[k][i] = field * (double)(r % m) / (double)(m - 1); r /= m; } }
    return x;
  }
  // scattered (Halton bases 2,3,5) with clusters: every 4th point is a close neighbour (field/128 away) of the previous one
  static const int BASE[3] = {2, 3, 5};
  for (int i = 0; i < n; i++)
    for (int k = 0; k < ndim; k++)
    {
      double f = 1, h = 0;
      for (int j = i + 1; j > 0; j /= BASE[k]) { f /= BASE[k]; h += f * (j % BASE[k]); }
      x[k][i] = field * h;
    }
  for (int i = 3; i < n; i += 4) { for (int k = 0; k < ndim; k++) x[k][i] = x[k][i - 1]; x[0][i] += field / 128.; }
  return x;
}
struct HardModel { ECov type; double nugget; const char* name; };
// built on demand (the ECov constants are library statics: no copy at static-initialisation time)
static HardModel hardModel(int k)
{
  switch (k)
  {
    case 0: return {ECov::GAUSSIAN, 0., "gaussian"};
    case 1: return {ECov::CUBIC, 0., "cubic"};
    case 2: return {ECov::GAUSSIAN, 1e-10, "gaussian+nugget1e-10"};
    default: return {ECov::SPHERICAL, 0., "spherical(control)"};
  }
}

static std::string rawClass(double raw, double c00)
{
  if (std::isnan(raw)) return "raw-variance:NaN";
  if (raw < -1e-7 * c00) return "raw-variance:below -1e-7*C00";
  if (raw < -1e-10 * c00) return "raw-variance:in [-1e-7,-1e-10)*C00 (clamp essential)";
  if (raw <= 0) return "raw-variance:in [-1e-10,0]*C00 (clamp matters)";
  if (raw < 1e-10 * c00) return "raw-variance:in (0,1e-10)*C00";
  if (raw < 1e-7 * c00) return "raw-variance:in [1e-10,1e-7)*C00";
  return "raw-variance:clearly positive";
}

VF_PART(stdev_always_finite)
{
  std::vector<int> ns = {8, 12, 20, 30};
  std::vector<double> ratios = {0.5, 1, 2}, fields = {1, 4};
  std::vector<int> drifts = {1, 2, 3}, nmaxis = {0, 12};  // 0 = unique
  std::vector<double> sills = {1.};
  if (C.thorough()) { ratios = {0.25, 0.5, 1, 2, 4}; fields = {1, 4, 1024}; nmaxis = {0, 12, 20}; sills = {1., 3.5}; }
  Space sp;
  sp.axis("ndim", 3).axis("ratio", (int)ratios.size()).axis("drift", 3).axis("neigh", (int)nmaxis.size()).axis("sill", (int)sills.size());
  sp.axis("model", 4).axis("n", 4).axis("kind", 2).axis("field", (int)fields.size());
  static const double OFF[3] = {1e-9, 1e-6, 1e-3};
  for_each_case(C, sp, [&](uint64_t id, const std::vector<int>& ix) {
    int ndim = ix[0] + 1, kdrift = drifts[ix[2]], nmaxi = nmaxis[ix[3]], n = ns[ix[6]], kind = ix[7];
    double ratio = ratios[ix[1]], sill = sills[ix[4]], field = fields[ix[8]];
    const HardModel hm = hardModel(ix[5]);
    std::string kase = std::to_string(id);
    char desc[320];
    snprintf(desc, sizeof desc, "ndim=%d n=%d layout=%s field=%g model=%s range=%g sill=%g drift=%s neigh=%s", ndim, n, kind ? "scattered+clusters" : "lattice", field, hm.name, ratio * field, sill,
             drift_name(kdrift), nmaxi ? ("moving-nmaxi" + std::to_string(nmaxi)).c_str() : "unique");
    // ---- the problem
    KData d;
    d.ndim = ndim; d.nvar = 1;
    d.x = hardLayout(ndim, n, kind, field);
    d.z.push_back(VD(n));
    for (int i = 0; i < n; i++) d.z[0][i] = (double)((i * 37) % 11) - 5. + 0.25 * (i % 4);
    d.tx.assign(ndim, VD());
    auto addT = [&](const VD& c) { for (int k = 0; k < ndim; k++) d.tx[k].push_back(c[k]); };
    std::vector<int> onDatum;  // target -> datum it sits on / next to (-1 otherwise)
    for (int i = 0; i < n; i++) { VD c(ndim); for (int k = 0; k < ndim; k++) c[k] = d.x[k][i]; addT(c); onDatum.push_back(i); }
    int noff = C.thorough() ? n : std::min(n, 6);
    for (int i = 0; i < noff; i++)
      for (int o = 0; o < 3; o++)
        for (int dir = 0; dir < (C.thorough() ? 2 : 1); dir++)
        {
          VD c(ndim);
          for (int k = 0; k < ndim; k++) c[k] = d.x[k][i] + ((dir == 0) ? (k == 0 ? OFF[o] * field : 0.) : -OFF[o] * field);
          addT(c); onDatum.push_back(i);
        }
    static const double OTHER[3][3] = {{.5, .5, .5}, {1.5, 1.25, 1.75}, {.31, .77, .19}};
    for (int q = 0; q < 3; q++) { VD c(ndim); for (int k = 0; k < ndim; k++) c[k] = OTHER[q][k] * field; addT(c); onDatum.push_back(-1); }
    int nt = d.nt();
    // ---- gstlearn objects
    set_space(ndim);
    Db* dbin = make_dbin(d);
    Db* dbout = make_dbout(d);
    VectorDouble ranges(ndim, ratio * field);
    Model* model = Model::createFromParam(hm.type, ratio * field, sill, 1., ranges, VectorDouble({sill}), VectorDouble());
    if (hm.nugget > 0) model->addCovFromParam(ECov::NUGGET, 0., hm.nugget * sill, 1., VectorDouble(ndim, 0.), VectorDouble({hm.nugget * sill}), VectorDouble());
    if (drift_known_mean(kdrift)) model->setMean(known_mean(kdrift, 0), 0);
    else model->setDriftIRF(drift_order(kdrift), 0);
    ANeigh* neigh = nmaxi ? (ANeigh*)NeighMoving::create(false, nmaxi) : (ANeigh*)NeighUnique::create();
    struct Cleanup { Db* a; Db* b; Model* m; ANeigh* g; ~Cleanup() { delete a; delete b; delete m; delete g; } } cleanup {dbin, dbout, model, neigh};

    int err = kriging(dbin, dbout, model, neigh, EKrigOpt::POINT, true, true, true);
    C.eval();
    if (err) { C.violation("always:kriging-refused", std::string("kriging() returned an error on a valid configuration; ") + desc, kase); return; }
    std::vector<int> cE = find_cols(dbout, ".estim"), cS = find_cols(dbout, ".stdev"), cV = find_cols(dbout, ".varz");
    if (cE.size() != 1 || cS.size() != 1 || cV.size() != 1) { C.violation("always:output-columns", std::string("missing output column; ") + desc, kase); return; }
    VD est(nt), sd(nt), vz(nt);
    for (int t = 0; t < nt; t++) { est[t] = dbout->getValueByColIdx(t, cE[0]); sd[t] = dbout->getValueByColIdx(t, cS[0]); vz[t] = dbout->getValueByColIdx(t, cV[0]); }

    // ---- raw variances before the guarded square root (non-vacuity only): private KrigingSystem on fresh objects
    VD raw(nt, TEST);
    {
      Db* dbo2 = make_dbout(d);
      int iE = dbo2->addColumnsByConstant(1, TEST, "e"), iS = dbo2->addColumnsByConstant(1, TEST, "s");
      {
        KrigingSystem ksys(dbin, dbo2, model, neigh);
        if (!ksys.updKrigOptEstim(iE, iS, -1) && !ksys.setKrigOptCalcul(EKrigOpt::POINT, VectorInt(), false) && ksys.isReady())
        {
          for (int t = 0; t < nt; t++)
          {
            if (ksys.estimate(t)) break;
            double s = dbo2->getArray(t, iS);
            if (std::isnan(s) || !FFFF(s)) raw[t] = ksys._var0.getValue(0, 0, false) - ksys._results.getValue(0, 0, false);
          }
          ksys.conclusion();
        }
      }
      delete dbo2;
    }

    // ---- conditioning (known mean clause only): the harness's own system over the neighbours
    Reference ref(d, model, kdrift);
    double c00 = sill * (1. + hm.nugget);
    std::map<std::vector<int>, double> kcache;
    bool touched = false;
    for (int t = 0; t < nt; t++)
    {
      C.eval();
      std::string info = std::string(desc) + " target#" + std::to_string(t) + (onDatum[t] >= 0 ? (t < n ? " ON datum " : " next to datum ") + std::to_string(onDatum[t]) : std::string(" (free)"));
      if (!std::isnan(est[t]) && FFFF(est[t])) { C.skip(); C.outcome("estimate-undefined(TEST):not-judged"); continue; }
      std::string cls = std::string(drift_known_mean(kdrift) ? "known-mean" : "drift") + ":" + (nmaxi ? "moving" : "unique");
      if (!FFFF(raw[t]))
      {
        std::string rc = rawClass(raw[t], c00);
        C.outcome(rc);
        if (raw[t] <= 0) touched = true;
      }
      bool ok = true;
      // NaN first: the library's FFFF() also answers true for NaN
      if (std::isnan(sd[t])) { C.violation("always:stdev-NaN:" + cls, "stdev is NaN (estimate " + fmt(est[t]) + ", raw variance " + fmt(raw[t]) + " = " + fmt(raw[t] / c00) + " x C00); " + info, kase); ok = false; }
      else if (FFFF(sd[t])) { C.violation("always:stdev-undefined-with-defined-estimate:" + cls, "estimate " + fmt(est[t]) + " is defined but stdev is the undefined value; " + info, kase); ok = false; }
      else if (std::isinf(sd[t])) { C.violation("always:stdev-infinite:" + cls, "stdev is infinite (estimate " + fmt(est[t]) + "); " + info, kase); ok = false; }
      else if (sd[t] < 0) { C.violation("always:stdev-negative:" + cls, "stdev = " + fmt(sd[t]) + " < 0; " + info, kase); ok = false; }
      if (std::isnan(vz[t]) || (!FFFF(vz[t]) && !std::isfinite(vz[t]))) { C.violation("always:varz-not-finite:" + cls, "varz = " + fmt(vz[t]) + "; " + info, kase); ok = false; }
      if (!std::isnan(vz[t]) && FFFF(vz[t])) { C.violation("always:varz-undefined-with-defined-estimate:" + cls, "estimate " + fmt(est[t]) + " is defined but varz is the undefined value; " + info, kase); ok = false; }
      if (ok && drift_known_mean(kdrift))
      {
        // neighbours: all samples (unique) or krigtest (moving)
        std::vector<int> nb;
        if (!nmaxi) nb = unique_nbgh(d);
        else { Krigtest_Res r = krigtest(dbin, dbout, model, neigh, t); nb.assign(r.nbgh.begin(), r.nbgh.end()); }
        auto it = kcache.find(nb);
        if (it == kcache.end())
        {
          RefSystem S;
          ref.buildSystem(nb, S);
          it = kcache.emplace(nb, S.singular ? -1. : S.kappa).first;
        }
        double kappa = it->second;
        if (kappa < 0 || kappa > 1e14) C.outcome("sk-bound:not-judged(kappa>1e14-or-numerically-singular)");
        else
        {
          bool within = sd[t] * sd[t] <= c00 + 1e-10 * std::max(1., kappa) * c00;
          if (!within) { C.violation("always:sk-variance-exceeds-prior:" + cls, "known mean: stdev^2 = " + fmt(sd[t] * sd[t]) + " > a-priori variance " + fmt(c00) + " (kappa=" + fmt(kappa) + "); " + info, kase); ok = false; }
          C.outcome(kappa > KAPPA_MAX ? "sk-bound:judged-on-ill-conditioned-system(1e8<kappa<=1e14)" : "sk-bound:judged(kappa<=1e8)");
        }
      }
      C.outcome(ok ? (sd[t] == 0 ? "stdev:exactly-zero" : "stdev:finite-positive") : "always:VIOLATED");
    }
    if (touched) C.nontrivial(id);
    if (id % 997 == 5) C.sample("{\"id\":" + kase + ",\"case\":" + jstr(desc) + "}");
  });
}

// ------------------------------------------------------------------------------------------------- self test
static bool selftest()
{
  // the permutation / translation helpers are involutive and exact
  KData d = make_data(2, 2, 3, 1, 2, true);
  set_targets_c02(d, layout(2, 3));
  std::vector<int> p = {2, 0, 1, 5, 3, 4}, inv(6);
  for (int i = 0; i < 6; i++) inv[p[i]] = i;
  KData e = permuted(permuted(d, p), inv);
  for (int k = 0; k < 2; k++) if (e.x[k] != d.x[k]) return false;
  for (int v = 0; v < 2; v++) { if (e.z[v] != d.z[v]) return false; if (e.v[v] != d.v[v]) return false; }
  if (e.f != d.f) return false;
  KData t = translated(translated(d, {1024, -512}), {-1024, 512});
  for (int k = 0; k < 2; k++) if (t.x[k] != d.x[k] || t.tx[k] != d.tx[k]) return false;
  if (permMenu(4, false).size() != 23 || permMenu(5, true).size() != 119 || permMenu(6, false).size() != 7) return false;
  return true;
}

int main(int argc, char** argv)
{
  return run_main(argc, argv, [](Ctx&) {
    silence();
    if (!selftest()) { fprintf(stderr, "C02: self-test failed (broken check)\n"); _exit(2); }
  });
}
