// C01 — kriging output is the solution of the documented (co)kriging system.
// Engine E1: complete product of the menus of vf/krig_menu.hpp (layouts x undefined patterns x measurement errors x
// models x drifts x neighbourhoods x targets).  Oracle: vf/krig_ref.hpp — the system [Sigma X; Xt 0] of
// doc/references/Kriging.md assembled by the harness from pointwise Model::eval and closed-form drift monomials over
// exactly the neighbours reported by krigtest(iech0>=1).nbgh (brute force for the unique neighbourhood), compressed
// by the harness, solved in long double with full pivoting.  Compared: weights (krigtest().wgt), estimate, stdev (on the
// variance scale) and varz (kriging() output columns).  Tolerance 1e-10 * kappa(A) * natural scale; kappa > 1e8 and
// singular reference systems are skipped and counted (the property says "up to round-off proportional to the
// conditioning").
#include "vf/krig_ref.hpp"

using namespace vf;
using namespace vf::krig;

static const double TOL = 1e-10;
static const double KAPPA_MAX = 1e8;

struct CaseId
{
  int ndim, nvar, klayout, kupat, kverr, kmodel, kdrift, kneigh;
  int kdisc = -1;  // >=0: block kriging on the grid target
  double lscale = 1., vscale = 1.;  // common factor on all lengths / on all values (powers of two)
  std::string str() const
  {
    char b[320];
    snprintf(b, sizeof b, "ndim=%d nvar=%d layout=%d upat=%d verr=%d model=%s drift=%s neigh=%s%s", ndim, nvar, klayout, kupat, kverr, model_name(kmodel), drift_name(kdrift),
             neigh_name(kneigh), kdisc >= 0 ? (" block-ndisc-menu=" + std::to_string(kdisc)).c_str() : "");
    std::string r = b;
    if (lscale != 1.) r += " all-lengths-x" + fmt(lscale);
    if (vscale != 1.) r += " all-values-x" + fmt(vscale);
    return r;
  }
};

// what a case produced, for the metamorphic comparison between scales
struct CaseOut
{
  bool ran = false;
  std::vector<VD> est, sd;                      // [nvar][nt]
  std::vector<std::vector<int>> nbgh;           // [nt]
  std::vector<std::vector<VD>> wgt;             // [nt][nvar][nr]   (empty when not judged)
  std::vector<double> kappa;                    // [nt]  (<0: not judged)
  std::vector<std::vector<double>> scaleEst, scaleVar;  // [nt][nvar]
};

static std::string mechKey(const CaseId& c, const char* what)
{
  // mechanism-level key: quantity : mean/drift class : mono/multi-variate : point/block  (+ iso/heterotopic added by the caller)
  const char* dc = drift_known_mean(c.kdrift) ? "known-mean" : drift_fext(c.kdrift) ? "external-drift" : "drift";
  return std::string(what) + ":" + dc + ":" + (c.nvar > 1 ? "multivar" : "monovar") + (c.kdisc >= 0 ? ":block" : ":point");
}

// run one case on the real code and judge every target. Returns false when the case is not applicable.
static void judgeCase(Ctx& C, const CaseId& c, uint64_t id, CaseOut* out = nullptr)
{
  KData d = make_data(c.ndim, c.nvar, c.klayout, c.kupat, c.kverr, drift_fext(c.kdrift));
  if (c.kdisc >= 0) set_grid(d, c.kdisc);
  if (c.lscale != 1. || c.vscale != 1.) d = scaled(d, c.lscale, c.vscale);
  int n = d.n();
  KBuilt b(d, c.kmodel, c.kdrift, c.kneigh, c.lscale, c.vscale);
  std::string kase = std::to_string(id);
  bool stationary = !model_is_intrinsic(c.kmodel);
  bool wantVarz = stationary;

  int err = kriging(b.dbin, b.dbout, b.model, b.neigh, b.calcul, true, true, wantVarz, b.ndiscs);
  C.eval();
  if (err)
  {
    C.outcome("kriging-refused");
    C.violation("kriging:refused-valid-input:" + std::string(drift_name(c.kdrift)), "kriging() returned an error on a valid combination: " + c.str(), kase);
    return;
  }
  std::vector<int> cE = find_cols(b.dbout, ".estim"), cS = find_cols(b.dbout, ".stdev"), cV = find_cols(b.dbout, ".varz");
  if ((int)cE.size() != c.nvar || (int)cS.size() != c.nvar || (wantVarz && (int)cV.size() != c.nvar))
  {
    C.violation("kriging:output-columns", "kriging() did not create one estim/stdev/varz column per variable: " + c.str(), kase);
    return;
  }
  int nt = d.nt();
  std::vector<std::vector<double>> est(c.nvar, VD(nt)), sd(c.nvar, VD(nt)), vz(c.nvar, VD(nt, TEST));
  for (int v = 0; v < c.nvar; v++)
    for (int t = 0; t < nt; t++)
    {
      est[v][t] = b.dbout->getValueByColIdx(t, cE[v]);
      sd[v][t] = b.dbout->getValueByColIdx(t, cS[v]);
      if (wantVarz) vz[v][t] = b.dbout->getValueByColIdx(t, cV[v]);
    }

  Reference ref(d, b.model, c.kdrift);
  ref.meanScale = c.vscale;
  const double vs1 = c.vscale, vs2 = c.vscale * c.vscale;  // units of the values / of the variances
  if (out)
  {
    out->ran = true; out->est = est; out->sd = sd;
    out->nbgh.assign(nt, std::vector<int>()); out->wgt.assign(nt, std::vector<VD>()); out->kappa.assign(nt, -1.);
    out->scaleEst.assign(nt, VD(c.nvar, 0.)); out->scaleVar.assign(nt, VD(c.nvar, 0.));
  }
  std::vector<int> ubf = unique_nbgh(d);
  bool block = c.kdisc >= 0;
  std::map<std::vector<int>, RefSystem> cache;
  bool nontrivial = false;

  for (int t = 0; t < nt; t++)
  {
    std::vector<int> nbgh;
    Krigtest_Res res;
    bool haveRes = false;
    if (t == 0)
    {
      // krigtest(iech0=0) is unusable (known finding, part krigtest_iech0): only the unique neighbourhood can be judged
      if (!neigh_unique(c.kneigh)) continue;
      nbgh = ubf;
    }
    else
    {
      res = krigtest(b.dbin, b.dbout, b.model, b.neigh, t, b.calcul, b.ndiscs);
      haveRes = true;
      nbgh.assign(res.nbgh.begin(), res.nbgh.end());
      bool bad = false;
      for (size_t i = 0; i < nbgh.size(); i++) if (nbgh[i] < 0 || nbgh[i] >= n || (i > 0 && nbgh[i] <= nbgh[i - 1])) bad = true;
      if (bad) { C.violation("krigtest:nbgh-invalid", "krigtest().nbgh is not an increasing list of sample ranks: " + vstr(res.nbgh) + " " + c.str(), kase); continue; }
      if (neigh_unique(c.kneigh) && nbgh != ubf)
        C.violation("nbgh:unique-not-all-samples", "unique neighbourhood " + vstr(nbgh) + " != all samples with a defined variable " + vstr(ubf) + " " + c.str(), kase);
    }
    C.eval();
    std::string tcase = kase + " target=" + std::to_string(t);
    if (nbgh.empty())
    {
      C.skip(); C.outcome("no-neighbour(outputs-not-defined)");
      continue;
    }
    auto it = cache.find(nbgh);
    if (it == cache.end()) { RefSystem S; ref.buildSystem(nbgh, S); it = cache.emplace(nbgh, S).first; }
    const RefSystem& S = it->second;
    if (S.nr == 0) { C.skip(); C.outcome("no-defined-cell"); continue; }
    if (S.singular)
    {
      // no unique solution: the property does not define the outputs (the library returns garbage or TEST)
      bool few = false;
      for (int v = 0; v < c.nvar; v++) { int nv = 0; for (int q : S.rv) nv += q == v; if (nv < S.nbfl) few = true; }
      C.skip(); C.outcome(few ? "reference-singular:fewer-data-of-a-variable-than-drift-functions" : "reference-singular:drift-functions-dependent-on-neighbourhood");
      continue;
    }
    VVD disc2;
    if (block)
    {
      const DbGrid* g = dynamic_cast<const DbGrid*>(b.dbout);
      VectorVectorDouble dd = g->getDiscretizedBlock(b.ndiscs, t, false, true, 1234546);
      for (auto& o : dd) disc2.push_back(VD(o.begin(), o.end()));
    }
    bool truncated = nbgh.size() < ubf.size();
    for (int v0 = 0; v0 < c.nvar; v0++)
    {
      RefTarget R;
      ref.solveTarget(S, t, v0, disc2, R);
      double kappa = S.kappa;
      // intrinsic model: the library adds a constant (field-dependent) to the generalised covariance; its own system is
      // conditioned accordingly.  Use the exported C(0) to scale kappa.
      if (!stationary && haveRes && res.var.getNRows() > v0 && R.s0 > 0) kappa *= std::max(1., std::fabs(res.var.getValue(v0, v0)) / (double)R.s0);
      if (!stationary && !haveRes) kappa *= 1e3;
      if (kappa > KAPPA_MAX) { C.skip(); C.outcome("ill-conditioned(kappa>1e8)"); continue; }
      double tol = TOL * std::max(1., kappa);
      std::string flavour = std::string(S.heterotopic ? ":heterotopic" : ":isotopic");
      bool okAll = true;
      auto info = [&]() { return c.str() + " target#" + std::to_string(t) + " var=" + std::to_string(v0) + " nbgh=" + vstr(nbgh) + " kappa=" + fmt(kappa); };

      // --- weights
      if (haveRes)
      {
        int nrows = res.wgt.getNRows(), ncols = res.wgt.getNCols();
        if (nrows != S.nr + S.nfeq || ncols != c.nvar)
        {
          C.violation(mechKey(c, "wgt-shape") + flavour, "krigtest().wgt is " + std::to_string(nrows) + "x" + std::to_string(ncols) + ", reference has " + std::to_string(S.nr) + " data equations + " +
                                                          std::to_string(S.nfeq) + " drift equations; " + info(), tcase);
          okAll = false;
        }
        else
        {
          for (int a = 0; a < S.nr; a++)
          {
            double w = res.wgt.getValue(a, v0);
            if (!(std::fabs(w - (double)R.lambda[a]) <= tol * (double)R.scaleW))
            {
              C.violation(mechKey(c, "weights") + flavour, "weight of (sample " + std::to_string(S.rs[a]) + ", var " + std::to_string(S.rv[a]) + ") = " + fmt(w) + " reference " + fmt((double)R.lambda[a]) + "; " + info(), tcase);
              okAll = false;
              break;
            }
          }
          // exported sigma0^2 (stationary models only: the intrinsic constant is implementation-defined)
          if (stationary && res.var.getNRows() > v0)
          {
            double s0 = res.var.getValue(v0, v0);
            if (!(std::fabs(s0 - (double)R.s0) <= TOL * std::max(vs2, (double)fabsl(R.s0))))
            {
              C.violation(mechKey(c, "var0") + flavour, "krigtest().var = " + fmt(s0) + " reference sigma0^2 = " + fmt((double)R.s0) + "; " + info(), tcase);
              okAll = false;
            }
          }
        }
      }
      // --- estimate
      double e = est[v0][t];
      if (FFFF(e) || !(std::fabs(e - (double)R.estim) <= tol * std::max(vs1, (double)R.scaleEst)))
      {
        C.violation(mechKey(c, "estim") + flavour, "estimate = " + fmt(e) + " reference " + fmt((double)R.estim) + "; " + info(), tcase);
        okAll = false;
      }
      // --- stdev, judged on the variance scale
      double s = sd[v0][t];
      double sv = (double)R.scaleVar;
      if (!stationary && haveRes && res.var.getNRows() > v0) sv = std::max(sv, std::fabs(res.var.getValue(v0, v0)));
      double refvar = std::max(0., (double)R.var);
      if (FFFF(s) || s < 0 || !std::isfinite(s) || !(std::fabs(s * s - refvar) <= tol * std::max(1e-300, sv)))
      {
        C.violation(mechKey(c, "stdev") + flavour, "stdev = " + fmt(s) + " (variance " + fmt(s * s) + ") reference variance " + fmt((double)R.var) + "; " + info(), tcase);
        okAll = false;
      }
      // --- variance of the estimator
      if (wantVarz)
      {
        double z = vz[v0][t];
        if (FFFF(z) || !(std::fabs(z - (double)R.varz) <= tol * std::max(1e-300, sv)))
        {
          C.violation(mechKey(c, "varz") + flavour, "varz = " + fmt(z) + " reference lambda^t Sigma lambda = " + fmt((double)R.varz) + "; " + info(), tcase);
          okAll = false;
        }
      }
      if (out)
      {
        out->nbgh[t] = nbgh; out->kappa[t] = kappa;
        out->scaleEst[t][v0] = std::max(vs1, (double)R.scaleEst) / vs1; out->scaleVar[t][v0] = std::max(1e-300, sv) / vs2;
        if (haveRes && res.wgt.getNRows() == S.nr + S.nfeq && res.wgt.getNCols() == c.nvar)
        {
          if (out->wgt[t].empty()) out->wgt[t].assign(c.nvar, VD());
          out->wgt[t][v0].resize(S.nr);
          for (int a = 0; a < S.nr; a++) out->wgt[t][v0][a] = res.wgt.getValue(a, v0);
        }
      }
      C.outcome(okAll ? "agree" : "DISAGREE");
      if (S.heterotopic) C.outcome("class:heterotopic");
      if (S.nfeq > 0) C.outcome("class:with-drift");
      if (truncated) C.outcome("class:neighbourhood-truncates");
      if (t == 2) C.outcome("class:target-on-datum");
      if (S.heterotopic || S.nfeq > 0 || truncated) nontrivial = true;
    }
  }
  if (nontrivial) C.nontrivial(id);
  if (id % 10007 == 3) C.sample("{\"id\":" + kase + ",\"case\":" + jstr(c.str()) + "}");
}

// ------------------------------------------------------------------------------------------------- parts
struct Menus
{
  std::vector<int> ndims, nvars, layouts, verrs, models, drifts, neighs;
  bool pairs = false;
  int upatMax = 0;  // radix of the u-pattern axis
  std::vector<int> discs;  // empty: point targets
};
static void runMenus(Ctx& C, const Menus& M)
{
  Space sp;
  // odd-radix axes first: the shards take ids modulo 16, the costly axes (nvar, layout) must not be correlated with the shard
  sp.axis("ndim", (int)M.ndims.size()).axis("verr", (int)M.verrs.size()).axis("neigh", (int)M.neighs.size()).axis("drift", (int)M.drifts.size());
  sp.axis("nvar", (int)M.nvars.size()).axis("layout", (int)M.layouts.size()).axis("upat", M.upatMax).axis("model", (int)M.models.size()).axis("disc", std::max<int>(1, (int)M.discs.size()));
  for_each_case(C, sp, [&](uint64_t id, const std::vector<int>& ix) {
    CaseId c;
    c.ndim = M.ndims[ix[0]]; c.kverr = M.verrs[ix[1]]; c.kneigh = M.neighs[ix[2]]; c.kdrift = M.drifts[ix[3]];
    c.nvar = M.nvars[ix[4]]; c.klayout = M.layouts[ix[5]]; c.kupat = ix[6]; c.kmodel = M.models[ix[7]];
    c.kdisc = M.discs.empty() ? -1 : M.discs[ix[8]];
    int n = (int)layout(c.ndim, c.klayout)[0].size();
    if (c.kupat >= upattern_count(n, c.nvar, M.pairs)) return;          // axis padding, not a case
    if (!combo_valid(c.ndim, c.kmodel, c.kdrift, c.kneigh)) { C.outcome("combination-documented-invalid"); return; }
    UPattern u = upattern(n, c.nvar, c.kupat);
    if (u.undefCoord >= 0 && !neigh_unique(c.kneigh)) { C.outcome("undef-coordinate-only-with-unique-neigh"); return; }
    if (u.undefFext >= 0 && !drift_fext(c.kdrift)) return;  // pattern without object
    judgeCase(C, c, id);
  });
}

static int maxUpat(const Menus& M)
{
  int m = 0;
  for (int nd : M.ndims) for (int nv : M.nvars) for (int l : M.layouts) m = std::max(m, upattern_count((int)layout(nd, l)[0].size(), nv, M.pairs));
  return m;
}

// thorough: every pair of undefined cells (heterotopy in depth) on a reduced model/neighbourhood menu
VF_PART(point_pairs)
{
  if (!C.thorough()) return;
  Menus M;
  M.pairs = true;
  M.ndims = {1, 2, 3}; M.nvars = {2}; M.layouts = {1, 2, 3}; M.verrs = {0, 2};
  M.models = {5, 7, 9}; M.drifts = {1, 2, 3, 5}; M.neighs = {0, 2, 3};
  M.upatMax = maxUpat(M);
  runMenus(C, M);
}

// three variables
VF_PART(point_nvar3)
{
  Menus M;
  M.ndims = {2}; M.nvars = {3}; M.layouts = {2}; M.verrs = {0, 2};
  M.models = {5}; M.drifts = {1, 2}; M.neighs = {0, 2};
  if (C.thorough()) { M.ndims = {1, 2, 3}; M.layouts = {1, 2, 3, 5}; M.models = {1, 5, 7, 9, 10}; M.drifts = {0, 1, 2, 3, 5}; M.neighs = {0, 1, 2, 3}; }
  M.upatMax = maxUpat(M);
  runMenus(C, M);
}

// block kriging on a grid target
VF_PART(block)
{
  Menus M;
  M.ndims = {1, 2, 3}; M.nvars = {1, 2}; M.layouts = {2, 3}; M.verrs = {0, 2};
  M.models = {1, 5, 7}; M.drifts = {1, 2, 3}; M.neighs = {0, 2}; M.discs = {0, 1, 2};
  if (C.thorough()) { M.layouts = {0, 1, 2, 3, 4, 5}; M.models = {0, 1, 2, 3, 5, 7, 9, 10}; M.drifts = {0, 1, 2, 3, 5}; M.neighs = {0, 1, 2, 3}; }
  M.upatMax = 1 + 2;  // none + the first two single cells (thorough: all)
  if (C.thorough()) M.upatMax = maxUpat(M);
  runMenus(C, M);
}

// SCALE axis: every case of a sub-menu (anisotropic / rotated / nested models, 2-D and 3-D, unique and moving neighbourhoods,
// point and block targets) is run with ALL lengths (coordinates of data and targets, ranges, neighbourhood radius, grid mesh)
// multiplied by 2^-10, 2^-20, 2^10, 2^20 and / or all values multiplied by 2^-8, 2^6 (sills and measurement errors by the
// square, known means by the factor).  Each scaled run is judged against the reference system built AT THAT SCALE (same oracle
// as point_core), and, metamorphically, against the unscaled run: same neighbours, same weights, estimates x value factor,
// stdev x value factor.  (Kriging is invariant under a common rescaling of lengths for range-parameterised models; with a
// polynomial drift the weights and estimates are still invariant, only the conditioning of the system changes - cases whose
// scaled system has kappa > 1e8 are excluded and counted as everywhere else.)
VF_PART(scale)
{
  std::vector<int> ndims = {2, 3}, nvars = {1, 2}, layouts = {2, 3}, upats = {0, 1}, verrs = {0, 2}, models = {5, 6, 7, 8, 10}, drifts = {1, 2, 3}, neighs = {0, 2, 3, 6}, discs = {-1, 1};
  if (C.thorough()) { layouts = {1, 2, 3, 5}; upats = {0, 1, 2}; models = {1, 3, 5, 6, 7, 8, 10}; drifts = {1, 2, 3, 5}; neighs = {0, 1, 2, 3, 4, 6}; discs = {-1, 1, 2}; }
  static const double TR[7][2] = {{1. / 1024, 1}, {1. / 1048576, 1}, {1024, 1}, {1048576, 1}, {1, 1. / 256}, {1, 64}, {1. / 1024, 64}};
  Space sp;
  sp.axis("neigh", (int)neighs.size()).axis("drift", (int)drifts.size()).axis("model", (int)models.size()).axis("ndim", (int)ndims.size()).axis("nvar", (int)nvars.size());
  sp.axis("layout", (int)layouts.size()).axis("upat", (int)upats.size()).axis("verr", (int)verrs.size()).axis("disc", (int)discs.size());
  for_each_case(C, sp, [&](uint64_t id, const std::vector<int>& ix) {
    CaseId c;
    c.kneigh = neighs[ix[0]]; c.kdrift = drifts[ix[1]]; c.kmodel = models[ix[2]]; c.ndim = ndims[ix[3]]; c.nvar = nvars[ix[4]];
    c.klayout = layouts[ix[5]]; c.kupat = upats[ix[6]]; c.kverr = verrs[ix[7]]; c.kdisc = discs[ix[8]];
    if (!combo_valid(c.ndim, c.kmodel, c.kdrift, c.kneigh)) { C.outcome("combination-documented-invalid"); return; }
    std::string kase = std::to_string(id);
    CaseOut base;
    judgeCase(C, c, id, &base);
    if (!base.ran) return;
    int nt = (int)base.kappa.size();
    for (int q = 0; q < 7; q++)
    {
      CaseId cs = c;
      cs.lscale = TR[q][0]; cs.vscale = TR[q][1];
      CaseOut o;
      judgeCase(C, cs, id, &o);
      if (!o.ran) { C.violation("scale:kriging-refused", "kriging() fails on the rescaled problem; " + cs.str(), kase); continue; }
      std::string tag = cs.lscale != 1. ? (cs.lscale < 1 ? "lengths-down" : "lengths-up") : (cs.vscale < 1 ? "values-down" : "values-up");
      for (int t = 1; t < nt; t++)
      {
        if (base.kappa[t] < 0) continue;
        if (o.kappa[t] < 0) { C.skip(); C.outcome("excluded:scaled-system-ill-conditioned-or-undefined"); continue; }
        C.eval();
        std::string info = cs.str() + " target#" + std::to_string(t) + " nbgh=" + vstr(base.nbgh[t]) + " kappa=" + fmt(std::max(base.kappa[t], o.kappa[t]));
        if (o.nbgh[t] != base.nbgh[t])
        {
          C.violation("scale:neighbours-differ:" + tag, "neighbours " + vstr(o.nbgh[t]) + " after rescaling, " + vstr(base.nbgh[t]) + " before; " + info, kase);
          C.outcome("scale:VIOLATED");
          continue;
        }
        double tol = 2 * TOL * std::max(1., std::max(base.kappa[t], o.kappa[t]));
        bool ok = true;
        for (int v = 0; v < c.nvar && ok; v++)
        {
          double e0 = base.est[v][t], e1 = o.est[v][t] / cs.vscale, s0 = base.sd[v][t], s1 = o.sd[v][t] / cs.vscale;
          if (!(std::fabs(e1 - e0) <= tol * std::max(base.scaleEst[t][v], o.scaleEst[t][v])))
          { C.violation("scale:estimate:" + tag, "estimate " + fmt(o.est[v][t]) + " / value factor = " + fmt(e1) + " differs from the unscaled run " + fmt(e0) + "; var=" + std::to_string(v) + " " + info, kase); ok = false; }
          else if (!(std::fabs(s1 * s1 - s0 * s0) <= tol * std::max(base.scaleVar[t][v], o.scaleVar[t][v])))
          { C.violation("scale:stdev:" + tag, "stdev " + fmt(o.sd[v][t]) + " / value factor = " + fmt(s1) + " differs from the unscaled run " + fmt(s0) + "; var=" + std::to_string(v) + " " + info, kase); ok = false; }
          else if (!base.wgt[t].empty() && !o.wgt[t].empty() && base.wgt[t][v].size() == o.wgt[t][v].size())
          {
            double mw = 1;
            for (double w : base.wgt[t][v]) mw = std::max(mw, std::fabs(w));
            for (size_t a = 0; a < base.wgt[t][v].size(); a++)
              if (!(std::fabs(base.wgt[t][v][a] - o.wgt[t][v][a]) <= tol * mw))
              { C.violation("scale:weights:" + tag, "weight #" + std::to_string(a) + " = " + fmt(o.wgt[t][v][a]) + " after rescaling, " + fmt(base.wgt[t][v][a]) + " before; var=" + std::to_string(v) + " " + info, kase); ok = false; break; }
          }
        }
        C.outcome(ok ? "scale:invariant:" + tag : "scale:VIOLATED");
      }
    }
    C.nontrivial(id);
  });
}

// The observation interface itself: krigtest(iech0=0) on a multi-target Db (known finding) and the lhs/rhs export.
VF_PART(krigtest_iech0)
{
  Space sp;
  sp.axis("ndim", 3).axis("layout", 6).axis("model", 3).axis("drift", 3).axis("neigh", 2).axis("upat", 2);
  static const int MODELS[3] = {1, 5, 7}, DRIFTS[3] = {1, 2, 3}, NEIGHS[2] = {0, 2};
  for_each_case(C, sp, [&](uint64_t id, const std::vector<int>& ix) {
    CaseId c {ix[0] + 1, 2, ix[1], ix[5] ? 1 : 0, 0, MODELS[ix[2]], DRIFTS[ix[3]], NEIGHS[ix[4]]};
    KData d = make_data(c.ndim, c.nvar, c.klayout, c.kupat, c.kverr, false);
    // targets: #0 generic A, #1 far ... so that target 0 and the last target have different systems
    KBuilt b(d, c.kmodel, c.kdrift, c.kneigh);
    Reference ref(d, b.model, c.kdrift);
    std::string kase = std::to_string(id);
    // (1) iech0 = 0 must describe target 0.  Targets 0 and 1 are the same location, so krigtest(1) is the expected answer.
    Krigtest_Res r0 = krigtest(b.dbin, b.dbout, b.model, b.neigh, 0);
    Krigtest_Res r1 = krigtest(b.dbin, b.dbout, b.model, b.neigh, 1);
    C.eval(2);
    bool same = r0.wgt.getNRows() == r1.wgt.getNRows() && r0.wgt.getNCols() == r1.wgt.getNCols() && r0.nbgh == r1.nbgh;
    if (same)
      for (int i = 0; i < r0.wgt.getNRows() && same; i++)
        for (int j = 0; j < r0.wgt.getNCols(); j++)
          if (std::fabs(r0.wgt.getValue(i, j) - r1.wgt.getValue(i, j)) > 1e-9 * std::max(1., std::fabs(r1.wgt.getValue(i, j)))) { same = false; break; }
    C.outcome(same ? "iech0=0:describes-target-0" : "iech0=0:describes-another-target");
    C.nontrivial(id);
    if (!same)
      C.violation("krigtest:iech0=0", "krigtest(iech0=0) on a 5-target Db does not return the system of target 0 (weights differ from those of the identical target 1; it processes every target and exports the last one); " + c.str(), kase);
    // (2) lhs / rhs export of krigtest(iech0=1) against the reference system
    std::vector<int> nbgh(r1.nbgh.begin(), r1.nbgh.end());
    if (nbgh.empty()) return;
    RefSystem S;
    ref.buildSystem(nbgh, S);
    if (S.singular) return;
    int N = S.nr + S.nfeq;
    C.eval();
    bool shape = r1.lhs.getNRows() == N && r1.rhs.getNRows() == N;
    double maxl = 0, maxdiff = 0;
    if (shape)
    {
      // data-data block only (drift rows depend on the monomial order)
      for (int a = 0; a < S.nr; a++)
        for (int e = 0; e < S.nr; e++) { maxl = std::max(maxl, std::fabs(r1.lhs.getValue(a, e))); maxdiff = std::max(maxdiff, std::fabs(r1.lhs.getValue(a, e) - (double)S.A(a, e))); }
    }
    double maxr = 0, maxrdiff = 0;
    if (shape && r1.rhs.getNCols() == c.nvar)
      for (int v0 = 0; v0 < c.nvar; v0++)
      {
        RefTarget R;
        ref.solveTarget(S, 1, v0, VVD(), R);
        for (int a = 0; a < S.nr; a++) { maxr = std::max(maxr, std::fabs(r1.rhs.getValue(a, v0))); maxrdiff = std::max(maxrdiff, std::fabs(r1.rhs.getValue(a, v0) - (double)R.rhs[a])); }
      }
    else shape = false;
    maxdiff = std::max(maxdiff, maxrdiff);
    maxl = std::max(maxl, maxr);
    bool ok = shape && maxdiff <= 1e-10 * std::max(1., (double)S.A.norm1());
    std::string cls = S.heterotopic ? "heterotopic" : "isotopic";
    C.outcome("lhs-export:" + cls + (ok ? ":agree" : (!shape ? ":wrong-shape" : (maxl == 0 ? ":all-zero" : ":differs"))));
    if (!ok)
      C.violation("krigtest:lhs-rhs-export:" + cls, "krigtest().lhs is " + std::to_string(r1.lhs.getNRows()) + "x" + std::to_string(r1.lhs.getNCols()) + ", rhs " + std::to_string(r1.rhs.getNRows()) + "x" + std::to_string(r1.rhs.getNCols()) + ": max|lhs,rhs|=" + fmt(maxl) + " max|lhs-Sigma, rhs-Sigma0|=" + fmt(maxdiff) +
                                                        " (reference system has " + std::to_string(N) + " equations); " + c.str(), kase);
  });
}

// A target whose external drift value is undefined has no kriging system (X0 is undefined): the outputs must be the
// undefined value, and in any case must be assembled from THIS target only.  Differential: the same target processed
// after other targets and processed first.
VF_PART(target_undefined_fext)
{
  Space sp;
  sp.axis("ndim", 3).axis("layout", 6).axis("model", 3).axis("drift", 2).axis("neigh", 3).axis("pos", 4).axis("nvar", 2);
  static const int MODELS[3] = {1, 5, 7}, DRIFTS[2] = {5, 6}, NEIGHS[3] = {0, 2, 3};
  for_each_case(C, sp, [&](uint64_t id, const std::vector<int>& ix) {
    CaseId c {ix[0] + 1, ix[6] + 1, ix[1], 0, 0, MODELS[ix[2]], DRIFTS[ix[3]], NEIGHS[ix[4]]};
    int pos = ix[5] + 1;  // 1..4: which target has the undefined external drift
    KData d = make_data(c.ndim, c.nvar, c.klayout, 0, 0, true);
    d.tf[pos] = TEST;
    std::string kase = std::to_string(id);
    auto run = [&](const KData& dd, int t, VD& est, VD& sd) {
      KBuilt b(dd, c.kmodel, c.kdrift, c.kneigh);
      if (kriging(b.dbin, b.dbout, b.model, b.neigh, b.calcul, true, true, false)) return false;
      std::vector<int> cE = find_cols(b.dbout, ".estim"), cS = find_cols(b.dbout, ".stdev");
      if ((int)cE.size() != c.nvar || (int)cS.size() != c.nvar) return false;
      est.clear(); sd.clear();
      for (int v = 0; v < c.nvar; v++) { est.push_back(b.dbout->getValueByColIdx(t, cE[v])); sd.push_back(b.dbout->getValueByColIdx(t, cS[v])); }
      return true;
    };
    VD eA, sA, eB, sB;
    if (!run(d, pos, eA, sA)) { C.outcome("kriging-refused"); return; }
    // same target alone in the output file
    KData d1 = d;
    for (int k = 0; k < d.ndim; k++) d1.tx[k] = {d.tx[k][pos]};
    d1.tf = {TEST};
    if (!run(d1, 0, eB, sB)) { C.outcome("kriging-refused"); return; }
    C.eval(2);
    C.nontrivial(id);
    for (int v = 0; v < c.nvar; v++)
    {
      bool undefined = FFFF(eA[v]) && FFFF(sA[v]);
      bool same = eA[v] == eB[v] && sA[v] == sB[v];
      C.outcome(undefined ? "target-without-external-drift:outputs-undefined" : same ? "target-without-external-drift:finite-output" : "target-without-external-drift:finite-output-depending-on-previous-targets");
      if (!undefined)
        C.violation("rhs:undefined-target-drift-ignored", "target #" + std::to_string(pos) + " has an undefined external drift (no system [Sigma0; X0] exists) but kriging returns estimate " + fmt(eA[v]) + " stdev " + fmt(sA[v]) +
                                                              "; the same target alone in the output Db gives estimate " + fmt(eB[v]) + " stdev " + fmt(sB[v]) +
                                                              " (KrigingSystem::estimate ignores the error returned by _rhsCalcul and solves with the drift entries left by the previous target); var=" + std::to_string(v) + " " + c.str(), kase);
    }
  });
}

// core (registered last so that the small parts always run before a deadline): everything x single undefined cells
VF_PART(point_core)
{
  Menus M;
  M.ndims = {1, 2, 3}; M.nvars = {1, 2}; M.layouts = {0, 1, 2, 3, 4, 5}; M.verrs = {0, 1, 2};
  M.models = {0, 1, 3, 5, 7, 9}; M.drifts = {0, 1, 2, 3, 4, 5}; M.neighs = {0, 1, 2, 3, 4};
  if (C.thorough()) { M.models = {0, 1, 2, 3, 4, 5, 6, 7, 8, 9, 10, 11}; M.drifts = {0, 1, 2, 3, 4, 5, 6}; M.neighs = {0, 1, 2, 3, 4, 5, 6}; }
  M.upatMax = maxUpat(M);
  runMenus(C, M);
}

// ------------------------------------------------------------------------------------------------- self test of the oracle
static bool selftest()
{
  // simple kriging, pure nugget (diagonal Sigma), target off the data: lambda = 0, estimate = mean, variance = sill.
  // target ON datum 1: lambda = e_1, estimate = z_1, variance 0.
  KData d = make_data(2, 1, 2, 0, 0, false);
  KBuilt b(d, 0, 1, 0);
  Reference ref(d, b.model, 1);
  RefSystem S;
  ref.buildSystem(unique_nbgh(d), S);
  if (S.singular || S.nr != 5 || std::fabs(S.kappa - 1.) > 1e-12) return false;
  RefTarget R;
  ref.solveTarget(S, 1, 0, VVD(), R);
  if (!R.defined || fabsl(R.estim - 123) > 1e-12 || fabsl(R.var - 2) > 1e-12 || fabsl(R.varz) > 1e-12) return false;
  ref.solveTarget(S, 2, 0, VVD(), R);
  if (fabsl(R.estim - 2) > 1e-12 || fabsl(R.var) > 1e-12 || fabsl(R.lambda[1] - 1) > 1e-12) return false;
  // ordinary kriging with a spherical model: weights sum to one, A * Ainv = I
  KBuilt b2(d, 1, 3, 0);
  Reference ref2(d, b2.model, 3);
  ref2.buildSystem(unique_nbgh(d), S);
  if (S.singular || S.nfeq != 3) return false;
  int N = S.nr + S.nfeq;
  for (int i = 0; i < N; i++)
    for (int j = 0; j < N; j++)
    {
      LD s = 0;
      for (int k = 0; k < N; k++) s += S.A(i, k) * S.Ainv(k, j);
      if (fabsl(s - (i == j ? 1 : 0)) > 1e-14L * S.kappa) return false;
    }
  ref2.solveTarget(S, 1, 0, VVD(), R);
  LD sum = 0, sx = 0;
  for (int a = 0; a < S.nr; a++) { sum += R.lambda[a]; sx += R.lambda[a] * d.x[0][S.rs[a]]; }
  if (fabsl(sum - 1) > 1e-13 || fabsl(sx - d.tx[0][1]) > 1e-13) return false;
  // singular detection: two identical columns
  LDMat Z(2), Zi;
  Z(0, 0) = 1; Z(0, 1) = 2; Z(1, 0) = 2; Z(1, 1) = 4;
  if (ld_invert(Z, Zi)) return false;
  return true;
}

int main(int argc, char** argv)
{
  return run_main(argc, argv, [](Ctx&) {
    silence();
    if (!selftest()) { fprintf(stderr, "C01: oracle self-test failed (broken check)\n"); _exit(2); }
  });
}
