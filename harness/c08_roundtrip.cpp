// C08 — saving and reloading an object gives back an equivalent object.
// Engine E1: for every serialisable class a finite builder menu (vf/corpus.hpp) is enumerated completely; every instance
// is written (stream and neutral file), read back and compared with the original
//   (1) serialize -> deserialize succeeds,
//   (2) getter by getter (15 significant digits: relative 1e-14, undefined stays undefined),
//   (3) behaviourally on a probe (covariances on probe pairs, neighbourhood selections on a probe Db, inside() on a lattice...),
//   (4) second serialize reproduces the first text byte for byte,
//   (5) dumpToNF / createFromNF: file = class tag + stream text, reloaded object equivalent; a file is refused by every other class.
// One finding key per mechanism: roundtrip:<Class>:<group of the first differing getter>, or roundtrip:<Class>:crash:<stage>.
#include "vf/corpus.hpp"
#include "vf/fork.hpp"
#include <sys/stat.h>

using namespace vfc;

static std::string first_diff_line(const std::string& a, const std::string& b)
{
  std::istringstream ia(a), ib(b);
  std::string la, lb;
  int n = 0;
  for (;;)
  {
    bool ga = (bool)std::getline(ia, la), gb = (bool)std::getline(ib, lb);
    n++;
    if (!ga && !gb) return "texts identical";
    if (!ga || !gb || la != lb) return "line " + std::to_string(n) + ": first='" + (ga ? la : "<end>") + "' second='" + (gb ? lb : "<end>") + "'";
  }
}
static std::string idx_str(const Space& sp, const std::vector<int>& idx) { return sp.describe(idx); }

// One case = build, write, reload, compare. It runs in a forked child: a reload may corrupt the heap (the per-line reader
// accepts one value too many) and must not contaminate the following cases. The child reports through a line protocol:
//   T <stage>   O <outcome>   N <hash>   S <json>   V <key> \t <text>
struct Rep
{
  std::string buf;
  int fd;
  void line(char tag, const std::string& a, const std::string& b = "")
  {
    std::string l; l += tag; l += '\t'; l += a; if (!b.empty()) { l += '\t'; for (char c : b) l += (c == '\n' || c == '\t') ? ' ' : c; }
    l += '\n';
    child_write(fd, l);
  }
  void stage(const std::string& s) { line('T', s); }
  void outcome(const std::string& s) { line('O', s); }
  void violation(const std::string& key, const std::string& what) { line('V', key, what); }
};

static void one_case(const ClassDef& def, const Space& sp, uint64_t id, const std::vector<int>& idx, Rep& R)
{
  const std::string pre = "roundtrip:" + def.keyname + ":";
  R.stage("build");
  std::unique_ptr<ASerializable> a(def.build(idx));
  if (!a) { R.outcome("inadmissible-combination"); R.line('K', "skip"); return; }
  std::string where = " [case " + idx_str(sp, idx) + "]";
  std::string t1, t2;
  R.stage("serialize");
  if (!to_text(a.get(), t1)) { R.violation(pre + "serialize-failed", "serialize() returned false" + where); R.outcome("serialize-failed"); return; }
  if (def.nontrivial && def.nontrivial(idx)) R.line('N', std::to_string(Hash().s(t1).h));
  if (id % 37 == 5) R.line('S', "{\"id\":" + std::to_string(id) + ",\"menu\":" + idx_str(sp, idx) + ",\"text\":" + jstr(t1.substr(0, 300)) + "}");
  R.stage("deserialize");
  std::unique_ptr<ASerializable> b(def.fresh());
  if (!from_text(b.get(), t1)) { R.violation(pre + "deserialize-failed", "deserialize() refused the text just written" + where + " text=" + t1.substr(0, 600)); R.outcome("deserialize-failed"); return; }
  R.stage("getters");
  Fp fa, fb;
  def.getters(a.get(), fa);
  def.getters(b.get(), fb);
  std::string grp, d;
  {
    // every group of getters that differs is reported (a known defect in one group must not hide another group)
    auto mm = fp_diff_all(fa, fb);
    for (auto& m : mm) { R.violation(pre + m.group, "getter differs after stream round trip: " + m.text + where); R.outcome("getter-mismatch:" + m.group); }
    if (!mm.empty()) return;
  }
  if (def.probe)
  {
    R.stage("probe");
    Fp pa, pb;
    def.probe(a.get(), pa);
    def.probe(b.get(), pb);
    d = fp_diff(pa, pb, &grp);
    if (!d.empty()) { R.violation(pre + grp, "reloaded object answers a query differently: " + d + where); R.outcome("probe-mismatch:" + grp); return; }
  }
  R.stage("rewrite");
  if (!to_text(b.get(), t2)) { R.violation(pre + "reserialize-failed", "the reloaded object cannot be written again" + where); R.outcome("reserialize-failed"); return; }
  if (t1 != t2) { R.violation(pre + "rewrite-differs", "writing the reloaded object does not reproduce the file: " + first_diff_line(t1, t2) + where); R.outcome("rewrite-differs"); return; }
  if (def.fromNF)
  {
    R.stage("file");
    std::string path = scratch_path("c08_" + def.name + ".nf");
    bool okw = a->dumpToNF(path, false);
    std::string content;
    bool okr = read_file(path, content);
    if (!okw || !okr) { R.violation(pre + "file:dump-failed", "dumpToNF failed" + where); unlink(path.c_str()); return; }
    if (content != nf_tag(a.get()) + "\n" + t1) R.violation(pre + "file:content", "neutral file is not <tag line> + stream text: " + first_diff_line(nf_tag(a.get()) + "\n" + t1, content) + where);
    std::unique_ptr<ASerializable> c(def.fromNF(path));
    unlink(path.c_str());
    if (!c) { R.violation(pre + "file:createFromNF-refused", "createFromNF refused the file just written" + where); R.outcome("file-refused"); return; }
    Fp fc;
    def.getters(c.get(), fc);
    d = fp_diff(fa, fc, &grp);
    if (!d.empty()) { R.violation(pre + "file:" + grp, "getter differs after file round trip: " + d + where); R.outcome("file-getter-mismatch:" + grp); return; }
  }
  R.stage("done");
  R.outcome("equivalent");
}

static void roundtrip(Ctx& C, const std::string& cname)
{
  const ClassDef* defp = find_class(cname);
  if (!defp) { C.note("class not registered: " + cname); return; }
  const ClassDef& def = *defp;
  const std::string tl = case_tier(C);
  Space sp = def.space(C.thorough());
  for_each_case(C, sp, [&](uint64_t id, const std::vector<int>& idx) {
    std::string kase = tl + std::to_string(id);
    ChildResult r = run_child([&](int wfd) { Rep R; R.fd = wfd; one_case(def, sp, id, idx, R); return 0; }, 20., 4096);
    std::string stage = "start";
    bool skipped = false, done = false;
    std::istringstream is(r.data);
    std::string l;
    while (std::getline(is, l))
    {
      if (l.size() < 2) continue;
      std::string a = l.substr(2), b;
      size_t p = a.find('\t');
      if (p != std::string::npos) { b = a.substr(p + 1); a = a.substr(0, p); }
      switch (l[0])
      {
        case 'T': stage = a; if (a == "done") done = true; break;
        case 'O': C.outcome(a); break;
        case 'K': skipped = true; break;
        case 'N': C.nontrivial(strtoull(a.c_str(), nullptr, 10)); break;
        case 'S': C.sample(a); break;
        case 'V': C.violation(a, b, kase); break;
      }
    }
    if (skipped) { C.skip(); return; }
    if (stage == "build" && !(r.kind == ChildResult::EXITED && r.code == 0))
    {
      // the library crashed while BUILDING the instance through the API: no object, nothing to round-trip (reported as a note)
      C.skip(); C.outcome("builder-crashed-" + r.describe());
      C.note(def.name + ": the API call building menu entry " + idx_str(sp, idx) + " crashed (" + r.describe() + "); case excluded");
      return;
    }
    C.eval();
    if (!(r.kind == ChildResult::EXITED && r.code == 0))
    {
      C.outcome("crash-in-" + stage);
      C.violation("roundtrip:" + def.keyname + ":crash:" + stage,   // the signal / exit status is in the text only (it depends on the heap layout)
                  "the process died (" + r.describe() + ") in stage '" + stage + "' of the round trip [case " + idx_str(sp, idx) + "]", kase);
    }
  });
}

#define RT(cls) VF_PART(rt_##cls) { roundtrip(C, #cls); }
RT(Db)
RT(DbGrid)
RT(Model)
RT(ModelDrift)
RT(NeighUnique)
RT(NeighMoving)
RT(Table)
RT(Polygons)
RT(Vario)
RT(AnamHermite)
RT(AnamEmpirical)
RT(AnamDiscreteDD)
RT(AnamDiscreteIR)
RT(MeshETurbo)
RT(MeshEStandard)
RT(Rule)
RT(RuleShift)
RT(RuleShadow)
RT(NeighBench)
RT(NeighCell)
RT(NeighImage)
RT(PolyLine2D)
RT(PolyElem)
RT(Faults)
RT(FracEnviron)
RT(DbLine)
RT(DbGraphO)
RT(DbMeshTurbo)
RT(DbMeshStandard)

// A file written by class A is refused by createFromNF of every other class B (all ordered pairs), and accepted by A.
VF_PART(tag_refusal)
{
  auto& cl = classes();
  Space sp;
  sp.axis("writer", (int)cl.size()).axis("reader", (int)cl.size());
  for_each_case(C, sp, [&](uint64_t id, const std::vector<int>& idx) {
    const ClassDef &A = cl[idx[0]], &B = cl[idx[1]];
    if (!B.fromNF || A.corpus.empty() || A.aux || B.aux) { C.skip(); return; }
    std::string path = scratch_path("c08tag_" + std::to_string(C.shard) + ".nf");
    ChildResult r = run_child([&](int wfd) {
      std::unique_ptr<ASerializable> a(A.build(A.corpus[0]));
      if (!a) { child_write(wfd, "nobuild"); return 0; }
      if (!a->dumpToNF(path, false)) { child_write(wfd, "nodump"); return 0; }
      child_write(wfd, "dumped ");
      std::unique_ptr<ASerializable> b(B.fromNF(path));
      child_write(wfd, b ? "accepted" : "refused");
      return 0; }, 20., 4096);
    unlink(path.c_str());
    if (r.data == "nobuild") { C.skip(); return; }
    if (r.data == "nodump") { C.violation("tag:dump-failed:" + A.name, "dumpToNF failed", std::to_string(id)); return; }
    bool crashed = !(r.kind == ChildResult::EXITED && r.code == 0);
    if (crashed && r.data.rfind("dumped", 0) != 0) { C.skip(); C.outcome("writer-crashed"); return; }
    bool b = r.data == "dumped accepted";
    C.eval();
    if (idx[0] == idx[1])
    {
      // a class reading its own file is judged by the rt_<Class> parts; here it is only counted
      C.outcome(crashed ? "own-file-reader-crashed" : b ? "own-file-accepted" : "own-file-refused");
      return;
    }
    if (crashed)
    {
      C.outcome("reader-crashed");
      C.violation("tag:reader-crashed:" + B.name, B.name + "::createFromNF crashed (" + r.describe() + ") on a neutral file of class " + A.name, std::to_string(id));
      return;
    }
    C.nontrivial(id);
    C.outcome(b ? "foreign-file-accepted" : "foreign-file-refused");
    if (b) C.violation("tag:foreign-accepted:" + B.name, B.name + "::createFromNF accepted a neutral file whose tag line is '" + A.name + "'", std::to_string(id));
  });
}

// Container / prefix settings: what dumpToNF(name) writes must be what createFromNF(name) reads, for every setting and name shape.
VF_PART(file_naming)
{
  Space sp;
  sp.axis("setting", 4).axis("name", 4);
  const ClassDef* def = find_class("Db");
  for_each_case(C, sp, [&](uint64_t id, const std::vector<int>& idx) {
    const char* s = getenv("VF_SCRATCH");
    std::string dir = std::string(s ? s : "/tmp") + "/c08nm_" + std::to_string((long)getpid()) + "_" + std::to_string(id) + "/";
    static const char* NAMES[4] = {"a", "ab", "abc", "Neutral.Db.ascii"};
    std::string name = NAMES[idx[1]];
    ChildResult r = run_child([&](int wfd) {
      mkdir(dir.c_str(), 0700);
      if (chdir(dir.c_str()) != 0) { child_write(wfd, "nochdir"); return 0; }
      std::string expect = name;
      if (idx[0] == 1) { ASerializable::setPrefixName("P-"); expect = "P-" + name; }
      if (idx[0] == 2) { ASerializable::setContainerName(false, dir + "sub/"); expect = "sub/" + name; }
      if (idx[0] == 3) { ASerializable::setContainerName(false, dir + "sub/"); ASerializable::setPrefixName("P-"); expect = "sub/P-" + name; }
      std::unique_ptr<ASerializable> a(def->build(def->corpus[0]));
      if (!a->dumpToNF(name, false)) { child_write(wfd, "nodump"); return 0; }
      std::string content;
      if (!read_file(dir + expect, content)) { child_write(wfd, "notwhere"); return 0; }
      std::unique_ptr<ASerializable> b(def->fromNF(name));
      if (!b) { child_write(wfd, "refused"); return 0; }
      Fp fa, fb; def->getters(a.get(), fa); def->getters(b.get(), fb);
      std::string g;
      child_write(wfd, fp_diff(fa, fb, &g).empty() ? "ok" : "differs");
      return 0; }, 20., 4096);
    std::string cmd = "rm -rf '" + dir + "'";
    int rc = system(cmd.c_str()); (void)rc;
    C.eval();
    if (idx[0] > 0) C.nontrivial(id);
    static const char* SET[4] = {"none", "prefix", "container", "container+prefix"};
    std::string what = std::string("setting=") + SET[idx[0]] + " name='" + name + "'";
    C.outcome(r.data.empty() ? "crash" : r.data);
    if (r.data == "ok") return;
    std::string lenclass = name.size() <= 2 ? "name-of-1-or-2-chars" : "name";
    if (r.data == "refused") C.violation("naming:" + lenclass + ":reload-refused", "dumpToNF(name) then createFromNF(name) does not find the file: " + what, std::to_string(id));
    else C.violation("naming:" + lenclass + ":" + (r.data.empty() ? "crash" : r.data), "container/prefix round trip failed (" + r.data + "): " + what, std::to_string(id));
  });
}

int main(int argc, char** argv)
{
  return run_main(argc, argv, [](Ctx&) { silence(); register_batch1(); register_batch2(); });
}
