// C07 — a Db stays a consistent table under any sequence of edits.
// Engine E2 (bfs.hpp): breadth-first search over histories of real public Db calls.  Every history is replayed on
// a fresh Db AND on an independent reference model (struct RefTable: ordered columns {uid, name, values}, one ordered
// uid list per role type).  After the last step of every history the invariants of the property are judged on the
// real object through its public designation API (name / column index / UID / locator) and against the model.
//
// Latitude left by the property and how it is respected:
//  * names after de-duplication are an implementation choice: the model ADOPTS the names of the implementation after
//    every step; only uniqueness and "a free requested name is granted" are judged;
//  * setLocatorByUID documents that ranks may be given "in any order", leaving a transient gap: a step that gives an
//    EXPLICIT rank beyond the end of the role list puts the model in "gap" state; such states are judged on the
//    role-independent invariants only and are not extended (counted as gap-state-not-extended);
//  * cells whose content no documented rule defines (old columns of a Db whose sample count is fixed later by
//    addColumns) are adopted from the implementation.
// A violating state is not extended, hence the last op of a violating history is the culprit and the finding key is
//  <op kind>:<invariant class>.
#include "vf/gst.hpp"
#include "vf/bfs.hpp"
#include <regex>

using namespace vf;

static const int L_X = 0, L_Z = 1, L_F = 3, L_SEL = 10, L_UNK = -1;
static ELoc eloc(int t) { return t < 0 ? ELoc::UNKNOWN : ELoc::fromValue(t); }
static std::string lname(int t) { return t < 0 ? "UNKNOWN" : std::string(ELoc::fromValue(t).getKey()); }
static bool same(double a, double b) { return memcmp(&a, &b, 8) == 0; }

// ------------------------------------------------------------------------------------------------------------
// reference model
struct MCol
{
  int uid;
  std::string name;
  std::vector<double> v;
  std::vector<char> unspec;  // cell content not defined by any documented rule: adopted from the implementation
};
struct RefTable
{
  std::vector<MCol> cols;
  int nech = 0;
  int nuid = 0;  // UIDs are never reused
  std::map<int, std::vector<int>> roles;  // role type -> ordered uids (rank = position + 1)
  bool gap = false;
  bool grid = false;
  std::string requestedName;  // set by rename ops: name requested for column requestedUid
  int requestedUid = -1;

  int ncol() const { return (int)cols.size(); }
  int idxOfUid(int uid) const { for (int i = 0; i < ncol(); i++) if (cols[i].uid == uid) return i; return -1; }
  int idxOfName(const std::string& n) const { for (int i = 0; i < ncol(); i++) if (cols[i].name == n) return i; return -1; }
  int uidOfIdx(int i) const { return (i >= 0 && i < ncol()) ? cols[i].uid : -1; }
  void unrole(int uid)
  {
    for (auto& kv : roles) { auto& L = kv.second; for (size_t k = 0; k < L.size(); k++) if (L[k] == uid) { L.erase(L.begin() + k); break; } }
  }
  // documented semantics of one role assignment: the column gets role (T, k); it loses any former role (ranks of
  // that type close up); the former holder of (T,k) loses its role; k<0 = next free rank; k beyond the end = gap.
  void setRole(int uid, int T, int k, bool clean = false)
  {
    if (idxOfUid(uid) < 0) return;  // not a column: nothing may change
    if (clean && T >= 0) roles[T].clear();
    unrole(uid);
    if (T < 0) return;
    auto& L = roles[T];
    if (k < 0) k = (int)L.size();
    if (k > (int)L.size()) { gap = true; return; }
    if (k == (int)L.size()) L.push_back(uid); else L[k] = uid;
  }
  // vector form: explicit start rank k -> ranks k, k+1, ... ; automatic rank -> each column takes the next free rank
  void setRoles(const std::vector<int>& uids, int T, int k, bool clean)
  {
    if (clean && T >= 0) roles[T].clear();
    for (size_t i = 0; i < uids.size() && !gap; i++)
    {
      if (idxOfUid(uids[i]) < 0) continue;
      setRole(uids[i], T, k < 0 ? -1 : k + (int)i);
    }
  }
  bool inRole(int uid, int T) const
  {
    auto it = roles.find(T);
    if (it == roles.end()) return false;
    for (int u : it->second) if (u == uid) return true;
    return false;
  }
  int addCols(int n, double v, int T, int k)
  {
    int first = nuid;
    std::vector<int> uids;
    for (int i = 0; i < n; i++)
    {
      MCol c; c.uid = nuid++; c.name = "?"; c.v.assign(nech, v); c.unspec.assign(nech, 0);
      cols.push_back(c); uids.push_back(c.uid);
    }
    if (T >= 0) setRoles(uids, T, k, false);
    return first;
  }
  void delUid(int uid)
  {
    int i = idxOfUid(uid);
    if (i < 0) return;
    unrole(uid);
    cols.erase(cols.begin() + i);
  }
  int nactive() const
  {
    auto it = roles.find(L_SEL);
    if (it == roles.end() || it->second.empty()) return nech;
    int i = idxOfUid(it->second[0]);
    if (i < 0) return nech;
    int n = 0;
    for (int e = 0; e < nech; e++) { double s = cols[i].v[e]; if (s != 0. && !FFFF(s)) n++; }  // TEST = masked (doc of getSelection)
    return n;
  }
};

// ------------------------------------------------------------------------------------------------------------
struct Step
{
  Db*& db;
  RefTable& m;
  std::string bad;  // return-value mismatch detected inside the op ("" = fine)
  std::string tag;  // circumstance qualifying the finding key (deleted UID designated, automatic rank for a column already in the list)
};
struct Op
{
  std::string name;  // printable, with arguments
  std::string kind;  // finding-key component
  bool structural;   // adds / deletes columns
  std::function<void(Step&)> run;
};
static std::vector<Op> OPS;

static std::string nameAt(const RefTable& m, int i) { return (i >= 0 && i < m.ncol()) ? m.cols[i].name : std::string("nosuchcolumn"); }
static int lastIdx(const RefTable& m) { return m.ncol() - 1; }
static VectorDouble seqTab(int n, double base) { VectorDouble t(n); for (int i = 0; i < n; i++) t[i] = base + i; return t; }

static void build_ops()
{
  auto add = [](const std::string& n, const std::string& k, bool s, std::function<void(Step&)> f) { OPS.push_back({n, k, s, f}); };

  // ---- adding columns
  struct AC { int n; double v; const char* radix; int T; int k; };
  for (AC a : {AC{1, 7., "a", L_UNK, 0}, AC{1, 7., "a", L_Z, -1}, AC{1, 7., "a", L_Z, 0}, AC{2, 8., "a", L_Z, 0}, AC{2, 8., "New", L_X, -1},
               AC{1, 1., "x1", L_SEL, 0}, AC{1, 3., "a", L_Z, 1}})
    add("addColumnsByConstant(" + std::to_string(a.n) + "," + fmt(a.v) + "," + a.radix + "," + lname(a.T) + "," + std::to_string(a.k) + ")", "addColumnsByConstant", true,
        [a](Step& s) {
          int r = s.db->addColumnsByConstant(a.n, a.v, a.radix, eloc(a.T), a.k);
          int e = s.m.addCols(a.n, a.v, a.T, a.k);
          if (r != e) s.bad = "returned first UID " + std::to_string(r) + ", expected " + std::to_string(e);
        });
  add("addColumns(tab,'a',Z,-1)", "addColumns", true, [](Step& s) {
    int n = s.m.nech > 0 ? s.m.nech : 2;
    VectorDouble t = seqTab(n, 20.);
    bool fixes = s.m.nech <= 0;
    int r = s.db->addColumns(t, "a", ELoc::Z, -1);
    if (fixes) { s.m.nech = n; for (auto& c : s.m.cols) { c.v.assign(n, 0.); c.unspec.assign(n, 1); } }
    int e = s.m.addCols(1, 0., L_Z, -1);
    for (int i = 0; i < n; i++) s.m.cols.back().v[i] = t[i];
    if (r != e) s.bad = "returned UID " + std::to_string(r) + ", expected " + std::to_string(e);
  });
  add("addSelection({1,0,1,..},'sel')", "addSelection", true, [](Step& s) {
    int n = s.m.nech;
    VectorDouble t(n);
    for (int i = 0; i < n; i++) t[i] = (i % 2 == 0) ? 1. : 0.;
    int r = s.db->addSelection(t, "sel");
    if (n <= 0) return;  // nothing to load: documented no-op
    int e = s.m.addCols(1, 0., L_SEL, 0);
    for (int i = 0; i < n; i++) s.m.cols.back().v[i] = t[i];
    if (r != e) s.bad = "returned UID " + std::to_string(r) + ", expected " + std::to_string(e);
  });
  add("setColumn(tab,'fresh',Z,-1)", "setColumn", true, [](Step& s) {
    int n = s.m.nech > 0 ? s.m.nech : 2;
    VectorDouble t = seqTab(n, 40.);
    int i = s.m.idxOfName("fresh");
    s.db->setColumn(t, "fresh", ELoc::Z, -1);
    if (i >= 0) { for (int e = 0; e < s.m.nech; e++) { s.m.cols[i].v[e] = t[e]; s.m.cols[i].unspec[e] = 0; } return; }
    if (s.m.nech <= 0) { s.m.nech = n; for (auto& c : s.m.cols) { c.v.assign(n, 0.); c.unspec.assign(n, 1); } }
    s.m.addCols(1, 0., L_Z, -1);
    for (int e = 0; e < n; e++) s.m.cols.back().v[e] = t[e];
  });

  // ---- deleting columns
  for (int w : {0, 1, -1})
    add("deleteColumnByColIdx(" + std::string(w < 0 ? "last" : std::to_string(w)) + ")", "deleteColumnByColIdx", true, [w](Step& s) {
      int i = w < 0 ? lastIdx(s.m) : w;
      s.db->deleteColumnByColIdx(i);
      s.m.delUid(s.m.uidOfIdx(i));
    });
  for (int u : {1, 2})
    add("deleteColumnByUID(" + std::to_string(u) + ")", "deleteColumnByUID", true, [u](Step& s) { s.db->deleteColumnByUID(u); s.m.delUid(u); });
  add("deleteColumn(name of col 1)", "deleteColumn", true, [](Step& s) {
    std::string n = nameAt(s.m, 1);
    s.db->deleteColumn(n);
    s.m.delUid(s.m.uidOfIdx(1));
  });
  for (int T : {L_Z, L_X})
    add("deleteColumnsByLocator(" + lname(T) + ")", "deleteColumnsByLocator", true, [T](Step& s) {
      s.db->deleteColumnsByLocator(eloc(T));
      std::vector<int> L = s.m.roles[T];
      for (int u : L) s.m.delUid(u);
    });
  add("deleteColumnsByColIdx({0,2})", "deleteColumnsByColIdx", true, [](Step& s) {
    s.db->deleteColumnsByColIdx({0, 2});
    int u0 = s.m.uidOfIdx(0), u2 = s.m.uidOfIdx(2);
    s.m.delUid(u2); s.m.delUid(u0);
  });

  // ---- renaming
  auto rename = [](Step& s, int idx, const std::string& nn) { s.m.requestedUid = s.m.uidOfIdx(idx); s.m.requestedName = nn; };
  add("setName(name of col 1 -> name of col 0)", "setName", false, [rename](Step& s) {
    std::string o = nameAt(s.m, 1), n = nameAt(s.m, 0);
    if (s.m.ncol() < 2) n = "q";
    s.db->setName(o, n);
    if (s.m.ncol() >= 2) rename(s, 1, n);
  });
  add("setName(name of col 0 -> 'q')", "setName", false, [rename](Step& s) { s.db->setName(nameAt(s.m, 0), "q"); if (s.m.ncol() >= 1) rename(s, 0, "q"); });
  add("setNameByUID(1,'x1')", "setNameByUID", false, [rename](Step& s) { s.db->setNameByUID(1, "x1"); int i = s.m.idxOfUid(1); if (i >= 0) rename(s, i, "x1"); });
  add("setNameByColIdx(1, name of col 0)", "setNameByColIdx", false, [rename](Step& s) {
    std::string n = nameAt(s.m, 0);
    s.db->setNameByColIdx(1, n);
    if (s.m.ncol() >= 2) rename(s, 1, n);
  });
  add("setNameByColIdx(last,'w')", "setNameByColIdx", false, [rename](Step& s) { s.db->setNameByColIdx(lastIdx(s.m), "w"); if (s.m.ncol() >= 1) rename(s, lastIdx(s.m), "w"); });
  add("setNameByLocator(Z,'v')", "setNameByLocator", false, [](Step& s) { s.db->setNameByLocator(ELoc::Z, "v"); });

  // ---- roles, single column
  struct SL { int how; int who; int T; int k; bool clean; };  // how: 0 name of col idx, 1 uid, 2 col idx (-1 = last)
  for (SL a : {SL{0, 0, L_Z, 0, false}, SL{0, 1, L_Z, -1, false}, SL{0, 2, L_X, 0, true}, SL{0, 0, L_UNK, 0, false}, SL{0, 2, L_Z, -1, false},
               SL{1, 2, L_Z, 1, false}, SL{1, 0, L_SEL, 0, false}, SL{1, 1, L_X, -1, false}, SL{1, 3, L_F, 0, false},
               SL{2, 1, L_Z, 0, false}, SL{2, -1, L_X, -1, false}, SL{2, 0, L_F, -1, true}})
  {
    std::string who = a.how == 0 ? "name of col " + std::to_string(a.who) : a.how == 1 ? "uid " + std::to_string(a.who) : (a.who < 0 ? std::string("last") : std::to_string(a.who));
    std::string fn = a.how == 0 ? "setLocator" : a.how == 1 ? "setLocatorByUID" : "setLocatorByColIdx";
    add(fn + "(" + who + "," + lname(a.T) + "," + std::to_string(a.k) + (a.clean ? ",clean" : "") + ")", fn, false, [a](Step& s) {
      int uid;
      if (a.how == 0) uid = s.m.uidOfIdx(a.who);
      else if (a.how == 1) uid = a.who;
      else uid = s.m.uidOfIdx(a.who < 0 ? lastIdx(s.m) : a.who);
      bool dead = a.how == 1 && uid < s.m.nuid && s.m.idxOfUid(uid) < 0;
      if (dead) s.tag = "[deleted-uid]";
      else if (a.k < 0 && !a.clean && s.m.inRole(uid, a.T)) s.tag = "[auto-rank,column-already-in-list]";
      if (a.how == 0) s.db->setLocator(nameAt(s.m, a.who), eloc(a.T), a.k, a.clean);
      else if (a.how == 1) s.db->setLocatorByUID(uid, eloc(a.T), a.k, a.clean);
      else s.db->setLocatorByColIdx(a.who < 0 ? lastIdx(s.m) : a.who, eloc(a.T), a.k, a.clean);
      // a designation that matches no column (unknown name, index out of range, UID never given or deleted) designates
      // nothing: nothing may change (setLocator/ByColIdx/ByUID all test the designation before acting)
      if (s.m.idxOfUid(uid) >= 0) s.m.setRole(uid, a.T, a.k, a.clean);
    });
  }
  // ---- roles, vector forms
  add("setLocators({name0,name2},Z,0,clean)", "setLocators", false, [](Step& s) {
    VectorString n;
    std::vector<int> u;
    for (int i : {0, 2}) if (i < s.m.ncol()) { n.push_back(nameAt(s.m, i)); u.push_back(s.m.uidOfIdx(i)); }
    s.db->setLocators(n, ELoc::Z, 0, true);
    if (!u.empty()) s.m.setRoles(u, L_Z, 0, true);
  });
  add("setLocators({name1,name0},X,-1)", "setLocators", false, [](Step& s) {
    VectorString n;
    std::vector<int> u;
    for (int i : {1, 0}) if (i < s.m.ncol()) { n.push_back(nameAt(s.m, i)); u.push_back(s.m.uidOfIdx(i)); }
    s.db->setLocators(n, ELoc::X, -1, false);
    for (int x : u) if (s.m.inRole(x, L_X)) s.tag = "[auto-rank,column-already-in-list]";
    if (!u.empty()) s.m.setRoles(u, L_X, -1, false);
  });
  add("setLocatorsByUID({2,1},X,0)", "setLocatorsByUID", false, [](Step& s) {
    for (int u : {2, 1}) if (u < s.m.nuid && s.m.idxOfUid(u) < 0) s.tag = "[deleted-uid]";
    s.db->setLocatorsByUID(VectorInt{2, 1}, ELoc::X, 0, false);
    s.m.setRoles({2, 1}, L_X, 0, false);
  });
  add("setLocatorsByUID(n=2,uid=1,Z,0,clean)", "setLocatorsByUID", false, [](Step& s) {
    for (int u : {1, 2}) if (u < s.m.nuid && s.m.idxOfUid(u) < 0) s.tag = "[deleted-uid]";
    s.db->setLocatorsByUID(2, 1, ELoc::Z, 0, true);
    s.m.setRoles({1, 2}, L_Z, 0, true);
  });
  add("setLocatorsByColIdx({1,2},Z,0)", "setLocatorsByColIdx", false, [](Step& s) {
    s.db->setLocatorsByColIdx({1, 2}, ELoc::Z, 0, false);
    std::vector<int> u; for (int i : {1, 2}) if (i < s.m.ncol()) u.push_back(s.m.uidOfIdx(i)); else u.push_back(-7);
    s.m.setRoles(u, L_Z, 0, false);
  });
  add("setLocatorsByColIdx({2,0},F,0,clean)", "setLocatorsByColIdx", false, [](Step& s) {
    s.db->setLocatorsByColIdx({2, 0}, ELoc::F, 0, true);
    std::vector<int> u; for (int i : {2, 0}) if (i < s.m.ncol()) u.push_back(s.m.uidOfIdx(i)); else u.push_back(-7);
    s.m.setRoles(u, L_F, 0, true);
  });
  add("setLocatorsByColIdx({0,1},X,0)", "setLocatorsByColIdx", false, [](Step& s) {
    s.db->setLocatorsByColIdx({0, 1}, ELoc::X, 0, false);
    std::vector<int> u; for (int i : {0, 1}) if (i < s.m.ncol()) u.push_back(s.m.uidOfIdx(i)); else u.push_back(-7);
    s.m.setRoles(u, L_X, 0, false);
  });
  for (int T : {L_Z, L_X, L_SEL})
    add("clearLocators(" + lname(T) + ")", "clearLocators", false, [T](Step& s) { s.db->clearLocators(eloc(T)); s.m.roles[T].clear(); });
  for (auto pr : {std::pair<int, int>{L_Z, L_X}, std::pair<int, int>{L_X, L_F}})
    add("switchLocator(" + lname(pr.first) + "," + lname(pr.second) + ")", "switchLocator", false, [pr](Step& s) {
      s.db->switchLocator(eloc(pr.first), eloc(pr.second));
      auto& in = s.m.roles[pr.first]; auto& out = s.m.roles[pr.second];
      out.insert(out.end(), in.begin(), in.end());
      in.clear();
    });

  // ---- samples
  for (int w : {0, 1})
    add(w ? "addSamples(1)" : "addSamples(1,5)", "addSamples", false, [w](Step& s) {
      int r = w ? s.db->addSamples(1) : s.db->addSamples(1, 5.);
      int e = -1;
      if (!s.m.grid) { e = s.m.nech; s.m.nech++; for (auto& c : s.m.cols) { c.v.push_back(w ? TEST : 5.); c.unspec.push_back(0); } }
      if (r != e) s.bad = "returned " + std::to_string(r) + ", expected " + std::to_string(e);
    });
  auto delSample = [](RefTable& m, int e) -> bool {
    if (m.grid || e < 0 || e >= m.nech) return false;
    for (auto& c : m.cols) { c.v.erase(c.v.begin() + e); c.unspec.erase(c.unspec.begin() + e); }
    m.nech--;
    return true;
  };
  for (int w : {0, -1})
    add(w ? "deleteSample(last)" : "deleteSample(0)", "deleteSample", false, [w, delSample](Step& s) {
      int e = w ? s.m.nech - 1 : 0;
      int r = s.db->deleteSample(e);
      bool ok = delSample(s.m, e);
      if ((r == 0) != ok) s.bad = "returned " + std::to_string(r) + " but the deletion " + (ok ? "is valid" : "must be refused");
    });
  add("deleteSamples({0,1})", "deleteSamples", false, [delSample](Step& s) {
    int r = s.db->deleteSamples({0, 1});
    bool ok = delSample(s.m, 1) && delSample(s.m, 0);  // documented: furthest first, stops at the first refusal
    if ((r == 0) != ok) s.bad = "returned " + std::to_string(r) + " but the deletion " + (ok ? "is valid" : "must be refused");
  });

  // ---- values
  auto setCell = [](RefTable& m, int i, int e, double v) { if (i >= 0 && i < m.ncol() && e >= 0 && e < m.nech) { m.cols[i].v[e] = v; m.cols[i].unspec[e] = 0; } };
  add("setValue(name of col 1,0,3.5)", "setValue", false, [setCell](Step& s) { s.db->setValue(nameAt(s.m, 1), 0, 3.5); setCell(s.m, 1, 0, 3.5); });
  add("setArray(1,uid 2,4.5)", "setArray", false, [setCell](Step& s) { s.db->setArray(1, 2, 4.5); setCell(s.m, s.m.idxOfUid(2), 1, 4.5); });
  add("setValueByColIdx(0,0,2.5)", "setValueByColIdx", false, [setCell](Step& s) { s.db->setValueByColIdx(0, 0, 2.5); setCell(s.m, 0, 0, 2.5); });
  add("setValueByColIdx(last,last,TEST)", "setValueByColIdx", false, [setCell](Step& s) { s.db->setValueByColIdx(s.m.nech - 1, lastIdx(s.m), TEST); setCell(s.m, lastIdx(s.m), s.m.nech - 1, TEST); });
  add("setLocVariable(Z,0,0,9.5)", "setLocVariable", false, [setCell](Step& s) {
    s.db->setLocVariable(ELoc::Z, 0, 0, 9.5);
    auto& L = s.m.roles[L_Z];
    if (!L.empty()) setCell(s.m, s.m.idxOfUid(L[0]), 0, 9.5);
  });
  add("setFromLocator(X,1,1,6.5)", "setFromLocator", false, [setCell](Step& s) {
    s.db->setFromLocator(ELoc::X, 1, 1, 6.5);
    auto& L = s.m.roles[L_X];
    if (L.size() > 1) setCell(s.m, s.m.idxOfUid(L[1]), 1, 6.5);
  });
  add("setColumnByColIdx(tab,1)", "setColumnByColIdx", false, [setCell](Step& s) {
    VectorDouble t = seqTab(std::max(s.m.nech, 1), 60.);
    s.db->setColumnByColIdx(t, 1);
    for (int e = 0; e < s.m.nech; e++) setCell(s.m, 1, e, t[e]);
  });
  add("setColumn(tab,name of col 0)", "setColumn", false, [setCell](Step& s) {
    if (s.m.ncol() < 1) return;
    VectorDouble t = seqTab(std::max(s.m.nech, 1), 80.);
    s.db->setColumn(t, nameAt(s.m, 0));
    for (int e = 0; e < s.m.nech; e++) setCell(s.m, 0, e, t[e]);
  });
  add("duplicateColumnByUID(0,2)", "duplicateColumnByUID", false, [setCell](Step& s) {
    s.db->duplicateColumnByUID(0, 2);
    int i = s.m.idxOfUid(0), o = s.m.idxOfUid(2);
    if (i >= 0 && o >= 0) for (int e = 0; e < s.m.nech; e++) { s.m.cols[o].v[e] = s.m.cols[i].v[e]; s.m.cols[o].unspec[e] = s.m.cols[i].unspec[e]; }
    // source UID deleted: the content of a deleted column is not defined by the property -> target cells adopted, counted
    if (i < 0 && o >= 0) { s.tag = "[deleted-source-uid:excluded]"; for (int e = 0; e < s.m.nech; e++) s.m.cols[o].unspec[e] = 1; }
  });
  // ---- copy
  add("clone", "clone", false, [](Step& s) { Db* c = s.db->clone(); delete s.db; s.db = c; });
  add("copy-assign", "assign", false, [](Step& s) {
    if (s.m.grid) { DbGrid* c = new DbGrid(); *c = *dynamic_cast<DbGrid*>(s.db); delete s.db; s.db = c; }
    else { Db* c = new Db(); *c = *s.db; delete s.db; s.db = c; }
  });
}

// ------------------------------------------------------------------------------------------------------------
// start states
static Db* make_start(int which, RefTable& m)
{
  Db* db = nullptr;
  std::vector<std::string> names, locs;
  std::vector<std::vector<double>> cols;
  if (which == 0) db = Db::create();
  else if (which == 1 || which == 2)
  {
    cols = {{0.5, 1.5}, {2.5, 3.5}, {10.25, 11.25}};
    names = {"x1", "x2", "z1"};
    locs = {"x1", "x2", "z1"};
    db = make_db(cols, names, locs, which == 2);
    if (which == 2) { cols.insert(cols.begin(), {1., 2.}); names.insert(names.begin(), "rank"); locs.insert(locs.begin(), ""); }
  }
  else
  {
    db = DbGrid::create({2, 2}, {1., 1.}, {0., 0.}, VectorDouble(), ELoadBy::COLUMN, {10.25, 11.25, 12.25, 13.25}, {"z1"}, {"z1"}, true, true);
    cols = {{1., 2., 3., 4.}, {0., 1., 0., 1.}, {0., 0., 1., 1.}, {10.25, 11.25, 12.25, 13.25}};
    names = {"rank", "x1", "x2", "z1"};
    locs = {"", "x1", "x2", "z1"};
    m.grid = true;
  }
  m.nech = cols.empty() ? 0 : (int)cols[0].size();
  for (size_t i = 0; i < cols.size(); i++)
  {
    MCol c; c.uid = m.nuid++; c.name = names[i]; c.v = cols[i]; c.unspec.assign(c.v.size(), 0);
    m.cols.push_back(c);
    if (locs[i].empty()) continue;
    m.roles[locs[i][0] == 'x' ? L_X : L_Z].push_back(c.uid);
  }
  return db;
}

static uint64_t state_key(const Db* db)
{
  Hash h;
  h.i(db->_ncol).i(db->_nech).vd(db->_array).vi(db->_uidcol).u(db->_colNames.size());
  for (auto& n : db->_colNames) h.s(n);
  for (auto& p : db->_p) h.vi(p._r);
  return h.h;
}

// ------------------------------------------------------------------------------------------------------------
// invariants; returns the class of the first failure ("" = all hold) and a text
// The clauses comparing the implementation with the model are evaluated for every history. The clauses that only
// cross-check the public designation API of the implementation against itself (name / UID / locator look-ups) are a
// function of the hidden state alone: they are evaluated once per distinct canonical state key (deep == true).
static std::string judge(const Db* db, RefTable& m, std::string& why, bool deep)
{
  std::ostringstream o;
  int ncol = db->getColumnNumber();
  // counts
  if (ncol != m.ncol()) { o << "getColumnNumber()=" << ncol << " model=" << m.ncol(); why = o.str(); return "count"; }
  if (db->getSampleNumber(false) != m.nech) { o << "getSampleNumber()=" << db->getSampleNumber(false) << " model=" << m.nech; why = o.str(); return "count"; }
  if ((int)db->getAllNames().size() != ncol) { o << "getAllNames().size()=" << db->getAllNames().size() << " ncol=" << ncol; why = o.str(); return "count"; }
  if ((long)db->_array.size() < (long)ncol * m.nech) { o << "_array.size()=" << db->_array.size() << " < ncol*nech=" << ncol * m.nech; why = o.str(); return "count"; }
  // names: adopt, then unique
  for (int i = 0; i < ncol; i++) m.cols[i].name = db->getNameByColIdx(i);
  for (int i = 0; i < ncol; i++)
    for (int j = 0; j < i; j++)
      if (m.cols[i].name == m.cols[j].name) { o << "columns " << j << " and " << i << " are both named '" << m.cols[i].name << "'"; why = o.str(); return "names-unique"; }
  if (m.requestedUid >= 0)
  {
    int i = m.idxOfUid(m.requestedUid);
    bool taken = false;
    for (int j = 0; j < ncol; j++) if (j != i && m.cols[j].name == m.requestedName) taken = true;
    if (i >= 0 && !taken && m.cols[i].name != m.requestedName) { o << "column " << i << " was renamed to the free name '" << m.requestedName << "' but is called '" << m.cols[i].name << "'"; why = o.str(); return "names-rename"; }
  }
  // uid table
  if (db->getUIDMaxNumber() != m.nuid) { o << "getUIDMaxNumber()=" << db->getUIDMaxNumber() << " model (UIDs never reused)=" << m.nuid; why = o.str(); return "uid-table"; }
  {
    std::vector<int> hit(ncol, 0);
    for (int u = 0; u < m.nuid; u++)
    {
      int c = db->getColIdxByUID(u), e = m.idxOfUid(u);
      if (c != e) { o << "getColIdxByUID(" << u << ")=" << c << " model=" << e; why = o.str(); return "uid-table"; }
      if (c >= 0) hit[c]++;
    }
    for (int i = 0; i < ncol; i++) if (hit[i] != 1) { o << "column " << i << " is the image of " << hit[i] << " UIDs"; why = o.str(); return "uid-table"; }
  }
  // designations
  for (int i = 0; deep && i < ncol; i++)
  {
    const std::string& n = m.cols[i].name;
    int u = m.cols[i].uid;
    if (db->getColIdx(n) != i || db->getUID(n) != u)
    {
      // is the failure explained by the name being interpreted as a regular expression that also matches another name?
      for (int j = 0; j < ncol; j++)
        if (j != i && std::regex_match(m.cols[j].name, std::regex(n)))
        {
          o << "the unique name '" << n << "' of column " << i << " does not designate it: getColIdx=" << db->getColIdx(n) << " getUID=" << db->getUID(n) << " (expected " << i << " / " << u
            << ") because the name, read as a regular expression, also matches column " << j << " '" << m.cols[j].name << "'";
          why = o.str();
          return "!names:regex-ambiguity";
        }
    }
    if (db->getColIdx(n) != i) { o << "getColIdx('" << n << "')=" << db->getColIdx(n) << " for column " << i; why = o.str(); return "designation"; }
    if (db->getUIDByColIdx(i) != u) { o << "getUIDByColIdx(" << i << ")=" << db->getUIDByColIdx(i) << " model=" << u; why = o.str(); return "designation"; }
    if (db->getUID(n) != u) { o << "getUID('" << n << "')=" << db->getUID(n) << " model=" << u; why = o.str(); return "designation"; }
    if (db->getNameByUID(u) != n) { o << "getNameByUID(" << u << ")='" << db->getNameByUID(u) << "' but column " << i << " is '" << n << "'"; why = o.str(); return "designation"; }
  }
  // values through every designation
  for (int i = 0; i < ncol; i++)
  {
    VectorDouble byname, byuid;
    if (deep) { byname = db->getColumn(m.cols[i].name, false, false); byuid = db->getColumnByUID(m.cols[i].uid, false, false); }
    if (deep && ((int)byname.size() != m.nech || (int)byuid.size() != m.nech)) { o << "getColumn/getColumnByUID of column " << i << " have sizes " << byname.size() << "/" << byuid.size() << " nech=" << m.nech; why = o.str(); return "values"; }
    for (int e = 0; e < m.nech; e++)
    {
      double v = db->getValueByColIdx(e, i);
      if (m.cols[i].unspec[e]) { m.cols[i].v[e] = v; m.cols[i].unspec[e] = 0; }
      double r = m.cols[i].v[e];
      if (!same(v, r)) { o << "cell (sample " << e << ", column " << i << " '" << m.cols[i].name << "') = " << fmt(v) << " model=" << fmt(r); why = o.str(); return "values"; }
      if (!deep) continue;
      double a = db->getArray(e, m.cols[i].uid), b = db->getValue(m.cols[i].name, e);
      if (!same(a, r) || !same(b, r) || !same(byname[e], r) || !same(byuid[e], r))
      { o << "cell (sample " << e << ", column " << i << ") read by index=" << fmt(v) << " by UID=" << fmt(a) << " by name=" << fmt(b) << " getColumn=" << fmt(byname[e]) << " getColumnByUID=" << fmt(byuid[e]); why = o.str(); return "designation"; }
    }
  }
  if (m.gap) return "";
  // roles
  std::map<int, int> roleOf;  // uid -> type
  for (int T = 0; T < Db::getNEloc(); T++)
  {
    const VectorInt& L = db->_p[T]._r;
    const std::vector<int>& M = m.roles[T];
    for (size_t k = 0; k < L.size(); k++)
    {
      if (m.idxOfUid(L[k]) < 0) { o << "role list " << lname(T) << " = " << vstr(L) << " holds UID " << L[k] << " which is not a column"; why = o.str(); return "roles-stale-uid"; }
      if (roleOf.count(L[k])) { o << "UID " << L[k] << " (column " << m.idxOfUid(L[k]) << ") has two roles: " << lname(roleOf[L[k]]) << " and " << lname(T) << (k + 1) << " ; list " << lname(T) << "=" << vstr(L); why = o.str(); return "roles-two-roles"; }
      roleOf[L[k]] = T;
    }
    if (db->getLocatorNumber(eloc(T)) != (int)L.size()) { o << "getLocatorNumber(" << lname(T) << ")=" << db->getLocatorNumber(eloc(T)) << " list size " << L.size(); why = o.str(); return "roles-designation"; }
    bool eq = L.size() == M.size();
    for (size_t k = 0; eq && k < L.size(); k++) if (L[k] != M[k]) eq = false;
    if (!eq)
    {
      o << "columns holding role " << lname(T) << " (by rank, as column indices): implementation [";
      for (int u : L) o << m.idxOfUid(u) << " ";
      o << "] reference model [";
      for (int u : M) o << m.idxOfUid(u) << " ";
      o << "]";
      why = o.str();
      return "roles-model";
    }
    for (size_t k = 0; deep && k < L.size(); k++)
    {
      int i = m.idxOfUid(L[k]);
      ELoc lt; int li;
      bool ok = db->getColIdxByLocator(eloc(T), (int)k) == i && db->getUIDByLocator(eloc(T), (int)k) == L[k] && db->getNameByLocator(eloc(T), (int)k) == m.cols[i].name;
      ok = ok && db->getLocatorByColIdx(i, &lt, &li) && lt == eloc(T) && li == (int)k;
      ok = ok && db->getLocatorByUID(L[k], &lt, &li) && lt == eloc(T) && li == (int)k;
      ok = ok && db->getLocator(m.cols[i].name, &lt, &li) && lt == eloc(T) && li == (int)k;
      if (!ok) { o << "role " << lname(T) << (k + 1) << " held by column " << i << ": getColIdxByLocator/getUIDByLocator/getNameByLocator/getLocatorBy* disagree"; why = o.str(); return "roles-designation"; }
      for (int e = 0; e < m.nech; e++)
        if (!same(db->getFromLocator(eloc(T), e, (int)k), m.cols[i].v[e])) { o << "getFromLocator(" << lname(T) << "," << e << "," << k << ") differs from the cell of column " << i; why = o.str(); return "roles-designation"; }
    }
  }
  for (int i = 0; deep && i < ncol; i++)
    if (!roleOf.count(m.cols[i].uid))
    {
      ELoc lt; int li;
      if (db->getLocatorByColIdx(i, &lt, &li)) { o << "column " << i << " has no role but getLocatorByColIdx reports " << lt.getKey() << (li + 1); why = o.str(); return "roles-designation"; }
    }
  // active samples
  {
    int ref = m.nactive(), got = db->getSampleNumber(true), cnt = 0;
    for (int e = 0; e < m.nech; e++) if (db->isActive(e)) cnt++;
    if (cnt != ref) { o << "number of samples with isActive()=" << cnt << " model=" << ref; why = o.str(); return "active-isActive"; }
    if (got != ref)
    {
      bool undef = false;
      int is = m.idxOfUid(m.roles[L_SEL][0]);
      for (int e = 0; e < m.nech; e++) if (FFFF(m.cols[is].v[e])) undef = true;
      o << "getSampleNumber(useSel=true)=" << got << " but " << ref << " samples are active (isActive() is true for " << cnt << " samples; selection column = " << vstr(m.cols[is].v) << ")";
      why = o.str();
      return undef ? "!active-count:undefined-selection-value" : "active-count";
    }
  }
  return "";
}

static std::string describe(const History& h)
{
  std::string s;
  for (size_t i = 0; i < h.size(); i++) s += (i ? " ; " : "") + OPS[h[i]].name;
  return s;
}

static void explore(Ctx& C, int start, int depth)
{
  const char* startName[] = {"empty Db", "Db 2 samples x (x1,x2,z1)", "Db 2 samples x (rank,x1,x2,z1)", "DbGrid 2x2 (rank,x1,x2,z1)"};
  bfs(C, (int)OPS.size(), depth, [&](const History& h) -> StepResult {
    RefTable m;
    Db* db = make_start(start, m);
    bool structural = false;
    std::string bad, tag;
    for (size_t i = 0; i < h.size(); i++)
    {
      m.requestedUid = -1;
      Step s{db, m, "", ""};
      OPS[h[i]].run(s);
      if (OPS[h[i]].structural) structural = true;
      if (i + 1 == h.size()) { bad = s.bad; tag = s.tag; }
      // adopt names after every step
      if (db->getColumnNumber() == m.ncol()) for (int c = 0; c < m.ncol(); c++) m.cols[c].name = db->_colNames[c];
    }
    StepResult r;
    r.key = state_key(db);
    static std::unordered_set<uint64_t> apiJudged;
    uint64_t jk = Hash().s(C.cur_part).u(r.key).u(m.gap).h;
    bool deep = !apiJudged.count(jk);
    std::string why;
    std::string cls = judge(db, m, why, deep);
    if (cls.empty() && deep) apiJudged.insert(jk);
    C.outcome(deep ? "api-cross-checks-evaluated" : "api-cross-checks-memoized(same hidden state)");
    if (cls.empty() && !bad.empty()) { cls = "return-value"; why = bad; }
    std::string kind = h.empty() ? "start" : OPS[h.back()].kind + tag;
    if (!cls.empty())
    {
      std::string key = kind + ":" + cls;
      if (cls[0] == '!') key = cls.substr(1);                                   // mechanism identified independently of the op
      else if (!tag.empty() && cls.rfind("roles-", 0) == 0) key = kind + ":roles";  // one key per (op, circumstance)
      C.violation(key, "start=" + std::string(startName[start]) + " history=[" + describe(h) + "] : " + why, hist_str(h));
      C.outcome("violating-state-not-extended");
      r.expand = false;
    }
    else if (m.gap) { C.outcome("gap-state-not-extended(explicit out-of-order rank)"); r.expand = false; }
    else C.outcome("consistent");
    if (!h.empty())
    {
      C.outcome("lastop=" + kind);
      bool shifted = false;
      for (int c = 0; c < m.ncol() && c < db->getColumnNumber(); c++) if (m.cols[c].uid != c) shifted = true;
      if (structural && shifted) C.nontrivial(r.key);
      if (C.ps().traces % 20011 == 7) C.sample("{\"start\":" + jstr(startName[start]) + ",\"history\":" + jstr(describe(h)) + ",\"verdict\":" + jstr(cls.empty() ? "consistent" : cls) + "}");
    }
    delete db;
    return r;
  });
}

VF_PART(db_plain) { explore(C, 1, C.thorough() ? 4 : 3); }
VF_PART(db_rank) { explore(C, 2, C.thorough() ? 3 : 2); }
VF_PART(db_empty) { explore(C, 0, C.thorough() ? 4 : 3); }
VF_PART(grid) { explore(C, 3, C.thorough() ? 3 : 2); }

int main(int argc, char** argv)
{
  return run_main(argc, argv, [](Ctx&) { silence(); build_ops(); }, [](Ctx& C) { write_states(C); });
}
