// C07 — a Db stays a consistent table under any sequence of edits.
// Engine E2 (bfs.hpp): breadth-first search over histories of real public Db calls.  Every history is replayed on
// a fresh Db AND on an independent reference model (struct RefTable: ordered columns {uid, name, values}, one ordered
// uid list per role type).  After the last step of every history the invariants of the property are judged on the
// real object through its public designation API (name / column index / UID / locator) and against the model.
//
// Latitude left by the property and how it is respected:
//  * names after de-duplication are an implementation choice: the model ADOPTS the names of the implementation after
//    every step; only uniqueness and "a free requested name is granted" are judged;
//  * setLocatorByUID documents that ranks may be given "in any order", leaving a transient gap: a step that gives an
//    EXPLICIT rank beyond the end of the role list puts the model in "gap" state; such states are judged on the
//    role-independent invariants only and are not extended (counted as gap-state-not-extended);
//  * cells whose content no documented rule defines (old columns of a Db whose sample count is fixed later by
//    addColumns) are adopted from the implementation.
// A violating state is not extended, hence the last op of a violating history is the culprit and the finding key is
//  <op kind>:<invariant class>.
#include "vf/gst.hpp"
#include "vf/bfs.hpp"
#include "vf/fork.hpp"
#include <regex>
#include <algorithm>
#include "Enum/EOperator.hpp"
#include "Matrix/MatrixRectangular.hpp"

using namespace vf;

static const int L_X = 0, L_Z = 1, L_F = 3, L_SEL = 10, L_UNK = -1;
static ELoc eloc(int t) { return t < 0 ? ELoc::UNKNOWN : ELoc::fromValue(t); }
static std::string lname(int t) { return t < 0 ? "UNKNOWN" : std::string(ELoc::fromValue(t).getKey()); }
static bool same(double a, double b) { return memcmp(&a, &b, 8) == 0; }

// ------------------------------------------------------------------------------------------------------------
// reference model
struct MCol
{
  int uid;
  std::string name;
  std::vector<double> v;
  std::vector<char> unspec;  // cell content not defined by any documented rule: adopted from the implementation
};
struct RefTable
{
  std::vector<MCol> cols;
  int nech = 0;
  int nuid = 0;  // UIDs are never reused
  std::map<int, std::vector<int>> roles;  // role type -> ordered uids (rank = position + 1)
  bool gap = false;
  bool grid = false;
  std::string requestedName;  // set by rename ops: name requested for column requestedUid
  int requestedUid = -1;

  int ncol() const { return (int)cols.size(); }
  int idxOfUid(int uid) const { for (int i = 0; i < ncol(); i++) if (cols[i].uid == uid) return i; return -1; }
  int idxOfName(const std::string& n) const { for (int i = 0; i < ncol(); i++) if (cols[i].name == n) return i; return -1; }
  int uidOfIdx(int i) const { return (i >= 0 && i < ncol()) ? cols[i].uid : -1; }
  void unrole(int uid)
  {
    for (auto& kv : roles) { auto& L = kv.second; for (size_t k = 0; k < L.size(); k++) if (L[k] == uid) { L.erase(L.begin() + k); break; } }
  }
  // documented semantics of one role assignment: the column gets role (T, k); it loses any former role (ranks of
  // that type close up); the former holder of (T,k) loses its role; k<0 = next free rank; k beyond the end = gap.
  void setRole(int uid, int T, int k, bool clean = false)
  {
    if (idxOfUid(uid) < 0) return;  // not a column: nothing may change
    if (clean && T >= 0) roles[T].clear();
    unrole(uid);
    if (T < 0) return;
    auto& L = roles[T];
    if (k < 0) k = (int)L.size();
    if (k > (int)L.size()) { gap = true; return; }
    if (k == (int)L.size()) L.push_back(uid); else L[k] = uid;
  }
  // vector form: explicit start rank k -> ranks k, k+1, ... ; automatic rank -> each column takes the next free rank
  void setRoles(const std::vector<int>& uids, int T, int k, bool clean)
  {
    if (clean && T >= 0) roles[T].clear();
    for (size_t i = 0; i < uids.size() && !gap; i++)
    {
      if (idxOfUid(uids[i]) < 0) continue;
      setRole(uids[i], T, k < 0 ? -1 : k + (int)i);
    }
  }
  bool inRole(int uid, int T) const
  {
    auto it = roles.find(T);
    if (it == roles.end()) return false;
    for (int u : it->second) if (u == uid) return true;
    return false;
  }
  int addCols(int n, double v, int T, int k)
  {
    int first = nuid;
    std::vector<int> uids;
    for (int i = 0; i < n; i++)
    {
      MCol c; c.uid = nuid++; c.name = "?"; c.v.assign(nech, v); c.unspec.assign(nech, 0);
      cols.push_back(c); uids.push_back(c.uid);
    }
    if (T >= 0) setRoles(uids, T, k, false);
    return first;
  }
  void delUid(int uid)
  {
    int i = idxOfUid(uid);
    if (i < 0) return;
    unrole(uid);
    cols.erase(cols.begin() + i);
  }
  std::vector<int> liveUids() const { std::vector<int> v; for (auto& c : cols) v.push_back(c.uid); std::sort(v.begin(), v.end()); return v; }
  int selIdx() const { auto it = roles.find(L_SEL); if (it == roles.end() || it->second.empty()) return -1; return idxOfUid(it->second[0]); }
  // selection whose cells are all 0, 1 or undefined: every definition of "active" used by the library coincides
  bool boolSel() const { int i = selIdx(); if (i < 0) return true; for (double s : cols[i].v) if (s != 0. && s != 1. && !FFFF(s)) return false; return true; }
  bool active(int e) const { int i = selIdx(); if (i < 0) return true; double s = cols[i].v[e]; return s != 0. && !FFFF(s); }
  int roleCol(int T, int k) const { auto it = roles.find(T); if (it == roles.end() || k < 0 || k >= (int)it->second.size()) return -1; return idxOfUid(it->second[k]); }
  int nrole(int T) const { auto it = roles.find(T); return it == roles.end() ? 0 : (int)it->second.size(); }
  void setc(int i, int e, double v) { if (i >= 0 && i < ncol() && e >= 0 && e < nech) { cols[i].v[e] = v; cols[i].unspec[e] = 0; } }
  void adopt(int i, int e) { if (i >= 0 && i < ncol() && e >= 0 && e < nech) cols[i].unspec[e] = 1; }
  std::vector<int> expand(const std::vector<std::string>& pats) const
  {
    std::vector<int> out;
    auto push = [&](int i) { for (int o : out) if (o == i) return; out.push_back(i); };
    for (auto& p : pats)
    {
      int lit = idxOfName(p);
      if (lit >= 0) { push(lit); continue; }
      std::string r = p;
      size_t f = r.find('*');
      if (f != std::string::npos && (f == 0 || r[f - 1] != '.')) r.insert(f, ".");
      static std::map<std::string, std::regex> compiled;   // compiling a std::regex is the expensive part
      auto it = compiled.find(r);
      if (it == compiled.end()) it = compiled.emplace(r, std::regex(r)).first;
      for (int i = 0; i < ncol(); i++) if (std::regex_match(cols[i].name, it->second)) push(i);
    }
    return out;
  }
  int nactive() const
  {
    auto it = roles.find(L_SEL);
    if (it == roles.end() || it->second.empty()) return nech;
    int i = idxOfUid(it->second[0]);
    if (i < 0) return nech;
    int n = 0;
    for (int e = 0; e < nech; e++) { double s = cols[i].v[e]; if (s != 0. && !FFFF(s)) n++; }  // TEST = masked (doc of getSelection)
    return n;
  }
};

// ------------------------------------------------------------------------------------------------------------
struct Step
{
  Db*& db;
  RefTable& m;
  std::string bad;  // return-value mismatch detected inside the op ("" = fine)
  bool disabled = false;  // op not applicable in this state (not counted as a transition)
  std::string tag;  // circumstance qualifying the finding key (deleted UID designated, automatic rank for a column already in the list)
};
struct Op
{
  std::string name;  // printable, with arguments
  std::string kind;  // finding-key component
  bool structural;   // adds / deletes columns
  std::function<void(Step&)> run;
};
static std::vector<Op> OPS;

static std::string nameAt(const RefTable& m, int i) { return (i >= 0 && i < m.ncol()) ? m.cols[i].name : std::string("nosuchcolumn"); }
static int lastIdx(const RefTable& m) { return m.ncol() - 1; }
static VectorDouble seqTab(int n, double base) { VectorDouble t(n); for (int i = 0; i < n; i++) t[i] = base + i; return t; }

static int OBS = -1;  // index of the observe step
static void observe_all(const Db* db, const RefTable& m0);
static void build_ops()
{
  auto add = [](const std::string& n, const std::string& k, bool s, std::function<void(Step&)> f) { OPS.push_back({n, k, s, f}); };

  // ---- adding columns
  struct AC { int n; double v; const char* radix; int T; int k; };
  for (AC a : {AC{1, 7., "a", L_UNK, 0}, AC{1, 7., "a", L_Z, -1}, AC{1, 7., "a", L_Z, 0}, AC{2, 8., "a", L_Z, 0}, AC{2, 8., "New", L_X, -1},
               AC{1, 1., "x1", L_SEL, 0}, AC{1, 3., "a", L_Z, 1}})
    add("addColumnsByConstant(" + std::to_string(a.n) + "," + fmt(a.v) + "," + a.radix + "," + lname(a.T) + "," + std::to_string(a.k) + ")", "addColumnsByConstant", true,
        [a](Step& s) {
          int r = s.db->addColumnsByConstant(a.n, a.v, a.radix, eloc(a.T), a.k);
          int e = s.m.addCols(a.n, a.v, a.T, a.k);
          if (r != e) s.bad = "returned first UID " + std::to_string(r) + ", expected " + std::to_string(e);
        });
  add("addColumns(tab,'a',Z,-1)", "addColumns", true, [](Step& s) {
    int n = s.m.nech > 0 ? s.m.nech : 2;
    VectorDouble t = seqTab(n, 20.);
    bool fixes = s.m.nech <= 0;
    int r = s.db->addColumns(t, "a", ELoc::Z, -1);
    if (fixes) { s.m.nech = n; for (auto& c : s.m.cols) { c.v.assign(n, 0.); c.unspec.assign(n, 1); } }
    int e = s.m.addCols(1, 0., L_Z, -1);
    for (int i = 0; i < n; i++) s.m.cols.back().v[i] = t[i];
    if (r != e) s.bad = "returned UID " + std::to_string(r) + ", expected " + std::to_string(e);
  });
  add("addSelection({1,0,1,..},'sel')", "addSelection", true, [](Step& s) {
    int n = s.m.nech;
    VectorDouble t(n);
    for (int i = 0; i < n; i++) t[i] = (i % 2 == 0) ? 1. : 0.;
    int r = s.db->addSelection(t, "sel");
    if (n <= 0) return;  // nothing to load: documented no-op
    int e = s.m.addCols(1, 0., L_SEL, 0);
    for (int i = 0; i < n; i++) s.m.cols.back().v[i] = t[i];
    if (r != e) s.bad = "returned UID " + std::to_string(r) + ", expected " + std::to_string(e);
  });
  add("setColumn(tab,'fresh',Z,-1)", "setColumn", true, [](Step& s) {
    int n = s.m.nech > 0 ? s.m.nech : 2;
    VectorDouble t = seqTab(n, 40.);
    int i = s.m.idxOfName("fresh");
    s.db->setColumn(t, "fresh", ELoc::Z, -1);
    if (i >= 0) { for (int e = 0; e < s.m.nech; e++) { s.m.cols[i].v[e] = t[e]; s.m.cols[i].unspec[e] = 0; } return; }
    if (s.m.nech <= 0) { s.m.nech = n; for (auto& c : s.m.cols) { c.v.assign(n, 0.); c.unspec.assign(n, 1); } }
    s.m.addCols(1, 0., L_Z, -1);
    for (int e = 0; e < n; e++) s.m.cols.back().v[e] = t[e];
  });

  // ---- deleting columns
  for (int w : {0, 1, -1})
    add("deleteColumnByColIdx(" + std::string(w < 0 ? "last" : std::to_string(w)) + ")", "deleteColumnByColIdx", true, [w](Step& s) {
      int i = w < 0 ? lastIdx(s.m) : w;
      s.db->deleteColumnByColIdx(i);
      s.m.delUid(s.m.uidOfIdx(i));
    });
  for (int u : {1, 2})
    add("deleteColumnByUID(" + std::to_string(u) + ")", "deleteColumnByUID", true, [u](Step& s) { s.db->deleteColumnByUID(u); s.m.delUid(u); });
  add("deleteColumn(name of col 1)", "deleteColumn", true, [](Step& s) {
    std::string n = nameAt(s.m, 1);
    s.db->deleteColumn(n);
    s.m.delUid(s.m.uidOfIdx(1));
  });
  for (int T : {L_Z, L_X})
    add("deleteColumnsByLocator(" + lname(T) + ")", "deleteColumnsByLocator", true, [T](Step& s) {
      s.db->deleteColumnsByLocator(eloc(T));
      std::vector<int> L = s.m.roles[T];
      for (int u : L) s.m.delUid(u);
    });
  add("deleteColumnsByColIdx({0,2})", "deleteColumnsByColIdx", true, [](Step& s) {
    s.db->deleteColumnsByColIdx({0, 2});
    int u0 = s.m.uidOfIdx(0), u2 = s.m.uidOfIdx(2);
    s.m.delUid(u2); s.m.delUid(u0);
  });

  // ---- renaming
  auto rename = [](Step& s, int idx, const std::string& nn) { s.m.requestedUid = s.m.uidOfIdx(idx); s.m.requestedName = nn; };
  add("setName(name of col 1 -> name of col 0)", "setName", false, [rename](Step& s) {
    std::string o = nameAt(s.m, 1), n = nameAt(s.m, 0);
    if (s.m.ncol() < 2) n = "q";
    s.db->setName(o, n);
    if (s.m.ncol() >= 2) rename(s, 1, n);
  });
  add("setName(name of col 0 -> 'q')", "setName", false, [rename](Step& s) { s.db->setName(nameAt(s.m, 0), "q"); if (s.m.ncol() >= 1) rename(s, 0, "q"); });
  add("setNameByUID(1,'x1')", "setNameByUID", false, [rename](Step& s) { s.db->setNameByUID(1, "x1"); int i = s.m.idxOfUid(1); if (i >= 0) rename(s, i, "x1"); });
  add("setNameByColIdx(1, name of col 0)", "setNameByColIdx", false, [rename](Step& s) {
    std::string n = nameAt(s.m, 0);
    s.db->setNameByColIdx(1, n);
    if (s.m.ncol() >= 2) rename(s, 1, n);
  });
  add("setNameByColIdx(last,'w')", "setNameByColIdx", false, [rename](Step& s) { s.db->setNameByColIdx(lastIdx(s.m), "w"); if (s.m.ncol() >= 1) rename(s, lastIdx(s.m), "w"); });
  add("setNameByLocator(Z,'v')", "setNameByLocator", false, [](Step& s) { s.db->setNameByLocator(ELoc::Z, "v"); });

  // ---- roles, single column
  struct SL { int how; int who; int T; int k; bool clean; };  // how: 0 name of col idx, 1 uid, 2 col idx (-1 = last)
  for (SL a : {SL{0, 0, L_Z, 0, false}, SL{0, 1, L_Z, -1, false}, SL{0, 2, L_X, 0, true}, SL{0, 0, L_UNK, 0, false}, SL{0, 2, L_Z, -1, false},
               SL{1, 2, L_Z, 1, false}, SL{1, 0, L_SEL, 0, false}, SL{1, 1, L_X, -1, false}, SL{1, 3, L_F, 0, false},
               SL{2, 1, L_Z, 0, false}, SL{2, -1, L_X, -1, false}, SL{2, 0, L_F, -1, true}})
  {
    std::string who = a.how == 0 ? "name of col " + std::to_string(a.who) : a.how == 1 ? "uid " + std::to_string(a.who) : (a.who < 0 ? std::string("last") : std::to_string(a.who));
    std::string fn = a.how == 0 ? "setLocator" : a.how == 1 ? "setLocatorByUID" : "setLocatorByColIdx";
    add(fn + "(" + who + "," + lname(a.T) + "," + std::to_string(a.k) + (a.clean ? ",clean" : "") + ")", fn, false, [a](Step& s) {
      int uid;
      if (a.how == 0) uid = s.m.uidOfIdx(a.who);
      else if (a.how == 1) uid = a.who;
      else uid = s.m.uidOfIdx(a.who < 0 ? lastIdx(s.m) : a.who);
      bool dead = a.how == 1 && uid < s.m.nuid && s.m.idxOfUid(uid) < 0;
      if (dead) s.tag = "[deleted-uid]";
      else if (a.k < 0 && !a.clean && s.m.inRole(uid, a.T)) s.tag = "[auto-rank,column-already-in-list]";
      if (a.how == 0) s.db->setLocator(nameAt(s.m, a.who), eloc(a.T), a.k, a.clean);
      else if (a.how == 1) s.db->setLocatorByUID(uid, eloc(a.T), a.k, a.clean);
      else s.db->setLocatorByColIdx(a.who < 0 ? lastIdx(s.m) : a.who, eloc(a.T), a.k, a.clean);
      // a designation that matches no column (unknown name, index out of range, UID never given or deleted) designates
      // nothing: nothing may change (setLocator/ByColIdx/ByUID all test the designation before acting)
      if (s.m.idxOfUid(uid) >= 0) s.m.setRole(uid, a.T, a.k, a.clean);
    });
  }
  // ---- roles, vector forms
  add("setLocators({name0,name2},Z,0,clean)", "setLocators", false, [](Step& s) {
    VectorString n;
    std::vector<int> u;
    for (int i : {0, 2}) if (i < s.m.ncol()) { n.push_back(nameAt(s.m, i)); u.push_back(s.m.uidOfIdx(i)); }
    s.db->setLocators(n, ELoc::Z, 0, true);
    if (!u.empty()) s.m.setRoles(u, L_Z, 0, true);
  });
  add("setLocators({name1,name0},X,-1)", "setLocators", false, [](Step& s) {
    VectorString n;
    std::vector<int> u;
    for (int i : {1, 0}) if (i < s.m.ncol()) { n.push_back(nameAt(s.m, i)); u.push_back(s.m.uidOfIdx(i)); }
    s.db->setLocators(n, ELoc::X, -1, false);
    for (int x : u) if (s.m.inRole(x, L_X)) s.tag = "[auto-rank,column-already-in-list]";
    if (!u.empty()) s.m.setRoles(u, L_X, -1, false);
  });
  add("setLocatorsByUID({2,1},X,0)", "setLocatorsByUID", false, [](Step& s) {
    for (int u : {2, 1}) if (u < s.m.nuid && s.m.idxOfUid(u) < 0) s.tag = "[deleted-uid]";
    s.db->setLocatorsByUID(VectorInt{2, 1}, ELoc::X, 0, false);
    s.m.setRoles({2, 1}, L_X, 0, false);
  });
  add("setLocatorsByUID(n=2,uid=1,Z,0,clean)", "setLocatorsByUID", false, [](Step& s) {
    for (int u : {1, 2}) if (u < s.m.nuid && s.m.idxOfUid(u) < 0) s.tag = "[deleted-uid]";
    s.db->setLocatorsByUID(2, 1, ELoc::Z, 0, true);
    s.m.setRoles({1, 2}, L_Z, 0, true);
  });
  add("setLocatorsByColIdx({1,2},Z,0)", "setLocatorsByColIdx", false, [](Step& s) {
    s.db->setLocatorsByColIdx({1, 2}, ELoc::Z, 0, false);
    std::vector<int> u; for (int i : {1, 2}) if (i < s.m.ncol()) u.push_back(s.m.uidOfIdx(i)); else u.push_back(-7);
    s.m.setRoles(u, L_Z, 0, false);
  });
  add("setLocatorsByColIdx({2,0},F,0,clean)", "setLocatorsByColIdx", false, [](Step& s) {
    s.db->setLocatorsByColIdx({2, 0}, ELoc::F, 0, true);
    std::vector<int> u; for (int i : {2, 0}) if (i < s.m.ncol()) u.push_back(s.m.uidOfIdx(i)); else u.push_back(-7);
    s.m.setRoles(u, L_F, 0, true);
  });
  add("setLocatorsByColIdx({0,1},X,0)", "setLocatorsByColIdx", false, [](Step& s) {
    s.db->setLocatorsByColIdx({0, 1}, ELoc::X, 0, false);
    std::vector<int> u; for (int i : {0, 1}) if (i < s.m.ncol()) u.push_back(s.m.uidOfIdx(i)); else u.push_back(-7);
    s.m.setRoles(u, L_X, 0, false);
  });
  for (int T : {L_Z, L_X, L_SEL})
    add("clearLocators(" + lname(T) + ")", "clearLocators", false, [T](Step& s) { s.db->clearLocators(eloc(T)); s.m.roles[T].clear(); });
  for (auto pr : {std::pair<int, int>{L_Z, L_X}, std::pair<int, int>{L_X, L_F}})
    add("switchLocator(" + lname(pr.first) + "," + lname(pr.second) + ")", "switchLocator", false, [pr](Step& s) {
      s.db->switchLocator(eloc(pr.first), eloc(pr.second));
      auto& in = s.m.roles[pr.first]; auto& out = s.m.roles[pr.second];
      out.insert(out.end(), in.begin(), in.end());
      in.clear();
    });

  // ---- samples
  for (int w : {0, 1})
    add(w ? "addSamples(1)" : "addSamples(1,5)", "addSamples", false, [w](Step& s) {
      int r = w ? s.db->addSamples(1) : s.db->addSamples(1, 5.);
      int e = -1;
      if (!s.m.grid) { e = s.m.nech; s.m.nech++; for (auto& c : s.m.cols) { c.v.push_back(w ? TEST : 5.); c.unspec.push_back(0); } }
      if (r != e) s.bad = "returned " + std::to_string(r) + ", expected " + std::to_string(e);
    });
  auto delSample = [](RefTable& m, int e) -> bool {
    if (m.grid || e < 0 || e >= m.nech) return false;
    for (auto& c : m.cols) { c.v.erase(c.v.begin() + e); c.unspec.erase(c.unspec.begin() + e); }
    m.nech--;
    return true;
  };
  for (int w : {0, -1})
    add(w ? "deleteSample(last)" : "deleteSample(0)", "deleteSample", false, [w, delSample](Step& s) {
      int e = w ? s.m.nech - 1 : 0;
      int r = s.db->deleteSample(e);
      bool ok = delSample(s.m, e);
      if ((r == 0) != ok) s.bad = "returned " + std::to_string(r) + " but the deletion " + (ok ? "is valid" : "must be refused");
    });
  add("deleteSamples({0,1})", "deleteSamples", false, [delSample](Step& s) {
    int r = s.db->deleteSamples({0, 1});
    bool ok = delSample(s.m, 1) && delSample(s.m, 0);  // documented: furthest first, stops at the first refusal
    if ((r == 0) != ok) s.bad = "returned " + std::to_string(r) + " but the deletion " + (ok ? "is valid" : "must be refused");
  });

  // ---- values
  auto setCell = [](RefTable& m, int i, int e, double v) { if (i >= 0 && i < m.ncol() && e >= 0 && e < m.nech) { m.cols[i].v[e] = v; m.cols[i].unspec[e] = 0; } };
  add("setValue(name of col 1,0,3.5)", "setValue", false, [setCell](Step& s) { s.db->setValue(nameAt(s.m, 1), 0, 3.5); setCell(s.m, 1, 0, 3.5); });
  add("setArray(1,uid 2,4.5)", "setArray", false, [setCell](Step& s) { s.db->setArray(1, 2, 4.5); setCell(s.m, s.m.idxOfUid(2), 1, 4.5); });
  add("setValueByColIdx(0,0,2.5)", "setValueByColIdx", false, [setCell](Step& s) { s.db->setValueByColIdx(0, 0, 2.5); setCell(s.m, 0, 0, 2.5); });
  add("setValueByColIdx(last,last,TEST)", "setValueByColIdx", false, [setCell](Step& s) { s.db->setValueByColIdx(s.m.nech - 1, lastIdx(s.m), TEST); setCell(s.m, lastIdx(s.m), s.m.nech - 1, TEST); });
  add("setLocVariable(Z,0,0,9.5)", "setLocVariable", false, [setCell](Step& s) {
    s.db->setLocVariable(ELoc::Z, 0, 0, 9.5);
    auto& L = s.m.roles[L_Z];
    if (!L.empty()) setCell(s.m, s.m.idxOfUid(L[0]), 0, 9.5);
  });
  add("setFromLocator(X,1,1,6.5)", "setFromLocator", false, [setCell](Step& s) {
    s.db->setFromLocator(ELoc::X, 1, 1, 6.5);
    auto& L = s.m.roles[L_X];
    if (L.size() > 1) setCell(s.m, s.m.idxOfUid(L[1]), 1, 6.5);
  });
  add("setColumnByColIdx(tab,1)", "setColumnByColIdx", false, [setCell](Step& s) {
    VectorDouble t = seqTab(std::max(s.m.nech, 1), 60.);
    s.db->setColumnByColIdx(t, 1);
    for (int e = 0; e < s.m.nech; e++) setCell(s.m, 1, e, t[e]);
  });
  add("setColumn(tab,name of col 0)", "setColumn", false, [setCell](Step& s) {
    if (s.m.ncol() < 1) return;
    VectorDouble t = seqTab(std::max(s.m.nech, 1), 80.);
    s.db->setColumn(t, nameAt(s.m, 0));
    for (int e = 0; e < s.m.nech; e++) setCell(s.m, 0, e, t[e]);
  });
  add("duplicateColumnByUID(0,2)", "duplicateColumnByUID", false, [setCell](Step& s) {
    s.db->duplicateColumnByUID(0, 2);
    int i = s.m.idxOfUid(0), o = s.m.idxOfUid(2);
    if (i >= 0 && o >= 0) for (int e = 0; e < s.m.nech; e++) { s.m.cols[o].v[e] = s.m.cols[i].v[e]; s.m.cols[o].unspec[e] = s.m.cols[i].unspec[e]; }
    // source UID deleted: the content of a deleted column is not defined by the property -> target cells adopted, counted
    if (i < 0 && o >= 0) { s.tag = "[deleted-source-uid:excluded]"; for (int e = 0; e < s.m.nech; e++) s.m.cols[o].unspec[e] = 1; }
  });
  // ---- copy
  add("clone", "clone", false, [](Step& s) { Db* c = s.db->clone(); delete s.db; s.db = c; });
  OBS = (int)OPS.size();
  add("observeAll(every reader called once)", "observeAll", false, [](Step& s) { observe_all(s.db, s.m); });
  add("copy-assign", "assign", false, [](Step& s) {
    if (s.m.grid) { DbGrid* c = new DbGrid(); *c = *dynamic_cast<DbGrid*>(s.db); delete s.db; s.db = c; }
    else { Db* c = new Db(); *c = *s.db; delete s.db; s.db = c; }
  });
}


// ------------------------------------------------------------------------------------------------------------
// second half of the alphabet: the remaining public cell / column / sample mutators of Db.hpp
static void build_ops2()
{
  auto add = [](const std::string& n, const std::string& k, bool s, std::function<void(Step&)> f) { OPS.push_back({n, k, s, f}); };
  auto fixNech = [](RefTable& m, int n) { if (m.nech <= 0) { m.nech = n; for (auto& c : m.cols) { c.v.assign(n, 0.); c.unspec.assign(n, 1); } } };

  // ---- one sample across all columns / several samples of one column
  for (int w : {0, -1})
    add(std::string("setArrayBySample(") + (w ? "last" : "0") + ",{100,101,..})", "setArrayBySample", false, [w](Step& s) {
      int e = w ? s.m.nech - 1 : 0;
      VectorDouble v = seqTab(s.m.ncol(), 100.);
      s.db->setArrayBySample(e, v);
      std::vector<int> u = s.m.liveUids();  // documented order: the columns by increasing UID
      for (size_t k = 0; k < u.size(); k++) s.m.setc(s.m.idxOfUid(u[k]), e, v[k]);
    });
  add("setArrayBySample(0, wrong size)", "setArrayBySample", false, [](Step& s) { s.db->setArrayBySample(0, seqTab(s.m.ncol() + 1, 100.)); });
  add("setArrayVec({0,last},uid 2,{110,111})", "setArrayVec", false, [](Step& s) {
    if (s.m.nech < 1) { s.disabled = true; return; }
    VectorInt ie = {0, s.m.nech - 1};
    s.db->setArrayVec(ie, 2, {110., 111.});
    int i = s.m.idxOfUid(2);
    s.m.setc(i, 0, 110.); s.m.setc(i, s.m.nech - 1, 111.);
  });
  add("updArray(0,uid 1,ADD,0.5)", "updArray", false, [](Step& s) {
    s.db->updArray(0, 1, EOperator::ADD, 0.5);
    int i = s.m.idxOfUid(1);
    if (i >= 0 && s.m.nech > 0) { double o = s.m.cols[i].v[0]; if (s.m.cols[i].unspec[0]) return; s.m.setc(i, 0, FFFF(o) ? TEST : 0.5 + o); }
  });
  add("updArrayVec({last},uid 2,ADD,{0.25})", "updArrayVec", false, [](Step& s) {
    if (s.m.nech < 1) { s.disabled = true; return; }
    VectorDouble v = {0.25};
    s.db->updArrayVec({s.m.nech - 1}, 2, EOperator::ADD, v);
    int i = s.m.idxOfUid(2), e = s.m.nech - 1;
    if (i >= 0) { double o = s.m.cols[i].v[e]; if (s.m.cols[i].unspec[e]) return; s.m.setc(i, e, FFFF(o) ? TEST : 0.25 + o); }
  });
  add("updZVariable(0,0,ADD,0.5)", "updZVariable", false, [](Step& s) {
    int i = s.m.roleCol(L_Z, 0);
    if (i < 0 || s.m.nech < 1) { s.disabled = true; return; }  // out-of-range item: memory-unsafe today, exercised in part outofrange
    s.db->updZVariable(0, 0, EOperator::ADD, 0.5);
    double o = s.m.cols[i].v[0]; if (s.m.cols[i].unspec[0]) return; s.m.setc(i, 0, FFFF(o) ? TEST : 0.5 + o);
  });
  add("updLocVariable(X,last,1,ADD,0.5)", "updLocVariable", false, [](Step& s) {
    int i = s.m.roleCol(L_X, 1), e = s.m.nech - 1;
    if (i < 0 || s.m.nech < 1) { s.disabled = true; return; }
    s.db->updLocVariable(ELoc::X, e, 1, EOperator::ADD, 0.5);
    double o = s.m.cols[i].v[e]; if (s.m.cols[i].unspec[e]) return; s.m.setc(i, e, FFFF(o) ? TEST : 0.5 + o);
  });
  add("setZVariable(last,0,9.25)", "setZVariable", false, [](Step& s) { s.db->setZVariable(s.m.nech - 1, 0, 9.25); s.m.setc(s.m.roleCol(L_Z, 0), s.m.nech - 1, 9.25); });
  add("setLocVariables(Z,0,{120,..})", "setLocVariables", false, [](Step& s) {
    int n = s.m.nrole(L_Z);
    VectorDouble v = seqTab(n, 120.);
    s.db->setLocVariables(ELoc::Z, 0, v);
    for (int k = 0; k < n; k++) s.m.setc(s.m.roleCol(L_Z, k), 0, v[k]);
  });
  add("setLocVariables(X,0,wrong size)", "setLocVariables", false, [](Step& s) { s.db->setLocVariables(ELoc::X, 0, seqTab(s.m.nrole(L_X) + 1, 120.)); });

  // ---- whole columns, with and without the selection
  auto nsel = [](const RefTable& m) { int n = 0; for (int e = 0; e < m.nech; e++) if (m.active(e)) n++; return n; };
  add("setColumnsByColIdx(tabs,{2,0})", "setColumnsByColIdx", false, [](Step& s) {
    VectorDouble t = seqTab(2 * s.m.nech, 130.);
    s.db->setColumnsByColIdx(t, {2, 0});
    // an invalid index in the list: the columns before it may or may not have been written (not documented) -> adopted
    bool allValid = s.m.ncol() > 2;
    int k = 0;
    for (int i : {2, 0}) { for (int e = 0; e < s.m.nech; e++) { if (allValid) s.m.setc(i, e, t[k * s.m.nech + e]); else s.m.adopt(i, e); } k++; }
  });
  add("setColumnByUID(tab,2,useSel)", "setColumnByUID[useSel]", false, [nsel](Step& s) {
    if (!s.m.boolSel()) { s.disabled = true; return; }
    VectorDouble t = seqTab(std::max(1, nsel(s.m)), 140.);
    s.db->setColumnByUID(t, 2, true);
    int i = s.m.idxOfUid(2), k = 0;
    for (int e = 0; e < s.m.nech; e++) if (s.m.active(e)) s.m.setc(i, e, t[k++]);  // documented: only the active samples are updated
  });
  add("setColumnByColIdx(tab,last,useSel)", "setColumnByColIdx[useSel]", false, [nsel](Step& s) {
    if (!s.m.boolSel()) { s.disabled = true; return; }
    VectorDouble t = seqTab(std::max(1, nsel(s.m)), 150.);
    int i = lastIdx(s.m), k = 0;
    s.db->setColumnByColIdx(t, i, true);
    for (int e = 0; e < s.m.nech; e++) { if (s.m.active(e)) s.m.setc(i, e, t[k++]); else s.m.adopt(i, e); }  // masked cells: not documented -> adopted
  });
  add("setColumn(tab,name of col 1,useSel)", "setColumn[useSel]", false, [nsel](Step& s) {
    if (!s.m.boolSel() || s.m.ncol() < 2) { s.disabled = true; return; }
    VectorDouble t = seqTab(std::max(1, nsel(s.m)), 160.);
    s.db->setColumn(t, nameAt(s.m, 1), ELoc::UNKNOWN, 0, true);
    int k = 0;
    for (int e = 0; e < s.m.nech; e++) if (s.m.active(e)) s.m.setc(1, e, t[k++]);
  });
  add("setAllColumns(tabs)", "setAllColumns", false, [](Step& s) {
    VectorVectorDouble tabs;
    std::vector<int> u = s.m.liveUids();
    for (size_t k = 0; k < u.size(); k++) tabs.push_back(seqTab(std::max(1, s.m.nech), 170. + 10. * k));
    s.db->setAllColumns(tabs);
    for (size_t k = 0; k < u.size(); k++) for (int e = 0; e < s.m.nech; e++) s.m.setc(s.m.idxOfUid(u[k]), e, tabs[k][e]);
  });
  add("copyByUID(0,2)", "copyByUID", false, [](Step& s) {
    s.db->copyByUID(0, 2);
    int i = s.m.idxOfUid(0), o = s.m.idxOfUid(2);
    if (i >= 0 && o >= 0) for (int e = 0; e < s.m.nech; e++) { s.m.cols[o].v[e] = s.m.cols[i].v[e]; s.m.cols[o].unspec[e] = s.m.cols[i].unspec[e]; }
  });
  add("copyByCol(1,last)", "copyByCol", false, [](Step& s) {
    int o = lastIdx(s.m);
    s.db->copyByCol(1, o);
    if (s.m.ncol() >= 2) for (int e = 0; e < s.m.nech; e++) { s.m.cols[o].v[e] = s.m.cols[1].v[e]; s.m.cols[o].unspec[e] = s.m.cols[1].unspec[e]; }
  });

  // ---- coordinates
  add("setCoordinate(0,1,6.25)", "setCoordinate", false, [](Step& s) { s.db->setCoordinate(0, 1, 6.25); s.m.setc(s.m.roleCol(L_X, 1), 0, 6.25); });
  add("setCoordinate(last,5,6.25)", "setCoordinate", false, [](Step& s) { s.db->setCoordinate(s.m.nech - 1, 5, 6.25); s.m.setc(s.m.roleCol(L_X, 5), s.m.nech - 1, 6.25); });
  add("setCoordinates(0,tab)", "setCoordinates", false, [](Step& s) {
    VectorDouble t = seqTab(std::max(1, s.m.nech), 200.);
    s.db->setCoordinates(0, t);
    int i = s.m.roleCol(L_X, 0);
    for (int e = 0; e < s.m.nech; e++) s.m.setc(i, e, t[e]);
  });
  add("setSampleCoordinates(last,{210,211,..})", "setSampleCoordinates", false, [](Step& s) {
    int nd = s.m.grid ? 2 : s.m.nrole(L_X);
    VectorDouble c = seqTab(nd, 210.);
    s.db->setSampleCoordinates(s.m.nech - 1, c);
    for (int d = 0; d < nd; d++) s.m.setc(s.m.roleCol(L_X, d), s.m.nech - 1, c[d]);
  });

  // ---- blocks of cells by names / indices
  for (int bs : {0, 1})
    add(std::string("setValuesByNames({0,last},{name2,name0},vals,bySample=") + (bs ? "true)" : "false)"), "setValuesByNames", false, [bs](Step& s) {
      if (s.m.ncol() < 3 || s.m.nech < 1) { s.disabled = true; return; }
      VectorInt ie = {0, s.m.nech - 1};
      VectorDouble v = {220., 221., 222., 223.};
      s.db->setValuesByNames(ie, {nameAt(s.m, 2), nameAt(s.m, 0)}, v, bs);
      int ic[2] = {2, 0};
      for (int a = 0; a < 2; a++) for (int b = 0; b < 2; b++) s.m.setc(ic[a], ie[b], bs ? v[b * 2 + a] : v[a * 2 + b]);
    });
  add("setValuesByColIdx({last,0},{1,2},vals,bySample=true)", "setValuesByColIdx", false, [](Step& s) {
    if (s.m.nech < 1) { s.disabled = true; return; }
    VectorInt ie = {s.m.nech - 1, 0};
    VectorDouble v = {230., 231., 232., 233.};
    s.db->setValuesByColIdx(ie, {1, 2}, v, true);
    bool allValid = s.m.ncol() > 2;
    int ic[2] = {1, 2};
    for (int a = 0; a < 2; a++) for (int b = 0; b < 2; b++) { if (allValid) s.m.setc(ic[a], ie[b], v[b * 2 + a]); else s.m.adopt(ic[a], ie[b]); }  // partly invalid list: order of refusal not documented
  });
  add("setValuesByColIdx({0},{1},wrong size)", "setValuesByColIdx", false, [](Step& s) { s.db->setValuesByColIdx({0}, {1}, {1., 2., 3.}, false); });

  // ---- setItem
  add("setItem(name of col 1,vals)", "setItem", false, [](Step& s) {
    if (s.m.ncol() < 2 || s.m.nech < 1) { s.disabled = true; return; }
    VectorDouble v = seqTab(s.m.nech, 240.);
    int r = s.db->setItem(nameAt(s.m, 1), v, false);
    for (int e = 0; e < s.m.nech; e++) s.m.setc(1, e, v[e]);
    if (r != 0) s.bad = "setItem returned " + std::to_string(r) + " for a valid request";
  });
  add("setItem(name of col 1,vals,useSel)", "setItem[useSel]", false, [nsel](Step& s) {
    if (s.m.ncol() < 2 || s.m.nech < 1 || !s.m.boolSel() || nsel(s.m) < 1) { s.disabled = true; return; }
    VectorDouble v = seqTab(nsel(s.m), 250.);  // the size the call itself requires: one value per active sample
    int r = s.db->setItem(nameAt(s.m, 1), v, true);
    int k = 0;
    for (int e = 0; e < s.m.nech; e++) if (s.m.active(e)) s.m.setc(1, e, v[k++]);
    if (r != 0) s.bad = "setItem returned " + std::to_string(r) + " for a valid request";
  });
  add("setItem({0,last},{name2,name0},vals)", "setItem", false, [](Step& s) {
    if (s.m.ncol() < 3 || s.m.nech < 1) { s.disabled = true; return; }
    VectorInt rows = {0, s.m.nech - 1};
    VectorVectorDouble v = {{260., 261.}, {262., 263.}};
    int r = s.db->setItem(rows, VectorString{nameAt(s.m, 2), nameAt(s.m, 0)}, v, false);
    int ic[2] = {2, 0};
    for (int a = 0; a < 2; a++) for (int b = 0; b < 2; b++) s.m.setc(ic[a], rows[b], v[a][b]);
    if (r != 0) s.bad = "setItem returned " + std::to_string(r) + " for a valid request";
  });
  add("setItem(Z,vals)", "setItem", false, [](Step& s) {
    int n = s.m.nrole(L_Z);
    if (n < 1 || s.m.nech < 1) { s.disabled = true; return; }
    VectorVectorDouble v;
    for (int k = 0; k < n; k++) v.push_back(seqTab(s.m.nech, 270. + 10. * k));
    int r = s.db->setItem(ELoc::Z, v, false);
    for (int k = 0; k < n; k++) for (int e = 0; e < s.m.nech; e++) s.m.setc(s.m.roleCol(L_Z, k), e, v[k][e]);
    if (r != 0) s.bad = "setItem returned " + std::to_string(r) + " for a valid request";
  });

  // ---- adding several columns at once, rank column, selections
  add("addColumnsByVVD({c1,c2},'v',Z,-1)", "addColumnsByVVD", true, [fixNech](Step& s) {
    int n = s.m.nech > 0 ? s.m.nech : 2;
    VectorVectorDouble t = {seqTab(n, 300.), seqTab(n, 310.)};
    s.db->addColumnsByVVD(t, "v", ELoc::Z, -1);
    fixNech(s.m, n);
    s.m.addCols(2, 0., L_Z, -1);
    for (int k = 0; k < 2; k++) for (int e = 0; e < n; e++) s.m.cols[s.m.ncol() - 2 + k].v[e] = t[k][e];
  });
  add("addColumns(tab 2*nech,'a',Z,0,nvar=2)", "addColumns", true, [fixNech](Step& s) {
    int n = s.m.nech > 0 ? s.m.nech : 2;
    VectorDouble t = seqTab(2 * n, 320.);
    int r = s.db->addColumns(t, "a", ELoc::Z, 0, false, 0., 2);
    fixNech(s.m, n);
    int e0 = s.m.addCols(2, 0., L_Z, 0);
    for (int k = 0; k < 2; k++) for (int e = 0; e < n; e++) s.m.cols[s.m.ncol() - 2 + k].v[e] = t[k * n + e];
    if (r != e0) s.bad = "returned UID " + std::to_string(r) + ", expected " + std::to_string(e0);
  });
  add("generateRank('rank')", "generateRank", true, [](Step& s) {
    if (s.m.nech < 1) { s.disabled = true; return; }
    s.db->generateRank("rank");
    s.m.addCols(1, 0., L_UNK, 0);
    for (int e = 0; e < s.m.nech; e++) s.m.cols.back().v[e] = e + 1.;
  });
  add("addSelectionByRanks({0},'selr')", "addSelectionByRanks", true, [](Step& s) {
    if (s.m.nech < 1) { s.disabled = true; return; }
    s.db->addSelectionByRanks({0}, "selr");
    s.m.addCols(1, 0., L_SEL, 0);
    s.m.cols.back().v[0] = 1.;
  });
  add("addSelection({0,1,1,..},'sel2','and')", "addSelection[and]", true, [](Step& s) {
    int n = s.m.nech;
    if (n < 1 || !s.m.boolSel()) { s.disabled = true; return; }
    VectorDouble t(n, 1.); t[0] = 0.;
    int is = s.m.selIdx();
    bool undef = false;
    if (is >= 0) for (double x : s.m.cols[is].v) if (FFFF(x)) undef = true;
    if (undef) { s.disabled = true; return; }  // combining with an undefined flag is not defined
    std::vector<double> old = is >= 0 ? s.m.cols[is].v : std::vector<double>();
    s.db->addSelection(t, "sel2", "and");
    s.m.addCols(1, 0., L_SEL, 0);
    for (int e = 0; e < n; e++) s.m.cols.back().v[e] = (t[e] != 0. && (old.empty() || old[e] != 0.)) ? 1. : 0.;
  });

  // ---- several names / several columns at once
  add("setName({name0,name2},'m')", "setName[list]", false, [](Step& s) {
    VectorString l; for (int i : {0, 2}) if (i < s.m.ncol()) l.push_back(nameAt(s.m, i));
    s.db->setName(l, "m");
  });
  add("deleteColumns({name0,name2})", "deleteColumns", true, [](Step& s) {
    if (s.m.ncol() < 3) { s.disabled = true; return; }  // a list with an unknown name: nothing / part of it deleted is not documented
    s.db->deleteColumns({nameAt(s.m, 0), nameAt(s.m, 2)});
    int u0 = s.m.uidOfIdx(0), u2 = s.m.uidOfIdx(2);
    s.m.delUid(u0); s.m.delUid(u2);
  });
  add("deleteColumnsByUID({1,3})", "deleteColumnsByUID", true, [](Step& s) { s.db->deleteColumnsByUID({1, 3}); s.m.delUid(1); s.m.delUid(3); });
  add("deleteColumnsByUIDRange(1,2)", "deleteColumnsByUIDRange", true, [](Step& s) { s.db->deleteColumnsByUIDRange(1, 2); s.m.delUid(2); s.m.delUid(1); });
}



// ------------------------------------------------------------------------------------------------------------
// third part of the alphabet: DEGENERATE vector arguments (repeated element, literal + pattern matching it in both
// orders, overlapping patterns, empty vector, valid + invalid elements, unsorted ranks). Lists of names are
// documented (expandList) to designate each column once, in the order of first designation.
static void build_ops3()
{
  auto add = [](const std::string& n, const std::string& k, bool s, std::function<void(Step&)> f) { OPS.push_back({n, k, s, f}); };
  struct NL { const char* label; std::function<VectorString(const RefTable&)> mk; };
  auto nm = [](const RefTable& m, int i) { return nameAt(m, i); };
  std::vector<NL> lists = {
    {"{name0,name1,name0}", [nm](const RefTable& m) { return VectorString{nm(m, 0), nm(m, 1), nm(m, 0)}; }},
    {"{'x*',name of first x}", [](const RefTable& m) { VectorString v = {"x*"}; for (auto& c : m.cols) if (c.name[0] == 'x') { v.push_back(c.name); break; } return v; }},
    {"{name of first x,'x*'}", [](const RefTable& m) { VectorString v; for (auto& c : m.cols) if (c.name[0] == 'x') { v.push_back(c.name); break; } v.push_back("x*"); return v; }},
    {"{'x*','.*1'}", [](const RefTable&) { return VectorString{"x*", ".*1"}; }},
    {"{}", [](const RefTable&) { return VectorString(); }},
    {"{name1,'nosuchcolumn',name0}", [nm](const RefTable& m) { return VectorString{nm(m, 1), "nosuchcolumn", nm(m, 0)}; }},
  };
  for (auto& L : lists)
  {
    auto mk = L.mk;
    add(std::string("setLocators(") + L.label + ",Z,0)", "setLocators[degenerate-list]", false, [mk](Step& s) {
      VectorString l = mk(s.m);
      std::vector<std::string> pl(l.begin(), l.end());
      std::vector<int> idx = s.m.expand(pl), u;
      for (int i : idx) u.push_back(s.m.cols[i].uid);
      s.db->setLocators(l, ELoc::Z, 0, false);
      if (!u.empty()) s.m.setRoles(u, L_Z, 0, false);
    });
    add(std::string("deleteColumns(") + L.label + ")", "deleteColumns[degenerate-list]", true, [mk](Step& s) {
      VectorString l = mk(s.m);
      std::vector<std::string> pl(l.begin(), l.end());
      std::vector<int> idx = s.m.expand(pl), u;
      for (int i : idx) u.push_back(s.m.cols[i].uid);
      s.db->deleteColumns(l);
      for (int x : u) s.m.delUid(x);
    });
  }
  add("setLocators({'x*',name of first x},F,-1)", "setLocators[degenerate-list]", false, [](Step& s) {
    VectorString l = {"x*"};
    for (auto& c : s.m.cols) if (c.name[0] == 'x') { l.push_back(c.name); break; }
    std::vector<std::string> pl(l.begin(), l.end());
    std::vector<int> u; for (int i : s.m.expand(pl)) u.push_back(s.m.cols[i].uid);
    for (int x : u) if (s.m.inRole(x, L_F)) s.tag = "[auto-rank,column-already-in-list]";
    s.db->setLocators(l, ELoc::F, -1, false);
    if (!u.empty()) s.m.setRoles(u, L_F, -1, false);
  });
  add("setName({name0,name0},'m')", "setName[list]", false, [](Step& s) { if (s.m.ncol() < 1) { s.disabled = true; return; } s.db->setName(VectorString{nameAt(s.m, 0), nameAt(s.m, 0)}, "m"); });
  // ---- vectors of UIDs / column indices
  add("setLocatorsByUID({2,2},X,0)", "setLocatorsByUID[repeated]", false, [](Step& s) {
    for (int u : {2}) if (u < s.m.nuid && s.m.idxOfUid(u) < 0) s.tag = "[deleted-uid]";
    s.db->setLocatorsByUID(VectorInt{2, 2}, ELoc::X, 0, false);
    s.m.setRoles({2, 2}, L_X, 0, false);   // sequential assignments: the second one asks for a rank beyond the end = explicit gap
  });
  add("setLocatorsByUID({},Z,0)", "setLocatorsByUID", false, [](Step& s) { s.db->setLocatorsByUID(VectorInt(), ELoc::Z, 0, false); });
  add("setLocatorsByColIdx({1,1},Z,0)", "setLocatorsByColIdx[repeated]", false, [](Step& s) {
    s.db->setLocatorsByColIdx({1, 1}, ELoc::Z, 0, false);
    int u = s.m.uidOfIdx(1);
    s.m.setRoles({u, u}, L_Z, 0, false);
  });
  add("setLocatorsByColIdx({},Z,0)", "setLocatorsByColIdx", false, [](Step& s) { s.db->setLocatorsByColIdx(VectorInt(), ELoc::Z, 0, false); });
  add("deleteColumnsByUID({1,1,99})", "deleteColumnsByUID", true, [](Step& s) { s.db->deleteColumnsByUID({1, 1, 99}); s.m.delUid(1); });
  add("deleteColumnsByUID({})", "deleteColumnsByUID", false, [](Step& s) { s.db->deleteColumnsByUID(VectorInt()); });
  add("deleteColumnsByColIdx({0,99,2})", "deleteColumnsByColIdx", true, [](Step& s) {
    s.db->deleteColumnsByColIdx({0, 99, 2});
    int u0 = s.m.uidOfIdx(0), u2 = s.m.uidOfIdx(2);
    s.m.delUid(u2); s.m.delUid(u0);
  });
  add("deleteColumnsByColIdx({})", "deleteColumnsByColIdx", false, [](Step& s) { s.db->deleteColumnsByColIdx(VectorInt()); });
  add("setColumnsByColIdx(tabs,{1,1})", "setColumnsByColIdx", false, [](Step& s) {
    VectorDouble t = seqTab(2 * s.m.nech, 400.);
    s.db->setColumnsByColIdx(t, {1, 1});
    for (int e = 0; e < s.m.nech; e++) s.m.setc(1, e, t[s.m.nech + e]);   // written twice, in the order of the list
  });
  // ---- vectors of sample ranks
  auto delSample = [](RefTable& m, int e) -> bool {
    if (m.grid || e < 0 || e >= m.nech) return false;
    for (auto& c : m.cols) { c.v.erase(c.v.begin() + e); c.unspec.erase(c.unspec.begin() + e); }
    m.nech--;
    return true;
  };
  add("deleteSamples({last,0}) [unsorted... given increasing]", "deleteSamples", false, [delSample](Step& s) {
    if (s.m.nech < 2) { s.disabled = true; return; }
    int last = s.m.nech - 1;
    int r = s.db->deleteSamples({0, last});
    bool ok = delSample(s.m, last) && delSample(s.m, 0);
    if ((r == 0) != ok) s.bad = "returned " + std::to_string(r) + " but the deletion " + (ok ? "is valid" : "must be refused");
  });
  add("deleteSamples({0,99})", "deleteSamples", false, [delSample](Step& s) {
    int r = s.db->deleteSamples({0, 99});
    bool ok = delSample(s.m, 99) && delSample(s.m, 0);   // furthest first: refused at once, nothing deleted
    if ((r == 0) != ok) s.bad = "returned " + std::to_string(r) + " but the deletion " + (ok ? "is valid" : "must be refused");
  });
  add("deleteSamples({})", "deleteSamples", false, [](Step& s) { int r = s.db->deleteSamples(VectorInt()); if (r != 0) s.bad = "returned " + std::to_string(r) + " for an empty list"; });
  add("addSelectionByRanks({last,0,last},'selr')", "addSelectionByRanks", true, [](Step& s) {
    if (s.m.nech < 1) { s.disabled = true; return; }
    int last = s.m.nech - 1;
    s.db->addSelectionByRanks({last, 0, last}, "selr");
    s.m.addCols(1, 0., L_SEL, 0);
    s.m.cols.back().v[0] = 1.; s.m.cols.back().v[last] = 1.;
  });
  add("setArrayVec({0,0},uid 1,{410,411})", "setArrayVec", false, [](Step& s) {
    if (s.m.nech < 1) { s.disabled = true; return; }
    s.db->setArrayVec({0, 0}, 1, {410., 411.});
    s.m.setc(s.m.idxOfUid(1), 0, 411.);
  });
  // ---- lists whose repetition is not de-duplicated by a documented rule: the cells concerned are adopted
  add("setValuesByNames({0},{name0,name0},{420,421})", "setValuesByNames[repeated]", false, [](Step& s) {
    if (s.m.ncol() < 1 || s.m.nech < 1) { s.disabled = true; return; }
    s.db->setValuesByNames({0}, {nameAt(s.m, 0), nameAt(s.m, 0)}, {420., 421.}, false);
    s.m.adopt(0, 0);
  });
  add("setItem({0},{name1,name1},{{430},{431}})", "setItem[repeated]", false, [](Step& s) {
    if (s.m.ncol() < 2 || s.m.nech < 1) { s.disabled = true; return; }
    (void)s.db->setItem(VectorInt{0}, VectorString{nameAt(s.m, 1), nameAt(s.m, 1)}, VectorVectorDouble{{430.}, {431.}}, false);
    s.m.adopt(1, 0);
  });
}

// ------------------------------------------------------------------------------------------------------------
// "observe" step: calls every public reader once, mid-history, so that any reader-side cache / lazily built index /
// memoised rank is primed BEFORE the next mutation. It does not change the table (the model is untouched); the
// canonical key carries an "observed since the last mutation" bit so that a primed state is not pruned as already seen.
static std::string judge(const Db* db, RefTable& m, std::string& why, bool deep);
static std::string judge_accessors(const Db* db, RefTable& m, std::string& why);
static void observe_all(const Db* db, const RefTable& m0)
{
  RefTable m = m0;   // the verdicts of this mid-history pass are ignored: the same state is judged as the end of its own history
  std::string why;
  if (db->getColumnNumber() == m.ncol() && db->getSampleNumber(false) == m.nech)
  {
    std::string c = judge(db, m, why, true);
    if (c.empty() && !m.gap) (void)judge_accessors(db, m, why);
  }
  // readers that are not part of the clauses
  int nech = db->getSampleNumber(false), ncol = db->getColumnNumber();
  (void)db->getSampleNumber(true);
  (void)db->getRanksActive();
  (void)db->getSelections();
  (void)db->getActiveArray();
  for (int e = 0; e < nech; e++) { (void)db->isActive(e); (void)db->getSelection(e); (void)db->isActiveAndDefined(e, 0); (void)db->getWeight(e); (void)db->getSampleCoordinates(e); for (int d = 0; d < db->getNDim(); d++) (void)db->getCoordinate(e, d); }
  (void)db->getNames(VectorString{"*"}); (void)db->getName("*"); (void)db->getAllNames(true);
  (void)db->getLocators();
  for (int i = 0; i < ncol; i++)
  {
    String n = db->getNameByColIdx(i);
    (void)db->getColumn(n, true, true); (void)db->getColIdx(n); (void)db->getUID(n);
    if (nech > 0) { (void)db->getMinimum(n); (void)db->getMaximum(n); (void)db->getMean(n, true); (void)db->getVariance(n); (void)db->getActiveAndDefinedNumber(n); }
  }
  for (int T = 0; T < Db::getNEloc(); T++)
    for (int k = 0; k < db->getLocNumber(eloc(T)); k++) { (void)db->getColIdxByLocator(eloc(T), k); (void)db->getColumnByLocator(eloc(T), k, true, true); }
  if (nech > 0 && db->getNDim() > 0) { (void)db->getExtremas(true); (void)db->getCenters(); (void)db->getCoorMinimum(); }  // getAllCoordinatesMat: judged in the forked part (it overflows its matrix today)
  (void)db->getNumberActiveAndDefined(0);
  (void)db->getSampleRanks();
  (void)db->toString();
}

// ------------------------------------------------------------------------------------------------------------
// start states
static Db* make_start(int which, RefTable& m)
{
  Db* db = nullptr;
  std::vector<std::string> names, locs;
  std::vector<std::vector<double>> cols;
  if (which == 0) db = Db::create();
  else if (which == 1 || which == 2)
  {
    cols = {{0.5, 1.5}, {2.5, 3.5}, {10.25, 11.25}};
    names = {"x1", "x2", "z1"};
    locs = {"x1", "x2", "z1"};
    db = make_db(cols, names, locs, which == 2);
    if (which == 2) { cols.insert(cols.begin(), {1., 2.}); names.insert(names.begin(), "rank"); locs.insert(locs.begin(), ""); }
  }
  else if (which == 4)
  {
    // a selection stored in the middle: a role-less column (rank) before it, columns after it whose cells differ from it
    cols = {{1., 2., 3.}, {0.5, 1.5, 2.5}, {1., 0., 1.}, {10.25, 11.25, 12.25}, {0., 7., 0.}};
    names = {"rank", "x1", "sel", "z1", "w"};
    locs = {"", "x1", "sel", "z1", ""};
    db = make_db(cols, names, locs, false);
  }
  else
  {
    db = DbGrid::create({2, 2}, {1., 1.}, {0., 0.}, VectorDouble(), ELoadBy::COLUMN, {10.25, 11.25, 12.25, 13.25}, {"z1"}, {"z1"}, true, true);
    cols = {{1., 2., 3., 4.}, {0., 1., 0., 1.}, {0., 0., 1., 1.}, {10.25, 11.25, 12.25, 13.25}};
    names = {"rank", "x1", "x2", "z1"};
    locs = {"", "x1", "x2", "z1"};
    m.grid = true;
  }
  m.nech = cols.empty() ? 0 : (int)cols[0].size();
  for (size_t i = 0; i < cols.size(); i++)
  {
    MCol c; c.uid = m.nuid++; c.name = names[i]; c.v = cols[i]; c.unspec.assign(c.v.size(), 0);
    m.cols.push_back(c);
    if (locs[i].empty()) continue;
    m.roles[locs[i][0] == 'x' ? L_X : locs[i][0] == 's' ? L_SEL : L_Z].push_back(c.uid);
  }
  return db;
}

static uint64_t state_key(const Db* db)
{
  Hash h;
  h.i(db->_ncol).i(db->_nech).vd(db->_array).vi(db->_uidcol).u(db->_colNames.size());
  for (auto& n : db->_colNames) h.s(n);
  for (auto& p : db->_p) h.vi(p._r);
  // every `mutable` member reachable from a Db / DbGrid (today: the scratch vectors of Grid)
  const DbGrid* g = dynamic_cast<const DbGrid*>(db);
  if (g != nullptr) h.vi(g->_grid._iwork0).vd(g->_grid._work1).vd(g->_grid._work2);
  return h.h;
}

// ------------------------------------------------------------------------------------------------------------
// invariants; returns the class of the first failure ("" = all hold) and a text
// The clauses comparing the implementation with the model are evaluated for every history. The clauses that only
// cross-check the public designation API of the implementation against itself (name / UID / locator look-ups) are a
// function of the hidden state alone: they are evaluated once per distinct canonical state key (deep == true).
static std::string judge(const Db* db, RefTable& m, std::string& why, bool deep)
{
  std::ostringstream o;
  int ncol = db->getColumnNumber();
  // counts
  if (ncol != m.ncol()) { o << "getColumnNumber()=" << ncol << " model=" << m.ncol(); why = o.str(); return "count"; }
  if (db->getSampleNumber(false) != m.nech) { o << "getSampleNumber()=" << db->getSampleNumber(false) << " model=" << m.nech; why = o.str(); return "count"; }
  if ((int)db->getAllNames().size() != ncol) { o << "getAllNames().size()=" << db->getAllNames().size() << " ncol=" << ncol; why = o.str(); return "count"; }
  if ((long)db->_array.size() < (long)ncol * m.nech) { o << "_array.size()=" << db->_array.size() << " < ncol*nech=" << ncol * m.nech; why = o.str(); return "count"; }
  // names: adopt, then unique
  for (int i = 0; i < ncol; i++) m.cols[i].name = db->getNameByColIdx(i);
  for (int i = 0; i < ncol; i++)
    for (int j = 0; j < i; j++)
      if (m.cols[i].name == m.cols[j].name) { o << "columns " << j << " and " << i << " are both named '" << m.cols[i].name << "'"; why = o.str(); return "names-unique"; }
  if (m.requestedUid >= 0)
  {
    int i = m.idxOfUid(m.requestedUid);
    bool taken = false;
    for (int j = 0; j < ncol; j++) if (j != i && m.cols[j].name == m.requestedName) taken = true;
    if (i >= 0 && !taken && m.cols[i].name != m.requestedName) { o << "column " << i << " was renamed to the free name '" << m.requestedName << "' but is called '" << m.cols[i].name << "'"; why = o.str(); return "names-rename"; }
  }
  // uid table
  if (db->getUIDMaxNumber() != m.nuid) { o << "getUIDMaxNumber()=" << db->getUIDMaxNumber() << " model (UIDs never reused)=" << m.nuid; why = o.str(); return "uid-table"; }
  {
    std::vector<int> hit(ncol, 0);
    for (int u = 0; u < m.nuid; u++)
    {
      int c = db->getColIdxByUID(u), e = m.idxOfUid(u);
      if (c != e) { o << "getColIdxByUID(" << u << ")=" << c << " model=" << e; why = o.str(); return "uid-table"; }
      if (c >= 0) hit[c]++;
    }
    for (int i = 0; i < ncol; i++) if (hit[i] != 1) { o << "column " << i << " is the image of " << hit[i] << " UIDs"; why = o.str(); return "uid-table"; }
  }
  // designations
  for (int i = 0; deep && i < ncol; i++)
  {
    const std::string& n = m.cols[i].name;
    int u = m.cols[i].uid;
    if (db->getColIdx(n) != i || db->getUID(n) != u)
    {
      // is the failure explained by the name being interpreted as a regular expression that also matches another name?
      for (int j = 0; j < ncol; j++)
        if (j != i && std::regex_match(m.cols[j].name, std::regex(n)))
        {
          o << "the unique name '" << n << "' of column " << i << " does not designate it: getColIdx=" << db->getColIdx(n) << " getUID=" << db->getUID(n) << " (expected " << i << " / " << u
            << ") because the name, read as a regular expression, also matches column " << j << " '" << m.cols[j].name << "'";
          why = o.str();
          return "!names:regex-ambiguity";
        }
    }
    if (db->getColIdx(n) != i) { o << "getColIdx('" << n << "')=" << db->getColIdx(n) << " for column " << i; why = o.str(); return "designation"; }
    if (db->getUIDByColIdx(i) != u) { o << "getUIDByColIdx(" << i << ")=" << db->getUIDByColIdx(i) << " model=" << u; why = o.str(); return "designation"; }
    if (db->getUID(n) != u) { o << "getUID('" << n << "')=" << db->getUID(n) << " model=" << u; why = o.str(); return "designation"; }
    if (db->getNameByUID(u) != n) { o << "getNameByUID(" << u << ")='" << db->getNameByUID(u) << "' but column " << i << " is '" << n << "'"; why = o.str(); return "designation"; }
  }
  // values through every designation
  for (int i = 0; i < ncol; i++)
  {
    VectorDouble byname, byuid;
    if (deep) { byname = db->getColumn(m.cols[i].name, false, false); byuid = db->getColumnByUID(m.cols[i].uid, false, false); }
    if (deep && ((int)byname.size() != m.nech || (int)byuid.size() != m.nech)) { o << "getColumn/getColumnByUID of column " << i << " have sizes " << byname.size() << "/" << byuid.size() << " nech=" << m.nech; why = o.str(); return "values"; }
    for (int e = 0; e < m.nech; e++)
    {
      double v = db->getValueByColIdx(e, i);
      if (m.cols[i].unspec[e]) { m.cols[i].v[e] = v; m.cols[i].unspec[e] = 0; }
      double r = m.cols[i].v[e];
      if (!same(v, r)) { o << "cell (sample " << e << ", column " << i << " '" << m.cols[i].name << "') = " << fmt(v) << " model=" << fmt(r); why = o.str(); return "values"; }
      if (!deep) continue;
      double a = db->getArray(e, m.cols[i].uid), b = db->getValue(m.cols[i].name, e);
      if (!same(a, r) || !same(b, r) || !same(byname[e], r) || !same(byuid[e], r))
      { o << "cell (sample " << e << ", column " << i << ") read by index=" << fmt(v) << " by UID=" << fmt(a) << " by name=" << fmt(b) << " getColumn=" << fmt(byname[e]) << " getColumnByUID=" << fmt(byuid[e]); why = o.str(); return "designation"; }
    }
  }
  if (m.gap) return "";
  // roles
  std::map<int, int> roleOf;  // uid -> type
  for (int T = 0; T < Db::getNEloc(); T++)
  {
    const VectorInt& L = db->_p[T]._r;
    const std::vector<int>& M = m.roles[T];
    for (size_t k = 0; k < L.size(); k++)
    {
      if (m.idxOfUid(L[k]) < 0) { o << "role list " << lname(T) << " = " << vstr(L) << " holds UID " << L[k] << " which is not a column"; why = o.str(); return "roles-stale-uid"; }
      if (roleOf.count(L[k])) { o << "UID " << L[k] << " (column " << m.idxOfUid(L[k]) << ") has two roles: " << lname(roleOf[L[k]]) << " and " << lname(T) << (k + 1) << " ; list " << lname(T) << "=" << vstr(L); why = o.str(); return "roles-two-roles"; }
      roleOf[L[k]] = T;
    }
    if (db->getLocatorNumber(eloc(T)) != (int)L.size()) { o << "getLocatorNumber(" << lname(T) << ")=" << db->getLocatorNumber(eloc(T)) << " list size " << L.size(); why = o.str(); return "roles-designation"; }
    bool eq = L.size() == M.size();
    for (size_t k = 0; eq && k < L.size(); k++) if (L[k] != M[k]) eq = false;
    if (!eq)
    {
      o << "columns holding role " << lname(T) << " (by rank, as column indices): implementation [";
      for (int u : L) o << m.idxOfUid(u) << " ";
      o << "] reference model [";
      for (int u : M) o << m.idxOfUid(u) << " ";
      o << "]";
      why = o.str();
      return "roles-model";
    }
    for (size_t k = 0; deep && k < L.size(); k++)
    {
      int i = m.idxOfUid(L[k]);
      ELoc lt; int li;
      bool ok = db->getColIdxByLocator(eloc(T), (int)k) == i && db->getUIDByLocator(eloc(T), (int)k) == L[k] && db->getNameByLocator(eloc(T), (int)k) == m.cols[i].name;
      ok = ok && db->getLocatorByColIdx(i, &lt, &li) && lt == eloc(T) && li == (int)k;
      ok = ok && db->getLocatorByUID(L[k], &lt, &li) && lt == eloc(T) && li == (int)k;
      ok = ok && db->getLocator(m.cols[i].name, &lt, &li) && lt == eloc(T) && li == (int)k;
      if (!ok) { o << "role " << lname(T) << (k + 1) << " held by column " << i << ": getColIdxByLocator/getUIDByLocator/getNameByLocator/getLocatorBy* disagree"; why = o.str(); return "roles-designation"; }
      for (int e = 0; e < m.nech; e++)
        if (!same(db->getFromLocator(eloc(T), e, (int)k), m.cols[i].v[e])) { o << "getFromLocator(" << lname(T) << "," << e << "," << k << ") differs from the cell of column " << i; why = o.str(); return "roles-designation"; }
    }
  }
  for (int i = 0; deep && i < ncol; i++)
    if (!roleOf.count(m.cols[i].uid))
    {
      ELoc lt; int li;
      if (db->getLocatorByColIdx(i, &lt, &li)) { o << "column " << i << " has no role but getLocatorByColIdx reports " << lt.getKey() << (li + 1); why = o.str(); return "roles-designation"; }
    }
  // active samples
  {
    int ref = m.nactive(), got = db->getSampleNumber(true), cnt = 0;
    for (int e = 0; e < m.nech; e++) if (db->isActive(e)) cnt++;
    if (cnt != ref) { o << "number of samples with isActive()=" << cnt << " model=" << ref; why = o.str(); return "active-isActive"; }
    if (got != ref)
    {
      bool undef = false;
      int is = m.idxOfUid(m.roles[L_SEL][0]);
      for (int e = 0; e < m.nech; e++) if (FFFF(m.cols[is].v[e])) undef = true;
      o << "getSampleNumber(useSel=true)=" << got << " but " << ref << " samples are active (isActive() is true for " << cnt << " samples; selection column = " << vstr(m.cols[is].v) << ")";
      why = o.str();
      return undef ? "!active-count:undefined-selection-value" : "active-count";
    }
  }
  return "";
}


// ------------------------------------------------------------------------------------------------------------
// read accessors: every way of reading the same data must agree with the model (evaluated once per distinct state,
// after judge() has established that the model equals the implementation cell by cell)
static bool eqv(const VectorDouble& a, const std::vector<double>& b)
{
  if (a.size() != b.size()) return false;
  for (size_t i = 0; i < b.size(); i++) if (!same(a[i], b[i])) return false;
  return true;
}
#define ACC_FAIL(cls, msg) { std::ostringstream o_; o_ << msg; why = o_.str(); return cls; }
// clauses hit by a known defect are recorded without stopping the evaluation of the remaining clauses
static std::vector<std::pair<std::string, std::string>> g_soft;
#define ACC_SOFT(cls, msg) { std::ostringstream o_; o_ << msg; bool dup_ = false; for (auto& x_ : g_soft) if (x_.first == cls) dup_ = true; if (!dup_) g_soft.push_back({cls, o_.str()}); }
static std::string judge_accessors(const Db* db, RefTable& m, std::string& why)
{
  int ncol = m.ncol(), nech = m.nech;
  std::vector<int> live = m.liveUids();
  auto col = [&](int i) -> const std::vector<double>& { return m.cols[i].v; };
  auto cat = [&](const std::vector<int>& idx) { std::vector<double> r; for (int i : idx) r.insert(r.end(), col(i).begin(), col(i).end()); return r; };
  VectorString allNames; for (auto& c : m.cols) allNames.push_back(c.name);

  // ---- one sample across the columns (by increasing UID) / some samples of one column
  for (int e = 0; e < nech; e++)
  {
    std::vector<double> got; db->getArrayBySample(got, e);
    std::vector<double> ref; for (int u : live) ref.push_back(col(m.idxOfUid(u))[e]);
    if (got.size() != ref.size()) ACC_FAIL("accessor-getArrayBySample", "getArrayBySample(" << e << ") returns " << got.size() << " values for " << ref.size() << " columns");
    for (size_t k = 0; k < ref.size(); k++) if (!same(got[k], ref[k])) ACC_FAIL("accessor-getArrayBySample", "getArrayBySample(" << e << ")[" << k << "]=" << fmt(got[k]) << " but the cell of UID " << live[k] << " is " << fmt(ref[k]));
  }
  if (nech > 0)
    for (int u : live)
    {
      VectorInt ie = {nech - 1, 0};
      VectorDouble v(2, -7.);
      db->getArrayVec(ie, u, v);
      int i = m.idxOfUid(u);
      if (!same(v[0], col(i)[nech - 1]) || !same(v[1], col(i)[0])) ACC_FAIL("accessor-getArrayVec", "getArrayVec({last,0}, uid " << u << ") = " << vstr(v) << " cells are " << fmt(col(i)[nech - 1]) << "," << fmt(col(i)[0]));
      if (!eqv(db->getArrayByUID(u, false), col(i))) ACC_FAIL("accessor-getArrayByUID", "getArrayByUID(" << u << ") differs from column " << i);
    }
  // ---- columns and sets of columns
  for (int i = 0; i < ncol; i++)
    if (!eqv(db->getColumnByColIdx(i, false, false), col(i))) ACC_FAIL("accessor-getColumnByColIdx", "getColumnByColIdx(" << i << ") differs from the cells");
  if (ncol > 0)
  {
    std::vector<int> all; for (int i = 0; i < ncol; i++) all.push_back(i);
    std::vector<int> byuid; for (int u : live) byuid.push_back(m.idxOfUid(u));
    std::vector<int> rev = {ncol - 1, 0};
    if (!eqv(db->getColumnsByColIdx({ncol - 1, 0}, false, false), cat(rev))) ACC_FAIL("accessor-getColumnsByColIdx", "getColumnsByColIdx({last,0}) differs from the two columns");
    if (!eqv(db->getColumnsByColIdxInterval(0, ncol, false, false), cat(all))) ACC_FAIL("accessor-getColumnsByColIdxInterval", "getColumnsByColIdxInterval(0,ncol) differs from the table");
    if (!eqv(db->getColumnsByUID({m.cols[ncol - 1].uid, m.cols[0].uid}, false, false), cat(rev))) ACC_FAIL("accessor-getColumnsByUID", "getColumnsByUID({uid of last, uid of first}) differs from the two columns");
    if (!eqv(db->getAllColumns(false, false), cat(byuid))) ACC_FAIL("accessor-getAllColumns", "getAllColumns() differs from the columns taken by increasing UID");
    if ((int)live.size() == m.nuid && !eqv(db->getColumnsByUIDInterval(0, m.nuid, false, false), cat(byuid))) ACC_FAIL("accessor-getColumnsByUIDInterval", "getColumnsByUIDInterval(0,nuid) differs from the table");
    VectorString two;
    two.push_back(m.cols[ncol - 1].name);
    if (ncol > 1) two.push_back(m.cols[0].name);
    if (ncol == 1) rev.pop_back();
    if (!eqv(db->getColumns(two, false, false), cat(rev))) ACC_FAIL("accessor-getColumns", "getColumns({last name, first name}) differs from the two columns");
    VectorVectorDouble vvd = db->getColumnsAsVVD(two, false, false);
    if (vvd.size() != rev.size()) ACC_FAIL("accessor-getColumnsAsVVD", "getColumnsAsVVD returns " << vvd.size() << " columns for " << rev.size() << " names");
    for (size_t k = 0; k < rev.size(); k++) if (!eqv(vvd[k], col(rev[k]))) ACC_FAIL("accessor-getColumnsAsVVD", "getColumnsAsVVD[" << k << "] differs from column " << rev[k]);
    if (nech > 0)
    {
      MatrixRectangular mat = db->getColumnsAsMatrix(two, false, false);
      if (mat.getNRows() != nech || mat.getNCols() != (int)rev.size()) ACC_FAIL("accessor-getColumnsAsMatrix", "getColumnsAsMatrix is " << mat.getNRows() << "x" << mat.getNCols());
      for (size_t k = 0; k < rev.size(); k++) for (int e = 0; e < nech; e++) if (!same(mat.getValue(e, (int)k), col(rev[k])[e])) ACC_FAIL("accessor-getColumnsAsMatrix", "getColumnsAsMatrix(" << e << "," << k << ") differs from the cell");
      VectorInt ie = {nech - 1, 0};
      VectorInt ic = {ncol - 1, 0};
      for (int bs = 0; bs < 2; bs++)
      {
        std::vector<double> ref;
        if (bs) { for (int e : ie) for (int i : ic) ref.push_back(col(i)[e]); } else { for (int i : ic) for (int e : ie) ref.push_back(col(i)[e]); }
        if (!eqv(db->getValuesByColIdx(ie, ic, bs), ref)) ACC_FAIL("accessor-getValuesByColIdx", "getValuesByColIdx({last,0},{last,0},bySample=" << bs << ") differs from the cells");
        if (ncol > 1 && !eqv(db->getValuesByNames(ie, {m.cols[ncol - 1].name, m.cols[0].name}, bs), ref)) ACC_FAIL("accessor-getValuesByNames", "getValuesByNames({last,0},{last name,first name},bySample=" << bs << ") differs from the cells");
      }
      // getItem
      VectorVectorDouble it = db->getItem(m.cols[0].name, false);
      if (it.size() != 1 || !eqv(it[0], col(0))) ACC_FAIL("accessor-getItem", "getItem(first name) differs from column 0");
      it = db->getItem(ie, two, false);
      if (it.size() != rev.size()) ACC_FAIL("accessor-getItem", "getItem(rows,names) returns " << it.size() << " columns");
      for (size_t k = 0; k < rev.size(); k++) if (it[k].size() != 2 || !same(it[k][0], col(rev[k])[nech - 1]) || !same(it[k][1], col(rev[k])[0])) ACC_FAIL("accessor-getItem", "getItem({last,0},names)[" << k << "] differs from the cells of column " << rev[k]);
    }
  }
  // ---- by role
  for (int T : {L_X, L_Z, L_F, L_SEL})
  {
    int n = m.nrole(T);
    std::vector<int> idx; for (int k = 0; k < n; k++) idx.push_back(m.roleCol(T, k));
    if (db->getLocNumber(eloc(T)) != n || db->getFromLocatorNumber(eloc(T)) != n || db->hasLocVariable(eloc(T)) != (n > 0) || db->hasLocator(eloc(T)) != (n > 0))
      ACC_FAIL("accessor-role-count", "getLocNumber/getFromLocatorNumber/hasLocVariable/hasLocator(" << lname(T) << ") disagree with " << n << " columns holding the role");
    if (T == L_Z && db->getZNumber() != n) ACC_FAIL("accessor-role-count", "getZNumber()=" << db->getZNumber() << " model " << n);
    VectorString nm = db->getNamesByLocator(eloc(T)), inm = db->getItemNames(eloc(T));
    VectorInt uu = db->getUIDsByLocator(eloc(T)), cc = db->getColIdxsByLocator(eloc(T));
    if ((int)nm.size() != n || (int)uu.size() != n || (int)cc.size() != n || (int)inm.size() != n) ACC_FAIL("accessor-role-lists", "getNamesByLocator/getUIDsByLocator/getColIdxsByLocator(" << lname(T) << ") sizes " << nm.size() << "/" << uu.size() << "/" << cc.size() << " for " << n << " columns");
    for (int k = 0; k < n; k++)
    {
      if (nm[k] != m.cols[idx[k]].name || inm[k] != nm[k] || uu[k] != m.cols[idx[k]].uid || cc[k] != idx[k]) ACC_FAIL("accessor-role-lists", "rank " << k + 1 << " of role " << lname(T) << ": name/uid/index lists disagree with column " << idx[k]);
      if (!eqv(db->getColumnByLocator(eloc(T), k, false, false), col(idx[k]))) ACC_FAIL("accessor-getColumnByLocator", "getColumnByLocator(" << lname(T) << "," << k << ") differs from column " << idx[k]);
      if (!db->hasLocatorDefined(m.cols[idx[k]].name, eloc(T), k)) ACC_FAIL("accessor-hasLocatorDefined", "hasLocatorDefined('" << m.cols[idx[k]].name << "'," << lname(T) << "," << k << ") is false");
    }
    if (n > 0 && !eqv(db->getColumnsByLocator(eloc(T), false, false), cat(idx))) ACC_FAIL("accessor-getColumnsByLocator", "getColumnsByLocator(" << lname(T) << ") differs from the columns holding the role");
    if (n > 0 && nech > 0)
    {
      VectorVectorDouble it = db->getItem(eloc(T), false);
      if ((int)it.size() != n) ACC_FAIL("accessor-getItem", "getItem(" << lname(T) << ") returns " << it.size() << " columns for " << n);
      for (int k = 0; k < n; k++) if (!eqv(it[k], col(idx[k]))) ACC_FAIL("accessor-getItem", "getItem(" << lname(T) << ")[" << k << "] differs from column " << idx[k]);
    }
    for (int e = 0; e < nech; e++)
    {
      std::vector<double> ref; for (int i : idx) ref.push_back(col(i)[e]);
      if (n > 0 && !eqv(db->getLocVariables(eloc(T), e), ref)) ACC_FAIL("accessor-getLocVariables", "getLocVariables(" << lname(T) << "," << e << ") differs from the cells");
      if (n > 0 && !eqv(db->getSampleLocators(eloc(T), e), ref)) ACC_FAIL("accessor-getSampleLocators", "getSampleLocators(" << lname(T) << "," << e << ") differs from the cells");
      for (int k = 0; k < n; k++)
      {
        if (!same(db->getLocVariable(eloc(T), e, k), ref[k])) ACC_FAIL("accessor-getLocVariable", "getLocVariable(" << lname(T) << "," << e << "," << k << ") differs from the cell");
        if (T == L_Z && !same(db->getZVariable(e, k), ref[k])) ACC_FAIL("accessor-getZVariable", "getZVariable(" << e << "," << k << ") differs from the cell");
      }
    }
  }

  // ---- readers with degenerate lists of names: every column designated once, in the order of first designation
  if (ncol > 1)
  {
    const std::string& n0 = m.cols[0].name; const std::string& nl = m.cols[ncol - 1].name;
    struct DL { VectorString l; } dls[] = {{{nl, n0, nl}}, {{"*", n0}}, {{n0, "nosuchcolumn", "x*", nl}}};
    for (auto& D : dls)
    {
      std::vector<std::string> pl(D.l.begin(), D.l.end());
      std::vector<int> idx = m.expand(pl);
      std::string lab; for (auto& x : D.l) lab += (lab.empty() ? "{" : ",") + std::string(x); lab += "}";
      VectorString gn = db->getNames(D.l);
      VectorInt gu = db->getUIDs(D.l), gc = db->getColIdxs(D.l);
      bool ok = gn.size() == idx.size();
      for (size_t k = 0; ok && k < idx.size(); k++) ok = gn[k] == m.cols[idx[k]].name;
      if (!ok) ACC_FAIL("accessor-degenerate-list:getNames", "getNames(" << lab << ") returns " << gn.size() << " names; the list designates " << idx.size() << " distinct columns");
      if (!idx.empty())
      {
        ok = gu.size() == idx.size() && gc.size() == idx.size();
        for (size_t k = 0; ok && k < idx.size(); k++) ok = gu[k] == m.cols[idx[k]].uid && gc[k] == idx[k];
        if (!ok) ACC_FAIL("accessor-degenerate-list:getUIDs", "getUIDs/getColIdxs(" << lab << ") = " << vstr(gu) << "/" << vstr(gc) << " ; the list designates columns " << vstr(idx));
        if (!eqv(db->getColumns(D.l, false, false), cat(idx))) ACC_FAIL("accessor-degenerate-list:getColumns", "getColumns(" << lab << ") is not the " << idx.size() << " designated columns, each once");
      }
    }
    if (!db->getUIDs(VectorString()).empty() || !db->getColumns(VectorString()).empty() || !db->getNamesByColIdx(VectorInt()).empty() || !db->getNamesByUID(VectorInt()).empty())
      ACC_FAIL("accessor-degenerate-list:empty", "a reader given an empty list returns something");
    VectorInt rep = {ncol - 1, 0, ncol - 1};
    VectorString rn = db->getNamesByColIdx(rep);
    VectorInt ru = db->getUIDsByColIdx(rep);
    if (rn.size() != 3 || rn[0] != nl || rn[1] != n0 || rn[2] != nl || ru.size() != 3 || ru[0] != m.cols[ncol - 1].uid || ru[2] != ru[0])
      ACC_FAIL("accessor-degenerate-list:ByColIdx", "getNamesByColIdx/getUIDsByColIdx({last,0,last}) do not return one entry per element");
  }
  // ---- coordinates of a point Db = the columns holding the X roles
  if (!m.grid)
  {
    int nd = m.nrole(L_X);
    if (db->getNDim() != nd) ACC_FAIL("accessor-getNDim", "getNDim()=" << db->getNDim() << " but " << nd << " columns hold an X role");
    for (int d = 0; d < nd; d++)
    {
      int i = m.roleCol(L_X, d);
      if (!eqv(db->getCoordinates(d, false), col(i))) ACC_FAIL("accessor-getCoordinates", "getCoordinates(" << d << ") differs from column " << i);
      for (int e = 0; e < nech; e++) if (!same(db->getCoordinate(e, d), col(i)[e])) ACC_FAIL("accessor-getCoordinate", "getCoordinate(" << e << "," << d << ") differs from the cell");
    }
    for (int e = 0; e < nech; e++)
    {
      std::vector<double> ref; for (int d = 0; d < nd; d++) ref.push_back(col(m.roleCol(L_X, d))[e]);
      if (!eqv(db->getSampleCoordinates(e), ref)) ACC_FAIL("accessor-getSampleCoordinates", "getSampleCoordinates(" << e << ") differs from the cells");
    }
    VectorVectorDouble ac = db->getAllCoordinates(false);
    if ((int)ac.size() != nd) ACC_FAIL("accessor-getAllCoordinates", "getAllCoordinates() has " << ac.size() << " dimensions");
    for (int d = 0; d < nd; d++) if (!eqv(ac[d], col(m.roleCol(L_X, d)))) ACC_FAIL("accessor-getAllCoordinates", "getAllCoordinates()[" << d << "] differs from the column");
  }
  // ---- lists of names / UIDs / indices
  if (ncol > 0)
  {
    VectorInt ic = {ncol - 1, 0}, iu = {m.cols[ncol - 1].uid, m.cols[0].uid};
    VectorString nn = {m.cols[ncol - 1].name, m.cols[0].name};
    VectorString a = db->getNamesByColIdx(ic), b = db->getNamesByUID(iu);
    if (a.size() != 2 || b.size() != 2 || a[0] != nn[0] || a[1] != nn[1] || b[0] != nn[0] || b[1] != nn[1]) ACC_FAIL("accessor-name-lists", "getNamesByColIdx/getNamesByUID({last,first}) disagree with the names");
    VectorInt u1 = db->getUIDsByColIdx(ic), c1 = db->getColIdxsByUID(iu);
    if (u1.size() != 2 || u1[0] != iu[0] || u1[1] != iu[1] || c1.size() != 2 || c1[0] != ic[0] || c1[1] != ic[1]) ACC_FAIL("accessor-uid-lists", "getUIDsByColIdx/getColIdxsByUID({last,first}) disagree");
    if (ncol > 1)
    {
      VectorInt u2 = db->getUIDs(nn), c2 = db->getColIdxs(nn);
      if (u2.size() != 2 || u2[0] != iu[0] || u2[1] != iu[1] || c2.size() != 2 || c2[0] != ic[0] || c2[1] != ic[1]) ACC_FAIL("accessor-uid-lists", "getUIDs/getColIdxs({last name,first name}) = " << vstr(u2) << "/" << vstr(c2) << " expected " << vstr(iu) << "/" << vstr(ic));
      VectorString g = db->getNames(nn);
      if (g.size() != 2 || g[0] != nn[0] || g[1] != nn[1]) ACC_FAIL("accessor-name-lists", "getNames({last name,first name}) does not return the two names");
    }
    VectorString g1 = db->getName(nn[0]);
    VectorInt c3 = db->getColIdxs(nn[0]);
    if (g1.size() != 1 || g1[0] != nn[0] || c3.size() != 1 || c3[0] != ncol - 1) ACC_FAIL("accessor-name-lists", "getName/getColIdxs('" << nn[0] << "') do not designate the last column only");
    if (db->getLastUID(0) != live.back()) ACC_FAIL("accessor-getLastUID", "getLastUID()=" << db->getLastUID(0) << " but the largest live UID is " << live.back());
    if (db->getLastName(0) != m.cols[m.idxOfUid(live.back())].name) ACC_FAIL("accessor-getLastUID", "getLastName() is not the name of the largest live UID");
    if (live.size() > 1 && db->getLastUID(1) != live[live.size() - 2]) ACC_FAIL("accessor-getLastUID", "getLastUID(1)=" << db->getLastUID(1) << " expected " << live[live.size() - 2]);
  }
  {
    VectorInt au = db->getAllUIDs();
    if (au.size() != live.size()) ACC_FAIL("accessor-getAllUIDs", "getAllUIDs() has " << au.size() << " entries for " << live.size() << " columns");
    for (size_t k = 0; k < live.size(); k++) if (au[k] != live[k]) ACC_FAIL("accessor-getAllUIDs", "getAllUIDs()[" << k << "]=" << au[k] << " expected " << live[k]);
    for (int u = 0; u < m.nuid; u++)
      if (db->isUIDDefined(u) != (m.idxOfUid(u) >= 0)) ACC_SOFT("accessor-isUIDDefined", "isUIDDefined(" << u << ")=" << db->isUIDDefined(u) << " but UID " << u << (m.idxOfUid(u) >= 0 ? " designates column " + std::to_string(m.idxOfUid(u)) : std::string(" was deleted")) << " ; UID->column table = " << vstr(db->_uidcol));
  }
  // ---- selection
  {
    VectorDouble sels = db->getSelections();
    int is = m.selIdx();
    if (is < 0 ? !sels.empty() : !eqv(sels, col(is))) ACC_FAIL("accessor-getSelections", "getSelections() differs from the column holding the SEL role");
    VectorBool act = db->getActiveArray();
    if ((int)act.size() != nech) ACC_FAIL("accessor-getActiveArray", "getActiveArray() has " << act.size() << " entries");
    int rel = 0;
    for (int e = 0; e < nech; e++)
    {
      bool a = m.active(e);
      if ((bool)act[e] != a || (db->getSelection(e) != 0) != a) ACC_FAIL("accessor-getActiveArray", "sample " << e << ": getActiveArray/getSelection disagree with the selection cell " << (is >= 0 ? fmt(col(is)[e]) : std::string("(none)")));
      if (db->getRankAbsoluteToRelative(e) != (a ? rel : (is < 0 ? e : -1))) ACC_FAIL("accessor-sample-ranks", "getRankAbsoluteToRelative(" << e << ")=" << db->getRankAbsoluteToRelative(e) << " expected " << (a ? rel : -1));
      if (a) { if (db->getRankRelativeToAbsolute(rel) != e) ACC_FAIL("accessor-sample-ranks", "getRankRelativeToAbsolute(" << rel << ")=" << db->getRankRelativeToAbsolute(rel) << " expected " << e); rel++; }
    }
    // readers honouring the selection; judged only when every definition of "active" coincides (cells 0, 1 or undefined)
    if (is >= 0 && m.boolSel())
    {
      for (int i = 0; i < ncol; i++)
      {
        std::vector<double> comp, mask;
        for (int e = 0; e < nech; e++) { if (m.active(e)) comp.push_back(col(i)[e]); mask.push_back(m.active(e) ? col(i)[e] : TEST); }
        if (!eqv(db->getColumnByColIdx(i, true, true), comp)) ACC_FAIL("accessor-useSel:getColumnByColIdx", "getColumnByColIdx(" << i << ",useSel,compress) is not the cells of the active samples; selection=" << vstr(col(is)));
        if (!eqv(db->getColumnByColIdx(i, true, false), mask)) ACC_FAIL("accessor-useSel:getColumnByColIdx", "getColumnByColIdx(" << i << ",useSel,no compress) is not the cells with TEST at masked samples");
        if (!eqv(db->getColumn(m.cols[i].name, true, true), comp) || !eqv(db->getColumnByUID(m.cols[i].uid, true, true), comp)) ACC_FAIL("accessor-useSel:getColumn", "getColumn/getColumnByUID(useSel) of column " << i << " disagree with getColumnByColIdx");
        if (!eqv(db->getArrayByUID(m.cols[i].uid, true), comp)) ACC_SOFT("accessor-useSel:getArrayByUID", "getArrayByUID(" << m.cols[i].uid << ",useSel) is not the cells of the active samples");
        if (!comp.empty())
        {
          VectorVectorDouble it = db->getItem(m.cols[i].name, true);
          if (it.size() != 1 || !eqv(it[0], comp)) ACC_FAIL("accessor-useSel:getItem", "getItem('" << m.cols[i].name << "',useSel) is not the cells of the active samples");
        }
      }
      if (!m.grid) for (int d = 0; d < m.nrole(L_X); d++)
      {
        std::vector<double> comp; for (int e = 0; e < nech; e++) if (m.active(e)) comp.push_back(col(m.roleCol(L_X, d))[e]);
        if (!eqv(db->getCoordinates(d, true), comp)) ACC_FAIL("accessor-useSel:getCoordinates", "getCoordinates(" << d << ",useSel) is not the coordinates of the active samples");
      }
    }
  }
  return "";
}

static std::string describe(const History& h)
{
  std::string s;
  for (size_t i = 0; i < h.size(); i++) s += (i ? " ; " : "") + OPS[h[i]].name;
  return s;
}

static int NOPS3 = 1 << 30;  // first index of the degenerate-argument ops (build_ops3)
static int NCORE = 0;  // ops [0,NCORE) = first half of the alphabet (build_ops), the rest = build_ops2
// coreprefix > 0: the first 'coreprefix' positions of a history are restricted to the first half of the alphabet
static void explore(Ctx& C, int start, int depth, int coreprefix = 0)
{
  const char* startName[] = {"empty Db", "Db 2 samples x (x1,x2,z1)", "Db 2 samples x (rank,x1,x2,z1)", "DbGrid 2x2 (rank,x1,x2,z1)", "Db 3 samples x (rank,x1,sel[SEL],z1,w)"};
  bfs(C, (int)OPS.size(), depth, [&](const History& h) -> StepResult {
    // quick tier: the degenerate-argument ops are explored as LAST step only (histories any^k . degenerate)
    bool leafOnly = !C.thorough() && !h.empty() && h.back() >= NOPS3;
    if (!C.thorough()) for (size_t i = 0; i + 1 < h.size(); i++) if (h[i] >= NOPS3) { StepResult r0; r0.enabled = false; r0.expand = false; return r0; }
    for (size_t i = 0; i < h.size() && (int)i < coreprefix; i++)
      if (h[i] >= NCORE && h[i] != OBS) { StepResult r0; r0.enabled = false; r0.expand = false; return r0; }
    RefTable m;
    Db* db = make_start(start, m);
    bool structural = false, observed = false;
    std::string bad, tag;
    for (size_t i = 0; i < h.size(); i++)
    {
      m.requestedUid = -1;
      Step s{db, m, "", false, ""};
      OPS[h[i]].run(s);
      if (s.disabled) { StepResult r0; r0.enabled = false; r0.expand = false; delete db; return r0; }
      if (OPS[h[i]].structural) structural = true;
      observed = (h[i] == OBS);  // observed since the last mutation
      if (i + 1 == h.size()) { bad = s.bad; tag = s.tag; }
      // adopt names after every step, and the cells that the step left unspecified (so that later steps of the
      // model which READ cells - selections, copies, updates - work on the adopted values)
      if (db->getColumnNumber() == m.ncol()) for (int c = 0; c < m.ncol(); c++) m.cols[c].name = db->_colNames[c];
      if (db->getColumnNumber() == m.ncol() && db->getSampleNumber(false) == m.nech)
        for (int c = 0; c < m.ncol(); c++)
          for (int e = 0; e < m.nech; e++)
            if (m.cols[c].unspec[e]) { m.cols[c].v[e] = db->getValueByColIdx(e, c); m.cols[c].unspec[e] = 0; }
    }
    StepResult r;
    r.key = Hash().u(state_key(db)).u(observed).u(leafOnly).h;   // a leaf-only state never shadows the same state reached by an extendable history
    if (leafOnly) r.expand = false;
    static std::unordered_set<uint64_t> apiJudged;
    uint64_t jk = Hash().s(C.cur_part).u(r.key).u(m.gap).h;
    bool deep = !apiJudged.count(jk);
    std::string why;
    std::string cls = judge(db, m, why, deep);
    g_soft.clear();
    if (cls.empty() && deep && !m.gap) { cls = judge_accessors(db, m, why); if (!cls.empty() && cls.rfind("accessor-", 0) == 0) cls = "!" + cls; }
    std::vector<std::pair<std::string, std::string>> soft = g_soft;
    if (cls.empty() && deep) apiJudged.insert(jk);
    if (cls.empty() && deep && m.selIdx() >= 0 && !m.boolSel()) C.outcome("useSel-readers-excluded(selection cells not in {0,1,undefined})");
    C.outcome(deep ? "api-cross-checks-evaluated" : "api-cross-checks-memoized(same hidden state)");
    if (cls.empty() && !bad.empty()) { cls = "return-value"; why = bad; }
    std::string kind = h.empty() ? "start" : OPS[h.back()].kind + tag;
    for (auto& sv : soft)
    {
      // a reader answering wrongly does not corrupt the state: reported, the state is still extended
      C.violation(sv.first, "start=" + std::string(startName[start]) + " history=[" + describe(h) + "] : " + sv.second, hist_str(h));
      C.outcome("reader-defect-reported(state still extended)");
    }
    if (!cls.empty())
    {
      std::string key = kind + ":" + cls;
      if (cls[0] == '!') key = cls.substr(1);                                   // mechanism identified independently of the op
      else if (!tag.empty() && cls.rfind("roles-", 0) == 0) key = kind + ":roles";  // one key per (op, circumstance)
      C.violation(key, "start=" + std::string(startName[start]) + " history=[" + describe(h) + "] : " + why, hist_str(h));
      C.outcome("violating-state-not-extended");
      r.expand = false;
    }
    else if (m.gap) { C.outcome("gap-state-not-extended(explicit out-of-order rank)"); r.expand = false; }
    else C.outcome("consistent");
    if (!h.empty())
    {
      C.outcome("lastop=" + kind);
      bool shifted = false;
      for (int c = 0; c < m.ncol() && c < db->getColumnNumber(); c++) if (m.cols[c].uid != c) shifted = true;
      if (structural && shifted) C.nontrivial(r.key);
      if (C.ps().traces % 20011 == 7) C.sample("{\"start\":" + jstr(startName[start]) + ",\"history\":" + jstr(describe(h)) + ",\"verdict\":" + jstr(cls.empty() ? "consistent" : cls) + "}");
    }
    delete db;
    return r;
  });
}


// ------------------------------------------------------------------------------------------------------------
// out-of-range arguments of the cell mutators / readers: the call must return and leave the table untouched.
// Each call runs in a forked child (a write outside the table corrupts the heap: detected when the Db is freed).
VF_PART(outofrange)
{
  struct Call { const char* name; std::function<void(Db*)> f; };
  std::vector<Call> calls = {
    {"updZVariable(0,item=5,ADD,1)", [](Db* d) { d->updZVariable(0, 5, EOperator::ADD, 1.); }},
    {"updZVariable(last,item=1,ADD,1)", [](Db* d) { d->updZVariable(d->getSampleNumber() - 1, 1, EOperator::ADD, 1.); }},
    {"updLocVariable(F,last,0,ADD,1)[no F role]", [](Db* d) { d->updLocVariable(ELoc::F, d->getSampleNumber() - 1, 0, EOperator::ADD, 1.); }},
    {"updArray(0,uid=99,ADD,1)", [](Db* d) { d->updArray(0, 99, EOperator::ADD, 1.); }},
    {"updArray(99,uid=1,ADD,1)", [](Db* d) { d->updArray(99, 1, EOperator::ADD, 1.); }},
    {"setLocVariable(Z,0,item=7,1)", [](Db* d) { d->setLocVariable(ELoc::Z, 0, 7, 1.); }},
    {"setZVariable(99,0,1)", [](Db* d) { d->setZVariable(99, 0, 1.); }},
    {"setArrayBySample(99,vec)", [](Db* d) { d->setArrayBySample(99, VectorDouble(d->getColumnNumber(), 1.)); }},
    {"setArray(0,deleted uid,1)", [](Db* d) { d->setArray(0, 0, 1.); }},
    {"setCoordinate(99,0,1)", [](Db* d) { d->setCoordinate(99, 0, 1.); }},
    {"setValueByColIdx(0,99,1)", [](Db* d) { d->setValueByColIdx(0, 99, 1.); }},
    {"setValuesByColIdx({0},{99},{1})", [](Db* d) { d->setValuesByColIdx({0}, {99}, {1.}); }},
    {"setItem({99},name,{1})", [](Db* d) { d->setItem(VectorInt{99}, d->getNameByColIdx(0), VectorDouble{1.}); }},
    {"setColumnByColIdx(tab,99)", [](Db* d) { d->setColumnByColIdx(VectorDouble(d->getSampleNumber(), 1.), 99); }},
    {"setColumnByUID(tab,deleted uid)", [](Db* d) { d->setColumnByUID(VectorDouble(d->getSampleNumber(), 1.), 0); }},
    {"copyByCol(0,99)", [](Db* d) { d->copyByCol(0, 99); }},
    {"copyByUID(deleted uid,2)", [](Db* d) { d->copyByUID(0, 2); }},
    {"deleteSample(99)", [](Db* d) { d->deleteSample(99); }},
    {"addSelectionByRanks({0,99})", [](Db* d) { Db* c = d->clone(); c->addSelectionByRanks({0, 99}, "selbad"); delete c; /* on a copy: only the memory safety is judged */ }},
    {"deleteSamples({99,0})", [](Db* d) { d->deleteSamples({99, 0}); }},
    {"deleteColumnByColIdx(99)", [](Db* d) { d->deleteColumnByColIdx(99); }},
    {"setNameByColIdx(99,'q')", [](Db* d) { d->setNameByColIdx(99, "q"); }},
    {"setLocatorByColIdx(99,Z,0)", [](Db* d) { d->setLocatorByColIdx(99, ELoc::Z, 0); }},
    {"getColumnByColIdx(99)+getValuesByColIdx({0},{99})+getItem({99},name)", [](Db* d) { (void)d->getColumnByColIdx(99); (void)d->getValuesByColIdx({0}, {99}); (void)d->getItem(VectorInt{99}, d->getNameByColIdx(0)); }},
  };
  // a reader which cannot be called in-process today (heap overflow): judged in a forked child against the model
  if (owns_part(C) || !C.only_case.empty())
  {
    bool doit = C.only_case.empty() || C.only_case == "getAllCoordinatesMat";
    if (doit)
    {
      C.cur_case = "getAllCoordinatesMat";
      ChildResult cr = run_child([&](int wfd) {
        RefTable m;
        Db* db = make_start(4, m);   // selection {1,0,1}: samples 0 and 2 are active, one coordinate x1
        MatrixRectangular mat = db->getAllCoordinatesMat();
        std::ostringstream o;
        bool ok = mat.getNRows() == 2 && mat.getNCols() == 1;
        if (ok) ok = same(mat.getValue(0, 0), 0.5) && same(mat.getValue(1, 0), 2.5);
        o << (ok ? "OK" : "BAD") << " " << mat.getNRows() << "x" << mat.getNCols();
        if (mat.getNRows() == 2 && mat.getNCols() == 1) o << " rows=(" << mat.getValue(0, 0) << "," << mat.getValue(1, 0) << ")";
        child_write(wfd, o.str() + "\n");
        delete db;
        return 0;
      }, 20., 0);
      C.eval(); C.nontrivial(Hash().s("getAllCoordinatesMat").h);
      if (!cr.clean() || cr.code != 0 || cr.data.rfind("OK", 0) != 0)
      {
        C.violation("accessor-getAllCoordinatesMat", "start=Db 3 samples x (rank,x1,sel[SEL]={1,0,1},z1,w): getAllCoordinatesMat() must be the 2x1 matrix (0.5, 2.5) of the active samples; got: " + (cr.data.empty() ? cr.describe() : cr.data.substr(0, 80)) + " [" + cr.describe() + "] (row index = absolute sample rank: write outside the matrix)", "getAllCoordinatesMat");
        C.outcome("getAllCoordinatesMat-wrong");
      }
      else C.outcome("getAllCoordinatesMat-ok");
    }
    if (!C.only_case.empty() && C.only_case == "getAllCoordinatesMat") return;
  }
  Space sp;
  sp.axis("call", (int)calls.size()).axis("start", 2);
  for_each_case(C, sp, [&](uint64_t id, const std::vector<int>& idx) {
    const Call& c = calls[idx[0]];
    ChildResult cr = run_child([&](int wfd) {
      RefTable m;
      Db* db = make_start(idx[1] ? 3 : 1, m);
      db->deleteColumnByUID(0);                      // UID != column index from now on
      db->addColumnsByConstant(1, 1., "sel", ELoc::SEL);
      std::string before = db_snapshot(db);
      c.f(db);
      std::string after = db_snapshot(db);
      delete db;                                     // heap check
      child_write(wfd, before == after ? "SAME\n" : "CHANGED\n");
      return 0;
    }, 20., 0);
    C.eval();
    C.nontrivial(id);
    std::string what = std::string("start=") + (idx[1] ? "DbGrid 2x2" : "Db 2x3") + " after deleteColumnByUID(0), addColumnsByConstant(sel,SEL) ; call " + c.name;
    std::string cname = c.name; cname = cname.substr(0, cname.find('('));
    if (!cr.clean() || cr.code != 0 || (cr.data != "SAME\n" && cr.data != "CHANGED\n"))
    { C.violation("outofrange:" + cname + ":unchecked-index", what + " : the process ended with " + cr.describe() + " (write outside the table)", std::to_string(id)); C.outcome("crash"); }
    else if (cr.data == "CHANGED\n") { C.violation("outofrange:" + cname + ":unchecked-index", what + " : the table changed although the designation is out of range", std::to_string(id)); C.outcome("changed"); }
    else C.outcome("refused-cleanly");
  });
}

VF_PART(db_plain) { explore(C, 1, 3); }
VF_PART(db_plain_deep) { if (C.thorough()) explore(C, 1, 4, 3); }
VF_PART(db_rank) { explore(C, 2, C.thorough() ? 3 : 2); }
VF_PART(db_empty) { explore(C, 0, 3); }
VF_PART(db_empty_deep) { if (C.thorough()) explore(C, 0, 4, 3); }
VF_PART(grid) { explore(C, 3, C.thorough() ? 3 : 2); }
VF_PART(db_sel) { explore(C, 4, 3); }

int main(int argc, char** argv)
{
  if (getenv("C07_LISTOPS")) { build_ops(); NCORE = (int)OPS.size(); build_ops2(); build_ops3(); for (size_t i = 0; i < OPS.size(); i++) printf("%zu %s\n", i, OPS[i].name.c_str()); return 0; }
  return run_main(argc, argv, [](Ctx&) { silence(); build_ops(); NCORE = (int)OPS.size(); build_ops2(); NOPS3 = (int)OPS.size(); build_ops3(); }, [](Ctx& C) { write_states(C); });
}
