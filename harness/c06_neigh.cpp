// C06 — moving-neighbourhood search returns exactly the specified samples; ball-tree k-NN is exact.
//
// Engine E1 (product enumeration) against a reference model written here.
//
// Reference model of one neighbourhood (traceable to the property statement):
//   candidates  = samples that are active (selection), defined (at least one Z defined), not the target / not in
//                 the target's fold when cross-validating, passing every extra pair checker, and whose anisotropic
//                 distance to the target is <= radius.  Anisotropic distance: increment expressed in the frame of the
//                 ellipse (first axis at `angle` degrees counter-clockwise from x, as drawn by NeighMoving::getEllipsoid /
//                 getSectors), each component divided by its coefficient, Euclidean norm.
//   sectors     = nsect equal angular sectors of the (scaled) ellipse frame, boundaries at 2*pi*i/nsect
//                 (NeighMoving::getSectors draws exactly these).  The property fixes neither the numbering of the
//                 sectors, nor the sector the dealing starts from, nor the sign of the increment.  The DECIDING oracle is
//                 therefore numbering-independent:
//                   (a) S is a subset of the candidates,
//                   (b) in every sector S is a closest-first prefix, of length <= nsmax,
//                   (c) |S| = min(nmaxi, sum_k min(m_k, nsmax)),
//                   (d) round-robin fairness: share(a) >= share(b)+2  implies  sector b is exhausted,
//                   (e) S is empty when fewer than nmini samples qualify.
//                 For odd nsect the partition depends on the sign of the increment: both signs are tried, a violation
//                 needs both to fail.  The literal convention "sector = floor(nsect*angle/2pi) of (target-datum), deal
//                 from sector 0" is compared too, but only reported in the histogram (information).
//   boundaries  = a candidate exactly on a sector boundary (decided exactly: rational coordinates => only multiples of 45 deg
//                 can be boundaries) or at the target is NOT excluded: it may count in either adjacent sector (any sector for
//                 the null increment) and the answer is accepted iff SOME such assignment satisfies (a)-(e).
//   excluded    = what the property excludes, detected by the reference and counted: a candidate exactly on the radius,
//                 a distance tie at a cut (membership then not judged, counts still are),
//                 and the case "enough candidates, but fewer than nmini left after the per-sector quota", where the word
//                 "qualify" of the statement is ambiguous (either answer accepted).
//
// Finding keys (mechanism): <channel>:<what>[:<config class>], e.g. select:not-closest-first:sectors,
//   select:outside-radius:ndim=3:no-coeffs, ball:not-closest-first:aniso, knn:distances, summary:maxdist:sectors.
#include "vf/gst.hpp"
#include "vf/fork.hpp"
#include <malloc.h>

#include "Basic/NamingConvention.hpp"
#include "Covariances/CovAniso.hpp"
#include "Estimation/CalcKriging.hpp"
#include "Faults/Faults.hpp"
#include "Geometry/BiTargetCheckBench.hpp"
#include "Geometry/BiTargetCheckCode.hpp"
#include "Geometry/BiTargetCheckFaults.hpp"
#include "Model/Model.hpp"
#include "Neigh/NeighMoving.hpp"
#include "Space/ASpaceObject.hpp"
#include "Space/SpacePoint.hpp"
#include "Tree/Ball.hpp"
#include "Tree/KNN.hpp"

#include <algorithm>
#include <array>

using namespace vf;

// ------------------------------------------------------------------------------------------------
// reference model
typedef std::array<double, 3> P3;

struct NbCase
{
  int ndim = 2;
  std::vector<P3> pts;          // every sample of the input Db (Db order)
  std::vector<char> active;     // selection
  std::vector<char> defined;    // at least one Z defined
  std::vector<int> code;        // fold codes (k-fold) / codes for the code checker
  P3 tgt {0, 0, 0};
  int tgtIdx = -1;              // rank of the target in the input Db when cross-validating
  int tgtCode = 0;
  int xmode = 0;                // 0 none, 1 leave-one-out, 2 k-fold
  double radius = TEST;         // TEST = unbounded
  bool hasCoef = false;
  P3 coef {1, 1, 1};
  double theta = 0;             // degrees, rotation around z
  int nmini = 1, nmaxi = 100, nsect = 1, nsmax = 0;  // nsmax <= 0: no quota
  // extra pair checkers
  int benchDim = -1; double benchWidth = 0;         // |x_d(target) - x_d(datum)| <= width
  int codeOpt = 0;                                  // 1: codes equal, 2: codes different
  bool fault = false; double fx0 = 0, fy0 = 0, fx1 = 0, fy1 = 0;  // one fault segment
  bool xByLocation = false; // leave-one-out with a target Db different from the input Db: 'the target itself' = a datum at the target's location
  bool noZ = false;        // input Db without any Z variable: no sample can be 'undefined'
  bool nsmaxZero = false;  // pass nsmax = 0 literally (instead of the default ITEST) for 'no quota'
};

struct Cand { int idx; double d; double u, v; int secA, secB; std::vector<int> optA, optB; };   // opt*: admissible sectors (several when on a boundary)

struct RefOut
{
  std::vector<Cand> cand;
  std::vector<std::string> whyNot;  // per sample: reason it is not a candidate ("" = candidate)
  bool onRadius = false;
  int nAmbiguous = 0;   // candidates exactly on a sector boundary (or at the target): they may be counted in either adjacent sector
  double dmax = 0;
};

static int sgnll(double v) { return v > 0 ? 1 : v < 0 ? -1 : 0; }
static double crossd(double ax, double ay, double bx, double by, double cx, double cy) { return (bx - ax) * (cy - ay) - (cx - ax) * (by - ay); }
// proper crossing of two segments; -1 if degenerate (touching) -> excluded
static int segCross(double ax, double ay, double bx, double by, double cx, double cy, double dx, double dy)
{
  double d1 = crossd(ax, ay, bx, by, cx, cy), d2 = crossd(ax, ay, bx, by, dx, dy), d3 = crossd(cx, cy, dx, dy, ax, ay), d4 = crossd(cx, cy, dx, dy, bx, by);
  if (std::fabs(d1) < 1e-9 || std::fabs(d2) < 1e-9 || std::fabs(d3) < 1e-9 || std::fabs(d4) < 1e-9) return -1;
  return (sgnll(d1) * sgnll(d2) < 0 && sgnll(d3) * sgnll(d4) < 0) ? 1 : 0;
}

static void frameIncr(const NbCase& c, const P3& a, const P3& b, double w[3])
{
  // increment a-b in the ellipse frame, scaled by the coefficients
  double inc[3] = {a[0] - b[0], c.ndim > 1 ? a[1] - b[1] : 0., c.ndim > 2 ? a[2] - b[2] : 0.};
  double th = c.theta * M_PI / 180.;
  double cs = std::cos(th), sn = std::sin(th);
  // the library uses exact sines / cosines for these four angles (GH::rotationGetSinCos)
  if (c.theta == 0) { cs = 1; sn = 0; }
  if (c.theta == 90) { cs = 0; sn = 1; }
  if (c.theta == 180) { cs = -1; sn = 0; }
  if (c.theta == 270) { cs = 0; sn = -1; }
  w[0] = inc[0] * cs + inc[1] * sn;
  w[1] = -inc[0] * sn + inc[1] * cs;
  w[2] = inc[2];
  if (c.hasCoef) for (int d = 0; d < 3; d++) w[d] /= c.coef[d];
}

// Admissible sectors of the direction (u,v): one sector, or the two adjacent ones when the direction lies on a sector
// boundary, or every sector for the null increment (a datum at the target has no direction).
// Boundary membership is decided exactly for the directions that can be on a boundary at all: all coordinates are
// (dyadic) rationals, and a direction with rational coordinates has an angle that is a rational multiple of pi only if
// it is a multiple of 45 degrees (u == 0, v == 0 or |u| == |v|, tested exactly); such a direction a45*45 deg is on a
// boundary of the partition iff a45*45*nsect is a multiple of 360. Every other direction is interior (an epsilon test on
// the floating-point angle is kept as a guard and only widens the admissible set).
static void sectorOptions(double u, double v, int nsect, std::vector<int>& opts)
{
  opts.clear();
  if (u == 0 && v == 0) { for (int k = 0; k < nsect; k++) opts.push_back(k); return; }
  int a45 = -1;
  if (v == 0) a45 = u > 0 ? 0 : 4;
  else if (u == 0) a45 = v > 0 ? 2 : 6;
  else if (std::fabs(u) == std::fabs(v)) a45 = u > 0 ? (v > 0 ? 1 : 7) : (v > 0 ? 3 : 5);
  if (a45 >= 0)
  {
    int num = a45 * 45 * nsect;   // sector coordinate t = num / 360
    if (num % 360 == 0) { int i = (num / 360) % nsect; opts.push_back(i); opts.push_back((i + nsect - 1) % nsect); }
    else opts.push_back((num / 360) % nsect);
    return;
  }
  double ang = std::atan2(v, u);
  if (ang < 0) ang += 2 * M_PI;
  double t = ang * nsect / (2 * M_PI);
  if (std::fabs(t - std::round(t)) < 1e-9) { int i = ((int)std::llround(t)) % nsect; opts.push_back(i); opts.push_back((i + nsect - 1) % nsect); return; }
  int sct = (int)std::floor(t);
  if (sct >= nsect) sct = nsect - 1;
  if (sct < 0) sct = 0;
  opts.push_back(sct);
}

static RefOut reference(const NbCase& c)
{
  RefOut r;
  int n = (int)c.pts.size();
  r.whyNot.assign(n, "");
  bool sectors = c.ndim > 1 && c.nsect > 1;
  for (int i = 0; i < n; i++)
  {
    if (!c.active[i]) { r.whyNot[i] = "masked"; continue; }
    if (!c.defined[i]) { r.whyNot[i] = "undefined"; continue; }
    if (c.xmode == 1 && i == c.tgtIdx) { r.whyNot[i] = "xvalid-target"; continue; }
    if (c.xmode == 1 && c.xByLocation && c.pts[i][0] == c.tgt[0] && c.pts[i][1] == c.tgt[1] && c.pts[i][2] == c.tgt[2]) { r.whyNot[i] = "xvalid-target"; continue; }
    if (c.xmode == 2 && c.code[i] == c.tgtCode) { r.whyNot[i] = "xvalid-fold"; continue; }
    if (c.benchDim >= 0 && std::fabs(c.tgt[c.benchDim] - c.pts[i][c.benchDim]) > c.benchWidth) { r.whyNot[i] = "bench"; continue; }
    if (c.codeOpt == 1 && c.code[i] != c.tgtCode) { r.whyNot[i] = "code"; continue; }
    if (c.codeOpt == 2 && c.code[i] == c.tgtCode) { r.whyNot[i] = "code"; continue; }
    if (c.fault)
    {
      int x = segCross(c.tgt[0], c.tgt[1], c.pts[i][0], c.pts[i][1], c.fx0, c.fy0, c.fx1, c.fy1);
      if (x < 0) r.onRadius = true;  // degenerate: counted with the boundary exclusions
      if (x == 1) { r.whyNot[i] = "fault"; continue; }
    }
    double w[3];
    frameIncr(c, c.tgt, c.pts[i], w);
    double d = std::sqrt(w[0] * w[0] + w[1] * w[1] + w[2] * w[2]);
    if (!FFFF(c.radius))
    {
      if (std::fabs(d - c.radius) <= 1e-9 * c.radius) r.onRadius = true;
      if (d > c.radius) { r.whyNot[i] = "outside-radius"; continue; }
    }
    Cand k {i, d, w[0], w[1], 0, 0};
    if (sectors)
    {
      sectorOptions(w[0], w[1], c.nsect, k.optA);
      sectorOptions(-w[0], -w[1], c.nsect, k.optB);
      k.secA = k.optA[0]; k.secB = k.optB[0];
      if (k.optA.size() > 1) r.nAmbiguous++;
    }
    r.dmax = std::max(r.dmax, d);
    r.cand.push_back(k);
  }
  return r;
}

// literal re-implementation of the current convention (information only)
static std::vector<int> literal(const NbCase& c, const RefOut& r)
{
  std::vector<int> out;
  int m = (int)r.cand.size();
  if (m < c.nmini) return out;
  bool sectors = c.ndim > 1 && c.nsect > 1;
  int ns = sectors ? c.nsect : 1;
  std::vector<Cand> s = r.cand;
  std::stable_sort(s.begin(), s.end(), [](const Cand& a, const Cand& b) { return a.d < b.d; });
  std::vector<std::vector<int>> per(ns);
  for (auto& k : s) { int sec = sectors ? k.secA : 0; if (sectors && c.nsmax > 0 && (int)per[sec].size() >= c.nsmax) continue; per[sec].push_back(k.idx); }
  int total = 0; for (auto& p : per) total += (int)p.size();
  std::vector<int> take(ns, 0);
  if (c.nmaxi <= 0 || total < c.nmaxi) for (int k = 0; k < ns; k++) take[k] = (int)per[k].size();
  else
  {
    int number = 0;
    while (number < c.nmaxi)
      for (int k = 0; k < ns; k++)
      {
        if (take[k] >= (int)per[k].size()) continue;
        take[k]++; number++;
        if (number >= c.nmaxi) break;
      }
  }
  for (int k = 0; k < ns; k++) for (int j = 0; j < take[k]; j++) out.push_back(per[k][j]);
  std::sort(out.begin(), out.end());
  return out;
}

struct Verdict { std::string bad; std::string text; bool tieAtCut = false; bool ambiguousNmini = false; bool quotaBinds = false, nmaxiBinds = false; };

// judge a returned set under one sector orientation (useB: sign of the increment flipped)
static Verdict judgeOne(const NbCase& c, const RefOut& r, const std::vector<int>& S, bool useB)
{
  Verdict v;
  int n = (int)c.pts.size();
  bool sectors = c.ndim > 1 && c.nsect > 1;
  int ns = sectors ? c.nsect : 1;
  std::vector<char> inS(n, 0);
  for (int i : S)
  {
    if (i < 0 || i >= n) { v.bad = "rank-out-of-range"; v.text = "returned rank " + std::to_string(i); return v; }
    if (inS[i]) { v.bad = "duplicate-rank"; v.text = "rank " + std::to_string(i) + " returned twice"; return v; }
    inS[i] = 1;
    if (!r.whyNot[i].empty()) { v.bad = r.whyNot[i]; v.text = "sample " + std::to_string(i) + " was returned although it is excluded (" + r.whyNot[i] + ")"; return v; }
  }
  int m = (int)r.cand.size();
  if (m < c.nmini)
  {
    if (!S.empty()) { v.bad = "nmini-not-empty"; v.text = "only " + std::to_string(m) + " samples qualify (< nmini=" + std::to_string(c.nmini) + ") but " + std::to_string(S.size()) + " were returned"; }
    return v;
  }
  std::vector<std::vector<Cand>> per(ns);
  for (auto& k : r.cand) per[sectors ? (useB ? k.secB : k.secA) : 0].push_back(k);
  int total = 0;
  std::vector<int> kept(ns), share(ns, 0);
  for (int k = 0; k < ns; k++)
  {
    std::sort(per[k].begin(), per[k].end(), [](const Cand& a, const Cand& b) { return a.d < b.d; });
    kept[k] = (int)per[k].size();
    if (sectors && c.nsmax > 0 && kept[k] > c.nsmax) { kept[k] = c.nsmax; v.quotaBinds = true; }
    total += kept[k];
    for (auto& q : per[k]) if (inS[q.idx]) share[k]++;
  }
  if (total < c.nmini) { v.ambiguousNmini = true; if (S.empty()) return v; }
  int expect = (c.nmaxi > 0) ? std::min(c.nmaxi, total) : total;
  if (c.nmaxi > 0 && total > c.nmaxi) v.nmaxiBinds = true;
  if (S.empty() && expect > 0) { v.bad = "empty-but-enough"; v.text = std::to_string(m) + " samples qualify (>= nmini=" + std::to_string(c.nmini) + ") but the neighbourhood is empty"; return v; }
  double tieeps = 1e-7 * std::max(r.dmax, 1e-300);
  for (int k = 0; k < ns; k++)
  {
    if (share[k] > kept[k]) { v.bad = "sector-quota"; v.text = "a sector holds " + std::to_string(share[k]) + " selected samples, quota nsmax=" + std::to_string(c.nsmax); return v; }
    // closest-first prefix: every selected sample is closer than every unselected candidate of the same sector
    double worstIn = -1, bestOut = 1e300; int wi = -1, bo = -1;
    for (auto& q : per[k]) { if (inS[q.idx]) { if (q.d > worstIn) { worstIn = q.d; wi = q.idx; } } else if (q.d < bestOut) { bestOut = q.d; bo = q.idx; } }
    if (wi >= 0 && bo >= 0)
    {
      if (std::fabs(worstIn - bestOut) <= tieeps) v.tieAtCut = true;
      else if (worstIn > bestOut)
      {
        v.bad = "not-closest-first";
        v.text = "sample " + std::to_string(wi) + " (distance " + fmt(worstIn) + ") is selected while the closer sample " + std::to_string(bo) + " (distance " + fmt(bestOut) + ") of the same sector is not";
        return v;
      }
    }
  }
  if ((int)S.size() != expect)
  {
    v.bad = "size";
    v.text = "returned " + std::to_string(S.size()) + " samples, the definition gives min(nmaxi, candidates within quota) = " + std::to_string(expect);
    return v;
  }
  for (int a = 0; a < ns; a++)
    for (int b = 0; b < ns; b++)
      if (share[a] >= share[b] + 2 && share[b] < kept[b])
      {
        v.bad = "unfair-dealing";
        v.text = "a sector received " + std::to_string(share[a]) + " slots while another one, not exhausted (" + std::to_string(kept[b]) + " available), received " + std::to_string(share[b]);
        return v;
      }
  return v;
}

static std::string caseText(const NbCase& c, const std::vector<int>& S)
{
  std::ostringstream o;
  o.precision(10);
  o << "ndim=" << c.ndim << " target=(" << c.tgt[0];
  for (int d = 1; d < c.ndim; d++) o << "," << c.tgt[d];
  o << ") radius=" << (FFFF(c.radius) ? std::string("inf") : fmt(c.radius));
  if (c.hasCoef) { o << " coeffs=(" << c.coef[0]; for (int d = 1; d < c.ndim; d++) o << "," << c.coef[d]; o << ") angle=" << c.theta; } else o << " no-coeffs";
  o << " nmini=" << c.nmini << " nmaxi=" << c.nmaxi << " nsect=" << c.nsect << " nsmax=" << c.nsmax << " xvalid=" << c.xmode;
  if (c.xmode) o << " target-rank-in-input-db=" << c.tgtIdx;
  if (c.xmode == 2) { o << " target-fold-code=" << c.tgtCode << " sample-codes=["; for (size_t i = 0; i < c.code.size(); i++) o << (i ? "," : "") << c.code[i]; o << "]"; }
  o << " samples=[";
  for (size_t i = 0; i < c.pts.size(); i++)
  {
    o << (i ? " " : "") << "(" << c.pts[i][0];
    for (int d = 1; d < c.ndim; d++) o << "," << c.pts[i][d];
    o << ")" << (c.active[i] ? "" : "M") << (c.defined[i] ? "" : "U");
  }
  o << "] returned=" << vstr(S);
  return o.str();
}

// full judgement + bookkeeping. channel = "select" / "krigtest" / "ball" ...; cls = configuration class appended to the key
static bool judge(Ctx& C, const NbCase& c, const std::vector<int>& Sin, const std::string& channel, const std::string& kase, uint64_t sig, bool info = true)
{
  std::vector<int> S = Sin;
  std::sort(S.begin(), S.end());
  RefOut r = reference(c);
  C.eval();
  if (r.onRadius) { C.skip(); C.outcome("excluded:candidate-on-the-radius-or-fault"); return true; }
  bool sectors = c.ndim > 1 && c.nsect > 1;
  Verdict v = judgeOne(c, r, S, false);
  if (!v.bad.empty() && sectors && (c.nsect % 2 == 1))
  {
    Verdict w = judgeOne(c, r, S, true);
    if (w.bad.empty()) { v = w; C.outcome("info:odd-nsect-partition-is-that-of-(datum-target)"); }
  }
  if (sectors && r.nAmbiguous > 0)
  {
    // candidates exactly on a sector boundary (or at the target): the returned set is accepted iff SOME admissible
    // assignment of those candidates to their adjacent sectors satisfies the definition. Nothing else is excluded.
    std::vector<int> amb;
    double prod = 1;
    for (size_t k = 0; k < r.cand.size(); k++) if (r.cand[k].optA.size() > 1) { amb.push_back((int)k); prod *= (double)r.cand[k].optA.size(); }
    if (prod > 20000) { C.skip(); C.outcome("excluded:too-many-candidates-on-sector-boundaries"); return true; }
    C.outcome("boundary-candidates-assigned-to-either-adjacent-sector");
    for (int orient = 0; orient < ((c.nsect % 2 == 1) ? 2 : 1) && !v.bad.empty(); orient++)
    {
      std::vector<size_t> digit(amb.size(), 0);
      for (;;)
      {
        for (size_t a = 0; a < amb.size(); a++)
        {
          Cand& q = r.cand[amb[a]];
          if (orient == 0) q.secA = q.optA[digit[a]]; else q.secB = q.optB[digit[a] % q.optB.size()];
        }
        Verdict w = judgeOne(c, r, S, orient == 1);
        if (w.bad.empty()) { v = w; break; }
        size_t a = 0;
        while (a < amb.size()) { if (++digit[a] < r.cand[amb[a]].optA.size()) break; digit[a] = 0; a++; }
        if (a == amb.size()) break;
      }
    }
    for (int a : amb) { r.cand[a].secA = r.cand[a].optA[0]; r.cand[a].secB = r.cand[a].optB[0]; }
  }
  if (!v.bad.empty())
  {
    std::string cls = sectors ? ":sectors" : ":single-sector";
    bool aniso = c.hasCoef && (c.coef[0] != c.coef[1] || (c.ndim == 3 && c.coef[2] != c.coef[0]));
    if (v.bad == "outside-radius" || v.bad == "not-closest-first")
    {
      if (c.hasCoef && c.theta != 0) cls += ":rotated";
      else if (aniso) cls += ":aniso";
    }
    if (c.xmode && (v.bad == "xvalid-target" || v.bad == "xvalid-fold")) cls = "";
    std::string key = channel + ":" + v.bad + cls;
    // mechanism: without coefficients the distance checker works on the first two coordinates whatever the space dimension
    if (!c.hasCoef && c.ndim != 2) key = channel + ":radius-without-coeffs-uses-2-coordinates:ndim=" + std::to_string(c.ndim);
    // mechanism: the ball tree pre-selects the nmaxi Euclidean-nearest samples before anisotropy / sectors are looked at
    if (channel == "ball" && (v.bad == "not-closest-first" || v.bad == "size" || v.bad == "unfair-dealing"))
      key = std::string("ball:euclidean-preselection") + (sectors ? ":sectors" : "") + (aniso ? ":aniso" : "");
    C.violation(key, v.text + " :: " + caseText(c, S), kase);
    C.outcome("VIOLATION:" + v.bad);
    return false;
  }
  if (v.ambiguousNmini) C.outcome("accepted:fewer-than-nmini-left-after-quota(ambiguous)");
  if (v.tieAtCut) C.outcome("excluded:tie-at-a-cut(membership-not-judged)");
  std::string oc = S.empty() ? "ok:empty(<nmini)" : v.quotaBinds && v.nmaxiBinds ? "ok:quota+nmaxi-bind" : v.quotaBinds ? "ok:quota-binds" : v.nmaxiBinds ? (sectors ? "ok:nmaxi-binds-dealing" : "ok:nmaxi-closest") : "ok:all-candidates";
  C.outcome(oc);
  if (v.quotaBinds || v.nmaxiBinds || (S.empty() && !r.cand.empty())) C.nontrivial(sig);
  if (info)
  {
    std::vector<int> lit = literal(c, r);
    if (v.ambiguousNmini || v.tieAtCut || (sectors && r.nAmbiguous > 0)) {}
    else if (lit == S) C.outcome("info:equals-literal-convention");
    else C.outcome("info:convention_changes(differs-from-literal-but-satisfies-definition)");
  }
  return true;
}

// ------------------------------------------------------------------------------------------------
// building the real objects
static Db* buildDb(const NbCase& c, bool withCode)
{
  std::vector<std::vector<double>> x(c.ndim), z(1);
  for (size_t i = 0; i < c.pts.size(); i++)
  {
    for (int d = 0; d < c.ndim; d++) x[d].push_back(c.pts[i][d]);
    z[0].push_back(c.defined[i] ? 1. + 0.5 * (double)i : TEST);
  }
  Db* db = c.noZ ? make_db_xz(x, {}) : make_db_xz(x, z);
  bool anyMask = false;
  for (char a : c.active) if (!a) anyMask = true;
  if (anyMask)
  {
    VectorDouble sel;
    for (char a : c.active) sel.push_back(a ? 1. : 0.);
    db->addColumns(sel, "sel", ELoc::SEL);
  }
  if (withCode)
  {
    VectorDouble cd;
    for (int k : c.code) cd.push_back((double)k);
    db->addColumns(cd, "code", ELoc::C);
  }
  return db;
}
static Db* buildTarget(const NbCase& c)
{
  std::vector<std::vector<double>> x(c.ndim);
  for (int d = 0; d < c.ndim; d++) x[d].push_back(c.tgt[d]);
  return make_db_xz(x, {});
}
static NeighMoving* buildNeigh(const NbCase& c)
{
  VectorDouble coef, ang;
  if (c.hasCoef)
  {
    for (int d = 0; d < c.ndim; d++) coef.push_back(c.coef[d]);
    if (c.theta != 0) { ang.push_back(c.theta); for (int d = 1; d < c.ndim; d++) ang.push_back(0.); }
  }
  NeighMoving* nb = NeighMoving::create(c.xmode != 0, c.nmaxi, c.radius, c.nmini, c.nsect, c.nsmax > 0 ? c.nsmax : (c.nsmaxZero ? 0 : ITEST), coef, ang);
  if (c.xmode == 2) nb->setFlagKFold(true);
  return nb;
}
static std::vector<int> toStd(const VectorInt& v) { return std::vector<int>(v.begin(), v.end()); }

static int curDim = 0;
static void setDim(int ndim) { if (curDim != ndim) { defineDefaultSpace(ESpaceType::RN, ndim); curDim = ndim; } }

// ------------------------------------------------------------------------------------------------
// menus
static P3 jit(int i, int j) { return P3 {i + ((3 * i + 5 * j) % 7) / 64., j + ((5 * i + 3 * j) % 11) / 128., 0.}; }
static std::vector<P3> lattice2(int L)
{
  std::vector<P3> p;
  for (int j = 0; j < L; j++) for (int i = 0; i < L; i++) p.push_back(jit(i, j));
  return p;
}
static const std::vector<P3>& targets2()
{
  static std::vector<P3> t = {{0.37, 0.21, 0}, {1.13, 0.81, 0}, {1.61, 1.47, 0}, {-0.45, 0.93, 0}, {2.71, 2.33, 0}, {1.01, 0.99, 0}};
  return t;
}
struct Aniso { bool has; double c0, c1, theta; };
static const std::vector<Aniso>& anisos()
{
  static std::vector<Aniso> a = {{false, 1, 1, 0}, {true, 1, 1, 0}, {true, 1, 0.5, 0}, {true, 1, 0.5, 30}, {true, 1, 0.5, 90}, {true, 1, 1, 30}, {true, 0.5, 1, 60}};
  return a;
}
static int popcount(unsigned v) { return __builtin_popcount(v); }

// inner parameter loops shared by the 2-D parts: f(case)
template<class F> static void paramLoop(Ctx& C, NbCase& c, const std::vector<int>& nsects, F f)
{
  static const double radii[] = {TEST, 0.8, 1.5, 2.3};
  static const int nminis[] = {1, 2, 4};
  static const int nmaxis[] = {1, 2, 3, 5, 100};
  static const int nsmaxs[] = {0, 1, 2};
  for (double rad : radii)
    for (int nmini : nminis)
      for (int nmaxi : nmaxis)
      {
        if (nmaxi < nmini) continue;
        for (int nsect : nsects)
          for (int nsmax : nsmaxs)
          {
            if (nsect == 1 && nsmax != 0) continue;
            c.radius = rad; c.nmini = nmini; c.nmaxi = nmaxi; c.nsect = nsect; c.nsmax = nsmax;
            f();
          }
      }
}
static uint64_t sigOf(const NbCase& c, uint64_t id)
{
  return Hash().u(id).d(c.radius).i(c.nmini).i(c.nmaxi).i(c.nsect).i(c.nsmax).i(c.tgtIdx).h;
}

// apply the "unusable" mode to the samples not in the subset: 0 physically absent, 1 masked, 2 undefined, 3 alternate
static void makeSamples(NbCase& c, const std::vector<P3>& all, unsigned subset, int mode, std::vector<int>* dbRankOfAll = nullptr)
{
  c.pts.clear(); c.active.clear(); c.defined.clear(); c.code.clear();
  int alt = 0;
  if (dbRankOfAll) dbRankOfAll->assign(all.size(), -1);
  for (size_t k = 0; k < all.size(); k++)
  {
    bool in = subset >> k & 1;
    if (!in && mode == 0) continue;
    if (dbRankOfAll) (*dbRankOfAll)[k] = (int)c.pts.size();
    c.pts.push_back(all[k]);
    bool m = false, u = false;
    if (!in) { if (mode == 1) m = true; else if (mode == 2) u = true; else { (alt++ % 2 ? m : u) = true; } }
    c.active.push_back(!m); c.defined.push_back(!u);
    c.code.push_back((int)(k % 3));
  }
}

// ---- part: select() on 2-D subsets of the jittered 3x3 lattice ----------------------------------
VF_PART(select_L3)
{
  setDim(2);
  std::vector<P3> all = lattice2(3);
  std::vector<unsigned> subsets;
  int maxsz = C.thorough() ? 6 : 5;
  for (unsigned s = 0; s < 512; s++) if (popcount(s) >= 3 && popcount(s) <= maxsz) subsets.push_back(s);
  std::vector<int> nsects = C.thorough() ? std::vector<int> {1, 2, 3, 4, 5, 8} : std::vector<int> {1, 2, 3, 4, 8};
  Space sp;
  sp.axis("mode", C.thorough() ? 4 : 2).axis("aniso", (int)anisos().size()).axis("target", (int)targets2().size()).axis("subset", (int)subsets.size());
  for_each_case(C, sp, [&](uint64_t id, const std::vector<int>& idx) {
    NbCase c;
    int mode = C.thorough() ? idx[0] : (idx[0] == 0 ? 0 : 3);
    makeSamples(c, all, subsets[idx[3]], mode);
    const Aniso& a = anisos()[idx[1]];
    c.hasCoef = a.has; c.coef = {a.c0, a.c1, 1}; c.theta = a.theta;
    c.tgt = targets2()[idx[2]];
    Db* din = buildDb(c, false);
    Db* dout = buildTarget(c);
    paramLoop(C, c, nsects, [&]() {
      NeighMoving* nb = buildNeigh(c);
      VectorInt ranks;
      if (nb->attach(din, dout) != 0) { C.violation("select:attach-failed", caseText(c, {}), std::to_string(id)); delete nb; return; }
      nb->select(0, ranks);
      judge(C, c, toStd(ranks), "select", std::to_string(id), sigOf(c, id));
      delete nb;
    });
    if (id % 2503 == 1) C.sample("{\"id\":" + std::to_string(id) + ",\"axes\":" + sp.describe(idx) + ",\"inner\":\"radius x nmini x nmaxi x nsect x nsmax\"}");
    delete din; delete dout;
  });
}

// ---- part: select() on larger sets (jittered 4x4 / 5x5 lattice, menu of subsets) so that quotas and dealing really bind --
static std::vector<unsigned> menuL4(bool thorough)
{
  std::vector<unsigned> m;
  unsigned full = 0xffff;
  m.push_back(full);
  for (int k = 0; k < 16; k++) m.push_back(full & ~(1u << k));
  for (int j = 0; j < 3; j++) for (int i = 0; i < 3; i++) m.push_back(full & ~((1u << (j * 4 + i)) | (1u << (j * 4 + i + 1)) | (1u << (j * 4 + i + 4)) | (1u << (j * 4 + i + 5))));
  for (int r = 0; r < 4; r++) { m.push_back(full & ~(0xfu << (4 * r))); m.push_back(full & ~(0x1111u << r)); }
  m.push_back(0xa5a5); m.push_back(0x5a5a);
  if (thorough)
    for (unsigned a = 0; a < 16; a++) for (unsigned b = a + 1; b < 16; b++) for (unsigned cc = b + 1; cc < 16; cc++) m.push_back(full & ~((1u << a) | (1u << b) | (1u << cc)));
  return m;
}
VF_PART(select_L4)
{
  setDim(2);
  std::vector<P3> all = lattice2(4);
  std::vector<unsigned> subsets = menuL4(C.thorough());
  std::vector<P3> tg = targets2();
  tg.push_back({1.53, 1.57, 0}); tg.push_back({3.2, 0.4, 0}); tg.push_back({2.07, 0.93, 0}); tg.push_back({0.51, 2.49, 0});
  std::vector<int> nsects = {1, 2, 3, 4, 8};
  Space sp;
  sp.axis("mode", 2).axis("aniso", (int)anisos().size()).axis("target", (int)tg.size()).axis("subset", (int)subsets.size());
  for_each_case(C, sp, [&](uint64_t id, const std::vector<int>& idx) {
    NbCase c;
    makeSamples(c, all, subsets[idx[3]], idx[0] == 0 ? 0 : 3);
    const Aniso& a = anisos()[idx[1]];
    c.hasCoef = a.has; c.coef = {a.c0, a.c1, 1}; c.theta = a.theta;
    c.tgt = tg[idx[2]];
    Db* din = buildDb(c, false);
    Db* dout = buildTarget(c);
    paramLoop(C, c, nsects, [&]() {
      NeighMoving* nb = buildNeigh(c);
      VectorInt ranks;
      nb->attach(din, dout);
      nb->select(0, ranks);
      judge(C, c, toStd(ranks), "select", std::to_string(id), sigOf(c, id));
      delete nb;
    });
    if (id % 1201 == 1) C.sample("{\"id\":" + std::to_string(id) + ",\"axes\":" + sp.describe(idx) + "}");
    delete din; delete dout;
  });
}

// ---- part: cross-validation (leave-one-out and k-fold), dbout = dbin, every sample as the target -----------------
VF_PART(xvalid)
{
  setDim(2);
  std::vector<P3> all = lattice2(3);
  std::vector<unsigned> subsets;
  for (unsigned s = 0; s < 512; s++) if (popcount(s) >= 3 && popcount(s) <= (C.thorough() ? 7 : 5)) subsets.push_back(s);
  std::vector<int> nsects = {1, 2, 4};
  Space sp;
  sp.axis("xmode", 2).axis("mode", 3).axis("aniso", 4).axis("subset", (int)subsets.size());
  for_each_case(C, sp, [&](uint64_t id, const std::vector<int>& idx) {
    NbCase c;
    static const int modes[] = {0, 1, 3};
    static const int an[] = {0, 2, 3, 5};
    makeSamples(c, all, subsets[idx[3]], modes[idx[1]]);
    const Aniso& a = anisos()[an[idx[2]]];
    c.hasCoef = a.has; c.coef = {a.c0, a.c1, 1}; c.theta = a.theta;
    c.xmode = idx[0] + 1;
    Db* din = buildDb(c, c.xmode == 2);
    int n = (int)c.pts.size();
    for (int it = 0; it < n; it++)
    {
      // masked targets are never visited by the calculators; undefined targets are (the neighbourhood is still defined)
      if (!c.active[it]) continue;
      c.tgt = c.pts[it]; c.tgtIdx = it; c.tgtCode = c.code[it];
      paramLoop(C, c, nsects, [&]() {
        NeighMoving* nb = buildNeigh(c);
        VectorInt ranks;
        nb->attach(din, din);
        nb->select(it, ranks);
        judge(C, c, toStd(ranks), "select", std::to_string(id), sigOf(c, id));
        delete nb;
      });
    }
    if (id % 601 == 1) C.sample("{\"id\":" + std::to_string(id) + ",\"axes\":" + sp.describe(idx) + ",\"targets\":\"every active sample\"}");
    delete din;
  });
}

// ---- part: cross-validation / K-fold with a target Db DIFFERENT from the input Db ------------------------------------------
// K-fold: the fold is the one of the TARGET (code read in the target Db): data carrying that code are excluded, whatever the
// rank of the target; a target whose code is absent from the data, undefined, or whose Db has no code at all has no fold in
// the data: nothing is excluded. Leave-one-out: the class documentation says the option suppresses "any sample which would be
// too close to (or coincide with) the target"; with a separate Db only a datum at the target's LOCATION is "the target
// itself": it is excluded, every other datum (all further than 0.01 here) stays. Nothing else is judged differently.
VF_PART(xvalid_separate)
{
  setDim(2);
  std::vector<P3> all = lattice2(3);
  std::vector<unsigned> subsets;
  for (unsigned s = 0; s < 512; s++) if (popcount(s) >= 3 && popcount(s) <= (C.thorough() ? 6 : 4)) subsets.push_back(s);
  static const int NOCODE = -999;   // target without a usable fold
  static const int nsects[] = {1, 3, 4}; static const int nmaxis[] = {1, 2, 3, 5, 100}; static const double radii[] = {TEST, 1.5};
  static const int nminis[] = {1, 2}; static const int nsmaxs[] = {0, 1};
  Space sp;
  sp.axis("xmode", 2).axis("out", 7).axis("aniso", 2).axis("mode", 2).axis("subset", (int)subsets.size());
  for_each_case(C, sp, [&](uint64_t id, const std::vector<int>& idx) {
    NbCase c;
    makeSamples(c, all, subsets[idx[4]], idx[3] ? 3 : 0);
    const Aniso& a = anisos()[idx[2] ? 3 : 0];
    c.hasCoef = a.has; c.coef = {a.c0, a.c1, 1}; c.theta = a.theta;
    c.xmode = idx[0] + 1; c.xByLocation = true; c.tgtIdx = -1;
    Db* din = buildDb(c, true);
    int n = (int)c.pts.size();
    // the target Db: locations + codes (NOCODE = undefined code)
    std::vector<P3> tp; std::vector<int> tc; bool withCode = true, grid = false;
    int out = idx[1];
    if (out == 0) for (int k = n - 1; k >= 0; k--) { tp.push_back(c.pts[k]); tc.push_back(c.code[k]); }                 // data locations, reversed order, own codes
    if (out == 1) for (int k = 0; k < n; k++) { tp.push_back(c.pts[k]); tc.push_back((c.code[k] + 1) % 3); }              // same order, codes shifted by one
    if (out == 2) for (int k = 0; k < n; k++) { tp.push_back(c.pts[(k + 1) % n]); tc.push_back((2 * c.code[k] + 1) % 3); } // rotated order, codes permuted
    if (out == 3) { static const int cd[] = {0, 1, 2, 7, NOCODE, 1}; for (size_t k = 0; k < targets2().size(); k++) { tp.push_back(targets2()[k]); tc.push_back(cd[k]); } }   // off-data targets; a code absent from the data; an undefined code
    if (out == 4 || out == 5)
    {
      // 3x3 grid: nodes on the (un-jittered) lattice (node 0 sits on datum (0,0)) or shifted off the data
      grid = true;
      double x0 = out == 4 ? 0. : 0.4;
      for (int j = 0; j < 3; j++) for (int i = 0; i < 3; i++) { tp.push_back({x0 + i, x0 + j * 1., 0}); tc.push_back((i + 2 * j) % 4 == 3 ? 7 : (i + 2 * j) % 4); }
    }
    if (out == 6) { withCode = false; for (int k = n - 1; k >= 0; k--) { tp.push_back(c.pts[k]); tc.push_back(NOCODE); } }     // target Db without any code
    Db* dout = nullptr;
    if (grid) dout = DbGrid::create(VectorInt {3, 3}, VectorDouble {1., 1.}, VectorDouble {tp[0][0], tp[0][1]});
    else { std::vector<std::vector<double>> x(2); for (auto& p : tp) { x[0].push_back(p[0]); x[1].push_back(p[1]); } dout = make_db_xz(x, {}); }
    if (withCode) { VectorDouble cd; for (int v : tc) cd.push_back(v == NOCODE ? TEST : (double)v); dout->addColumns(cd, "code", ELoc::C); }
    bool differs = false;
    for (size_t it = 0; it < tp.size(); it++)
    {
      c.tgt = tp[it]; c.tgtCode = tc[it];
      if ((int)it < n && c.code[it] != tc[it]) differs = true;
      for (double rad : radii) for (int nmini : nminis) for (int nmaxi : nmaxis) for (int nsect : nsects) for (int nsmax : nsmaxs)
      {
        if (nmaxi < nmini || (nsect == 1 && nsmax)) continue;
        c.radius = rad; c.nmini = nmini; c.nmaxi = nmaxi; c.nsect = nsect; c.nsmax = nsmax;
        NeighMoving* nb = buildNeigh(c);
        VectorInt ranks;
        if (nb->attach(din, dout) != 0) { C.violation("select:attach-failed", caseText(c, {}), std::to_string(id)); delete nb; continue; }
        nb->select((int)it, ranks);
        RefOut r = reference(c);
        int nx = 0; for (auto& w : r.whyNot) if (w == "xvalid-target" || w == "xvalid-fold") nx++;
        C.outcome(c.xmode == 2 ? (c.tgtCode == NOCODE ? "kfold:target-without-fold" : nx ? "kfold:fold-of-the-target-excluded" : "kfold:fold-absent-from-the-data")
                               : (nx ? "loo:datum-at-the-target-location-excluded" : "loo:no-datum-at-the-target-location"));
        judge(C, c, toStd(ranks), c.xmode == 2 ? "select-kfold-separate-target-db" : "select-xvalid-separate-target-db", std::to_string(id), Hash().u(sigOf(c, id)).u(it).h, false);
        delete nb;
      }
    }
    if (differs) C.outcome("case:code-of-target-#i-differs-from-code-of-sample-#i");
    if (id % 401 == 3) C.sample("{\"id\":" + std::to_string(id) + ",\"axes\":" + sp.describe(idx) + ",\"targets\":" + std::to_string(tp.size()) + "}");
    delete din; delete dout;
  });
}

// ---- part: one NeighMoving object serving all targets in sequence (as the calculators use it) -------------------
VF_PART(sequence)
{
  setDim(2);
  std::vector<P3> all = lattice2(4);
  std::vector<unsigned> subsets = menuL4(false);
  Space sp;
  sp.axis("aniso", (int)anisos().size()).axis("nsect", 3).axis("nsmax", 2).axis("nmaxi", 3).axis("order", 2).axis("subset", (int)subsets.size());
  for_each_case(C, sp, [&](uint64_t id, const std::vector<int>& idx) {
    NbCase c;
    makeSamples(c, all, subsets[idx[5]], 3);
    const Aniso& a = anisos()[idx[0]];
    c.hasCoef = a.has; c.coef = {a.c0, a.c1, 1}; c.theta = a.theta;
    static const int ns[] = {1, 4, 8}; static const int nm[] = {2, 5, 100};
    c.nsect = ns[idx[1]]; c.nsmax = idx[2] ? 2 : 0; if (c.nsect == 1) c.nsmax = 0;
    c.nmaxi = nm[idx[3]]; c.nmini = 1; c.radius = 1.7;
    // grid of targets, visited forwards or backwards, every target twice in a row
    VectorInt nx = {4, 4}; VectorDouble dx = {1.1, 0.9}; VectorDouble x0 = {-0.23, 0.17};
    DbGrid* grid = DbGrid::create(nx, dx, x0);
    Db* din = buildDb(c, false);
    NeighMoving* nb = buildNeigh(c);
    nb->attach(din, grid);
    int nt = grid->getSampleNumber();
    for (int k = 0; k < 2 * nt; k++)
    {
      int it = (idx[4] ? (2 * nt - 1 - k) : k) / 2;
      VectorDouble xy(2); grid->getCoordinatesPerSampleInPlace(it, xy);
      c.tgt = {xy[0], xy[1], 0};
      VectorInt ranks;
      nb->select(it, ranks);
      judge(C, c, toStd(ranks), "select-sequence", std::to_string(id), Hash().u(id).i(it).h, false);
    }
    delete nb; delete din; delete grid;
  });
}

// ---- part: 1-D and 3-D ---------------------------------------------------------------------------------------------
VF_PART(dim1)
{
  setDim(1);
  Space sp;
  sp.axis("subset", 256).axis("target", 5).axis("mode", 2);
  for_each_case(C, sp, [&](uint64_t id, const std::vector<int>& idx) {
    if (popcount(idx[0]) < 2) return;
    std::vector<P3> all;
    for (int k = 0; k < 8; k++) all.push_back({k + ((3 * k) % 7) / 64., 0, 0});
    NbCase c; c.ndim = 1;
    makeSamples(c, all, (unsigned)idx[0], idx[2] ? 3 : 0);
    static const double tg[] = {0.37, 3.61, -1.2, 7.9, 4.02};
    c.tgt = {tg[idx[1]], 0, 0};
    // coefficients are always given in 1-D: without them BiTargetCheckDistance works on 2 coordinates (see dim3 part)
    c.hasCoef = true; c.coef = {1, 1, 1};
    Db* din = buildDb(c, false);
    Db* dout = buildTarget(c);
    for (double cf : {1., 0.5})
      paramLoop(C, c, {1, 4}, [&]() {
        c.coef[0] = cf;
        NeighMoving* nb = buildNeigh(c);
        VectorInt ranks;
        nb->attach(din, dout);
        nb->select(0, ranks);
        judge(C, c, toStd(ranks), "select", std::to_string(id), sigOf(c, id));
        delete nb;
      });
    delete din; delete dout;
  });
  setDim(2);
}

VF_PART(dim3)
{
  setDim(3);
  std::vector<P3> all;
  for (int k = 0; k < 2; k++) for (int j = 0; j < 2; j++) for (int i = 0; i < 3; i++)
    all.push_back({i + ((3 * i + 5 * j + k) % 7) / 64., j + ((5 * i + 3 * j + 2 * k) % 11) / 128., 1.5 * k + ((i + 2 * j) % 5) / 32.});
  static const P3 tg[] = {{0.37, 0.21, 0.4}, {1.13, 0.81, 1.1}, {2.3, -0.2, 2.6}, {1.01, 0.49, -1.3}};
  struct A3 { bool has; P3 c; double th; };
  static const A3 an[] = {{true, {1, 1, 1}, 0}, {true, {1, 0.5, 0.25}, 0}, {true, {1, 0.5, 2}, 30}, {true, {1, 1, 0.5}, 90}, {false, {1, 1, 1}, 0}};
  Space sp;
  sp.axis("aniso", 5).axis("target", 4).axis("mode", 2).axis("subset", 1 << 12);
  for_each_case(C, sp, [&](uint64_t id, const std::vector<int>& idx) {
    int pc = popcount(idx[3]);
    if (pc < 4 || pc > (C.thorough() ? 12 : 7) || (!C.thorough() && pc == 5)) return;
    if (!C.thorough() && (idx[3] % 5) != 0 && pc < 12) return;   // quick: a fifth of the subsets
    NbCase c; c.ndim = 3;
    makeSamples(c, all, (unsigned)idx[3], idx[2] ? 3 : 0);
    c.hasCoef = an[idx[0]].has; c.coef = an[idx[0]].c; c.theta = an[idx[0]].th;
    c.tgt = tg[idx[1]];
    Db* din = buildDb(c, false);
    Db* dout = buildTarget(c);
    paramLoop(C, c, {1, 4}, [&]() {
      NeighMoving* nb = buildNeigh(c);
      VectorInt ranks;
      nb->attach(din, dout);
      nb->select(0, ranks);
      judge(C, c, toStd(ranks), "select", std::to_string(id), sigOf(c, id));
      delete nb;
    });
    delete din; delete dout;
  });
  setDim(2);
}

// ---- part: exactly aligned geometry -------------------------------------------------------------------------------------
// Data on an EXACT lattice and targets sharing their x (or y) coordinate with data on both sides, or sitting on a diagonal
// of the lattice or on a datum: the increments in the ellipse frame are exactly axis-aligned / diagonal / null, which is what
// the special-case branches of the sector computation (dx == 0 with dy >= 0 or < 0, dy == 0 with dx > 0 or < 0, both 0) need.
// Rotations by 90 / 180 / 270 degrees are exact in the library, so the same happens in rotated frames.
// Candidates exactly on a sector boundary are not excluded: they may count in either adjacent sector (see judge()).
static std::vector<P3> exactLattice(int L) { std::vector<P3> p; for (int j = 0; j < L; j++) for (int i = 0; i < L; i++) p.push_back({(double)i, (double)j, 0.}); return p; }
VF_PART(aligned)
{
  setDim(2);
  struct AN { bool has; double c0, c1, theta; };
  static const AN an[] = {{false, 1, 1, 0}, {true, 1, 1, 0}, {true, 1, 0.5, 0}, {true, 0.5, 1, 0}, {true, 1, 0.5, 90}, {true, 1, 1, 90}, {true, 1, 0.5, 180}, {true, 0.5, 1, 270}};
  // targets: same x as a lattice column (data above and below), same y as a row (data left and right), on a diagonal, on a datum
  static const P3 tg[] = {{1, 0.75, 0}, {1, 1.5, 0}, {0.25, 1, 0}, {1.5, 2, 0}, {0.5, 0.5, 0}, {1, 1, 0}, {2, -0.5, 0}, {-0.75, 0, 0}, {1.25, 1, 0}, {2, 1.75, 0}};
  std::vector<P3> l3 = exactLattice(3), l4 = exactLattice(4);
  std::vector<unsigned> sub3, sub4 = menuL4(false);
  for (unsigned s = 0; s < 512; s++) if (popcount(s) >= 3 && popcount(s) <= (C.thorough() ? 7 : 4)) sub3.push_back(s);
  static const int nsects[] = {2, 3, 4, 5, 6, 8}; static const int nsmaxs[] = {0, 1, 2}; static const int nmaxis[] = {1, 2, 3, 5, 100};
  static const int nminis[] = {1, 3}; static const double radii[] = {TEST, 1.6};
  Space sp;
  sp.axis("aniso", 8).axis("target", 10).axis("mode", 2).axis("set", (int)(sub3.size() + sub4.size()));
  for_each_case(C, sp, [&](uint64_t id, const std::vector<int>& idx) {
    NbCase c;
    bool big = idx[3] >= (int)sub3.size();
    makeSamples(c, big ? l4 : l3, big ? sub4[idx[3] - sub3.size()] : sub3[idx[3]], idx[2] ? 3 : 0);
    c.hasCoef = an[idx[0]].has; c.coef = {an[idx[0]].c0, an[idx[0]].c1, 1}; c.theta = an[idx[0]].theta;
    c.tgt = tg[idx[1]];
    Db* din = buildDb(c, false);
    Db* dout = buildTarget(c);
    // does the case contain what the part is about?
    int nAxis = 0;
    for (auto& p : c.pts) if (p[0] == c.tgt[0] || p[1] == c.tgt[1]) nAxis++;
    for (double rad : radii) for (int nmini : nminis) for (int nmaxi : nmaxis) for (int nsect : nsects) for (int nsmax : nsmaxs)
    {
      if (nmaxi < nmini) continue;
      c.radius = rad; c.nmini = nmini; c.nmaxi = nmaxi; c.nsect = nsect; c.nsmax = nsmax;
      NeighMoving* nb = buildNeigh(c);
      VectorInt ranks;
      nb->attach(din, dout);
      nb->select(0, ranks);
      if (nAxis) C.outcome("case-with-axis-aligned-increments");
      judge(C, c, toStd(ranks), "select", std::to_string(id), sigOf(c, id));
      delete nb;
    }
    if (id % 3001 == 7) C.sample("{\"id\":" + std::to_string(id) + ",\"axes\":" + sp.describe(idx) + ",\"inner\":\"radius x nmini x nmaxi x nsect{2,3,4,5,6,8} x nsmax\"}");
    delete din; delete dout;
  });
}

// ---- part: remaining special-case branches of the selection code -----------------------------------------------------------
//   nmaxi <= 0 (no upper limit), nsmax = 0 given literally, an input Db without any Z variable (nothing to discard),
//   a target rank that does not exist (empty answer), a fault checker without faults (accepts everything).
VF_PART(special_branches)
{
  setDim(2);
  std::vector<P3> all = lattice2(4);
  std::vector<unsigned> subsets = menuL4(false);
  static Faults* nofaults = nullptr;
  Space sp;
  sp.axis("variant", 5).axis("aniso", 3).axis("target", (int)targets2().size()).axis("subset", (int)subsets.size());
  for_each_case(C, sp, [&](uint64_t id, const std::vector<int>& idx) {
    NbCase c;
    int variant = idx[0];
    makeSamples(c, all, subsets[idx[3]], variant == 2 ? 1 : 3);
    static const int anm[] = {0, 2, 3};
    const Aniso& a = anisos()[anm[idx[1]]];
    c.hasCoef = a.has; c.coef = {a.c0, a.c1, 1}; c.theta = a.theta;
    c.tgt = targets2()[idx[2]];
    if (variant == 2) c.noZ = true;
    Db* din = buildDb(c, false);
    Db* dout = buildTarget(c);
    static const int nmaxiMenu[] = {0, -1, ITEST};
    paramLoop(C, c, {1, 4}, [&]() {
      for (int sub = 0; sub < (variant == 0 ? 3 : 1); sub++)
      {
        NbCase d = c;
        if (variant == 0) { if (c.nmaxi != 100) return; d.nmaxi = nmaxiMenu[sub]; }          // nmaxi <= 0: unlimited
        if (variant == 1) { if (c.nsmax != 0 || c.nsect == 1) return; d.nsmaxZero = true; }   // nsmax == 0 literally
        NeighMoving* nb = buildNeigh(d);
        if (variant == 4) nb->addBiTargetCheck(BiTargetCheckFaults::create(nofaults));
        VectorInt ranks;
        if (nb->attach(din, dout) != 0) { C.violation("select:attach-failed", caseText(d, {}), std::to_string(id)); delete nb; return; }
        if (variant == 3)
        {
          // a target that does not exist: the documented answer of ANeigh::select is an empty vector
          ranks.push_back(5);
          nb->select(1 + (int)(id % 3), ranks);
          C.eval(); C.nontrivial(sigOf(d, id));
          C.outcome(ranks.empty() ? "ok:invalid-target-gives-empty" : "VIOLATION");
          if (!ranks.empty()) C.violation("select:invalid-target-not-empty", "select() of a target rank that does not exist returns " + vstr(ranks), std::to_string(id));
        }
        else
        {
          nb->select(0, ranks);
          judge(C, d, toStd(ranks), "select", std::to_string(id), Hash().u(sigOf(d, id)).u(sub).h, false);
          if (variant == 0 && d.nmaxi <= 0) C.outcome("nmaxi<=0-unlimited-judged");
        }
        delete nb;
      }
    });
    delete din; delete dout;
  });
}

// ---- part: the same neighbourhood seen through krigtest().nbgh and the test_neigh() summary columns ---------------
VF_PART(krigtest_summary)
{
  setDim(2);
  std::vector<P3> all = lattice2(4);
  std::vector<unsigned> subsets = menuL4(false);
  Model* model = Model::createFromParam(ECov::SPHERICAL, 3., 1.);
  static const int ns[] = {1, 4, 8}; static const int nm[] = {2, 5, 100}; static const double rd[] = {TEST, 1.5};
  Space sp;
  sp.axis("aniso", 4).axis("nsect", 3).axis("nsmax", 2).axis("nmaxi", 3).axis("radius", 2).axis("target", 4).axis("subset", (int)subsets.size());
  for_each_case(C, sp, [&](uint64_t id, const std::vector<int>& idx) {
    NbCase c;
    makeSamples(c, all, subsets[idx[6]], 3);
    static const int anm[] = {0, 2, 3, 5};
    const Aniso& a = anisos()[anm[idx[0]]];
    c.hasCoef = a.has; c.coef = {a.c0, a.c1, 1}; c.theta = a.theta;
    c.nsect = ns[idx[1]]; c.nsmax = idx[2] ? 2 : 0; if (c.nsect == 1) { if (idx[2]) return; c.nsmax = 0; }
    c.nmaxi = nm[idx[3]]; c.nmini = 1; c.radius = rd[idx[4]];
    c.tgt = targets2()[idx[5]];
    Db* din = buildDb(c, false);
    Db* dout = buildTarget(c);
    std::string kase = std::to_string(id);
    {
      NeighMoving* nb = buildNeigh(c);
      Krigtest_Res kt = krigtest(din, dout, model, nb, 0, EKrigOpt::POINT, VectorInt(), false, false);
      std::vector<int> S = toStd(kt.nbgh);
      bool ok = judge(C, c, S, "krigtest", kase, Hash().u(id).u(1).h, false);
      if (ok && kt.nech != (int)S.size()) C.violation("krigtest:nech", "Krigtest_Res.nech=" + std::to_string(kt.nech) + " but nbgh holds " + std::to_string(S.size()) + " ranks :: " + caseText(c, S), kase);
      delete nb;
    }
    {
      NeighMoving* nb = buildNeigh(c);
      VectorInt ranks;
      nb->attach(din, dout); nb->select(0, ranks);
      std::vector<int> S = toStd(ranks);
      delete nb;
      nb = buildNeigh(c);
      int nc0 = dout->getColumnNumber();
      int err = test_neigh(din, dout, model, nb, NamingConvention("Neigh"));
      C.eval();
      RefOut r = reference(c);
      if (err || dout->getColumnNumber() != nc0 + 5) C.violation("summary:failed", "test_neigh failed or did not add 5 columns :: " + caseText(c, S), kase);
      else if (!r.onRadius && r.nAmbiguous == 0)
      {
        double number = dout->getValueByColIdx(0, nc0), dmaxv = dout->getValueByColIdx(0, nc0 + 1), dminv = dout->getValueByColIdx(0, nc0 + 2), nes = dout->getValueByColIdx(0, nc0 + 3);
        bool sectors = c.nsect > 1;
        std::string cls = sectors ? ":sectors" : ":single-sector";
        double rmax = -1, rmin = 1e300;
        std::set<int> secs;
        for (auto& q : r.cand) if (std::find(S.begin(), S.end(), q.idx) != S.end()) { rmax = std::max(rmax, q.d); rmin = std::min(rmin, q.d); secs.insert(sectors ? q.secA : 0); }
        if (S.empty() && FFFF(number)) C.outcome("summary-left-undefined-for-an-empty-neighbourhood(accepted)");
        else if (number != (double)S.size()) C.violation("summary:number" + cls, "test_neigh Number=" + fmt(number) + " but select() returns " + std::to_string(S.size()) + " samples :: " + caseText(c, S), kase);
        else if (!S.empty())
        {
          // the library perturbs distances by at most n*1e-9*distmax to break ties: judged at 1e-6 relative
          if (!close(dmaxv, rmax, 1e-6)) { C.violation("summary:maxdist" + cls, "test_neigh MaxDist=" + fmt(dmaxv) + " but the largest distance of the selected samples is " + fmt(rmax) + " :: " + caseText(c, S), kase); C.outcome("summary-maxdist-wrong"); }
          else C.outcome("summary-maxdist-ok");
          if (!close(dminv, rmin, 1e-6)) C.violation("summary:mindist" + cls, "test_neigh MinDist=" + fmt(dminv) + " but the smallest distance of the selected samples is " + fmt(rmin) + " :: " + caseText(c, S), kase);
          if (nes != (double)secs.size()) { C.violation("summary:nb-nonempty-sectors" + cls, "test_neigh NbNESect=" + fmt(nes) + " but the selected samples occupy " + std::to_string(secs.size()) + " sectors :: " + caseText(c, S), kase); C.outcome("summary-nbnesect-wrong"); }
          else C.outcome("summary-nbnesect-ok");
          if (sectors && (rmax > 0)) C.nontrivial(Hash().u(id).u(2).h);
        }
      }
      delete nb;
    }
    delete din; delete dout;
  });
  delete model;
}

// ---- part: extra pair checkers (bench, code, fault) ---------------------------------------------------------------------
VF_PART(checkers)
{
  setDim(2);
  std::vector<P3> all = lattice2(4);
  std::vector<unsigned> subsets = menuL4(false);
  static Faults* faults = nullptr;
  if (!faults) { faults = new Faults(); PolyLine2D line({1.45, 1.55}, {-1., 2.6}); faults->addFault(line); }
  Space sp;
  sp.axis("checker", 4).axis("aniso", 3).axis("target", (int)targets2().size()).axis("subset", (int)subsets.size());
  for_each_case(C, sp, [&](uint64_t id, const std::vector<int>& idx) {
    NbCase c;
    makeSamples(c, all, subsets[idx[3]], 3);
    static const int anm[] = {0, 2, 3};
    const Aniso& a = anisos()[anm[idx[1]]];
    c.hasCoef = a.has; c.coef = {a.c0, a.c1, 1}; c.theta = a.theta;
    c.tgt = targets2()[idx[2]];
    c.tgtCode = 1;
    if (idx[0] == 0) { c.benchDim = 1; c.benchWidth = 0.8; }
    if (idx[0] == 1) c.codeOpt = 1;
    if (idx[0] == 2) c.codeOpt = 2;
    if (idx[0] == 3) { c.fault = true; c.fx0 = 1.45; c.fy0 = -1.; c.fx1 = 1.55; c.fy1 = 2.6; }
    Db* din = buildDb(c, c.codeOpt != 0);
    Db* dout = buildTarget(c);
    if (c.codeOpt) dout->addColumns(VectorDouble {(double)c.tgtCode}, "code", ELoc::C);
    paramLoop(C, c, {1, 4}, [&]() {
      NeighMoving* nb = buildNeigh(c);
      if (c.benchDim >= 0) nb->addBiTargetCheck(BiTargetCheckBench::create(c.benchDim, c.benchWidth));
      if (c.codeOpt) nb->addBiTargetCheck(BiTargetCheckCode::create(c.codeOpt, 1e-6));
      if (c.fault) nb->addBiTargetCheck(BiTargetCheckFaults::create(faults));
      VectorInt ranks;
      if (nb->attach(din, dout) != 0) { C.violation("checkers:attach-failed", caseText(c, {}), std::to_string(id)); delete nb; return; }
      nb->select(0, ranks);
      RefOut r = reference(c);
      int nrej = 0; for (auto& w : r.whyNot) if (w == "bench" || w == "code" || w == "fault") nrej++;
      if (nrej) C.outcome("checker-rejected-some");
      judge(C, c, toStd(ranks), "select-checker" + std::to_string(idx[0]), std::to_string(id), sigOf(c, id), false);
      delete nb;
    });
    delete din; delete dout;
  });
}

// ---- part: ball-tree pre-selection inside NeighMoving ------------------------------------------------------------
// precondition (C04/C06): the nmaxi Euclidean-nearest samples of the input Db are all admissible.
VF_PART(ball_neigh)
{
  setDim(2);
  std::vector<P3> all = lattice2(4);
  std::vector<unsigned> subsets = menuL4(false);
  static const int leafs[] = {1, 2, 10};
  std::vector<int> nsects = {1, 4};
  Space sp;
  sp.axis("leaf", 3).axis("aniso", 4).axis("mode", 2).axis("target", (int)targets2().size()).axis("subset", (int)subsets.size());
  for_each_case(C, sp, [&](uint64_t id, const std::vector<int>& idx) {
    NbCase c;
    makeSamples(c, all, subsets[idx[4]], idx[2] ? 3 : 0);
    static const int anm[] = {0, 1, 2, 3};
    const Aniso& a = anisos()[anm[idx[1]]];
    c.hasCoef = a.has; c.coef = {a.c0, a.c1, 1}; c.theta = a.theta;
    c.tgt = targets2()[idx[3]];
    Db* din = buildDb(c, false);
    Db* dout = buildTarget(c);
    int n = (int)c.pts.size();
    paramLoop(C, c, nsects, [&]() {
      // precondition decided by the harness
      if (c.nmaxi > n) { C.outcome("precondition-n/a:nmaxi>number-of-samples"); return; }
      RefOut r = reference(c);
      std::vector<std::pair<double, int>> e;
      for (int i = 0; i < n; i++) e.push_back({std::hypot(c.tgt[0] - c.pts[i][0], c.tgt[1] - c.pts[i][1]), i});
      std::sort(e.begin(), e.end());
      if (c.nmaxi < n && e[c.nmaxi].first - e[c.nmaxi - 1].first < 1e-9) { C.outcome("excluded:euclidean-tie"); return; }
      bool adm = true;
      for (int k = 0; k < c.nmaxi; k++) if (!r.whyNot[e[k].second].empty()) adm = false;
      NeighMoving* nb = buildNeigh(c);
      nb->setBallSearch(true, leafs[idx[0]]);
      VectorInt ranks;
      nb->attach(din, dout);
      nb->select(0, ranks);
      if (!adm)
      {
        // outside the precondition only the unconditional part of the definition is judged: no excluded sample is returned
        C.eval();
        C.outcome("precondition-false:a-nearest-sample-is-not-admissible(only-membership-judged)");
        if (!r.onRadius)
          for (int i : ranks)
            if (i < 0 || i >= n || !r.whyNot[i].empty())
            {
              C.violation("ball:" + (i < 0 || i >= n ? std::string("rank-out-of-range") : r.whyNot[i]), "with ball search, sample " + std::to_string(i) + " is returned although it is excluded (" + (i < 0 || i >= n ? "" : r.whyNot[i]) + ") :: " + caseText(c, toStd(ranks)), std::to_string(id));
              C.outcome("VIOLATION:excluded-sample-returned");
              break;
            }
        delete nb;
        return;
      }
      judge(C, c, toStd(ranks), "ball", std::to_string(id), sigOf(c, id), false);
      delete nb;
    });
    delete din; delete dout;
  });
}

// ---- part: k-NN queries of the ball tree -----------------------------------------------------------------------------
static double refDist(const P3& a, const P3& b, int ndim, int metric)
{
  double s = 0;
  for (int d = 0; d < ndim; d++) { double t = a[d] - b[d]; s += metric == 2 ? std::fabs(t) : t * t; }
  return metric == 2 ? s : std::sqrt(s);
}
static void knnJudge(Ctx& C, const std::vector<P3>& pts, int ndim, const P3& q, int k, const VectorInt& ind, const VectorDouble& dst, int metric,
                     const std::string& what, const std::string& kase, bool& tie)
{
  int n = (int)pts.size();
  std::vector<double> all;
  for (auto& p : pts) all.push_back(refDist(q, p, ndim, metric));
  std::vector<double> sorted = all;
  std::sort(sorted.begin(), sorted.end());
  C.eval();
  auto desc = [&]() {
    std::ostringstream o; o.precision(10);
    o << what << " k=" << k << " metric=" << metric << " query=(" << q[0]; for (int d = 1; d < ndim; d++) o << "," << q[d]; o << ") points=[";
    for (auto& p : pts) { o << "(" << p[0]; for (int d = 1; d < ndim; d++) o << "," << p[d]; o << ")"; }
    o << "] indices=" << vstr(ind) << " distances=" << vstr(dst) << " expected distances=" << vstr(std::vector<double>(sorted.begin(), sorted.begin() + std::min(k, n)));
    return o.str();
  };
  if ((int)ind.size() != k || (int)dst.size() != k) { C.violation("knn:count", "query returned " + std::to_string(ind.size()) + " neighbours :: " + desc(), kase); return; }
  std::set<int> seen;
  std::vector<double> got;
  for (int j = 0; j < k; j++)
  {
    if (ind[j] < 0 || ind[j] >= n || !seen.insert(ind[j]).second) { C.violation("knn:indices", "index out of range or repeated :: " + desc(), kase); return; }
    if (!close(dst[j], all[ind[j]], 1e-12)) { C.violation("knn:index-distance-mismatch", "distance " + std::to_string(j) + " is not that of the returned index :: " + desc(), kase); return; }
    got.push_back(dst[j]);
  }
  std::sort(got.begin(), got.end());
  for (int j = 0; j < k; j++)
    if (!close(got[j], sorted[j], 1e-12)) { C.violation("knn:not-the-k-closest", "the returned points are not the " + std::to_string(k) + " closest ones :: " + desc(), kase); return; }
  for (int j = 1; j < k; j++)
    if (dst[j] < dst[j - 1]) { C.violation("knn:not-in-increasing-order", "the k closest points are returned, but not in increasing distance order (position " + std::to_string(j) + ") :: " + desc(), kase); C.outcome("knn-unsorted-result"); return; }
  C.outcome("knn-exact-and-sorted");
  for (int j = 0; j + 1 < n; j++) if (sorted[j + 1] - sorted[j] < 1e-12) tie = true;
}

static void knnPart(Ctx& C, int ndim, const std::vector<P3>& all, int minsz, int maxsz, const std::vector<P3>& queries, int stride)
{
  setDim(ndim);
  static const int leafs[] = {1, 2, 3, 10};
  Space sp;
  sp.axis("leaf", 4).axis("metric", 2).axis("subset", 1 << all.size());
  for_each_case(C, sp, [&](uint64_t id, const std::vector<int>& idx) {
    int pc = popcount(idx[2]);
    if (pc < minsz || pc > maxsz) return;
    if (stride > 1 && (idx[2] % stride) != 0 && pc != (int)all.size()) return;
    std::vector<P3> pts;
    for (size_t k = 0; k < all.size(); k++) if (idx[2] >> k & 1) pts.push_back(all[k]);
    int n = (int)pts.size();
    VectorVectorDouble data(ndim);
    for (auto& p : pts) for (int d = 0; d < ndim; d++) data[d].push_back(p[d]);
    int metric = idx[1] + 1;
    Ball ball(data, nullptr, leafs[idx[0]], metric);
    std::string kase = std::to_string(id);
    bool anyTie = false;
    // queries: external points and every data point itself
    std::vector<P3> qs = queries;
    for (auto& p : pts) qs.push_back(p);
    for (auto& q : qs)
    {
      VectorDouble qv; for (int d = 0; d < ndim; d++) qv.push_back(q[d]);
      for (int k = 1; k <= n; k++)
      {
        bool tie = false;
        KNN knn = ball.queryOneAsVD(qv, k);
        knnJudge(C, pts, ndim, q, k, knn.getIndices(0), knn.getDistances(0), metric, "queryOneAsVD leaf=" + std::to_string(leafs[idx[0]]), kase, tie);
        VectorInt ii; VectorDouble dd;
        ball.queryOneInPlace(qv, k, ii, dd);
        knnJudge(C, pts, ndim, q, k, ii, dd, metric, "queryOneInPlace leaf=" + std::to_string(leafs[idx[0]]), kase, tie);
        anyTie |= tie;
      }
      int cl = ball.queryClosest(qv);
      C.eval();
      double best = 1e300; for (auto& p : pts) best = std::min(best, refDist(q, p, ndim, metric));
      if (cl < 0 || cl >= n || !close(refDist(q, pts[cl], ndim, metric), best, 1e-12))
        C.violation("knn:closest", "queryClosest returned " + std::to_string(cl) + " which is not a closest point, query " + vstr(qv) + " subset " + std::to_string(idx[2]), kase);
    }
    // all queries at once
    {
      VectorVectorDouble test(ndim);
      for (auto& q : qs) for (int d = 0; d < ndim; d++) test[d].push_back(q[d]);
      int k = std::min(n, 3);
      KNN knn = ball.queryAsVVD(test, k);
      for (size_t iq = 0; iq < qs.size(); iq++) { bool tie = false; knnJudge(C, pts, ndim, qs[iq], k, knn.getIndices((int)iq), knn.getDistances((int)iq), metric, "queryAsVVD rank " + std::to_string(iq), kase, tie); }
    }
    C.outcome(anyTie ? "sets-with-equidistant-points(indices-judged-through-their-distances)" : "sets-without-ties");
    if (n > leafs[idx[0]]) C.nontrivial(id);   // the tree really has inner nodes
    if (id % 4001 == 3) C.sample("{\"id\":" + kase + ",\"ndim\":" + std::to_string(ndim) + ",\"npoints\":" + std::to_string(n) + ",\"leaf\":" + std::to_string(leafs[idx[0]]) + ",\"metric\":" + std::to_string(metric) + "}");
  });
  setDim(2);
}
VF_PART(knn_2d)
{
  std::vector<P3> all = lattice2(3);
  all.push_back({3.4, 1.1, 0}); all.push_back({-0.8, 2.6, 0}); all.push_back({1.5, 1.5, 0});
  knnPart(C, 2, all, 2, C.thorough() ? 12 : 9, {{0.37, 0.21, 0}, {1.61, 1.47, 0}, {5.5, -3.1, 0}}, C.thorough() ? 1 : 3);
}
VF_PART(knn_1d)
{
  std::vector<P3> all;
  for (int k = 0; k < 10; k++) all.push_back({k + ((3 * k) % 7) / 64., 0, 0});
  knnPart(C, 1, all, 1, 10, {{0.37, 0, 0}, {4.5, 0, 0}, {-3., 0, 0}, {12., 0, 0}}, C.thorough() ? 1 : 2);
}
VF_PART(knn_3d)
{
  std::vector<P3> all;
  for (int k = 0; k < 2; k++) for (int j = 0; j < 2; j++) for (int i = 0; i < 3; i++) all.push_back({(double)i, (double)j, 1.5 * k});   // exact lattice: ties on purpose
  knnPart(C, 3, all, 3, 12, {{0.37, 0.21, 0.4}, {1., 0.5, 0.75}, {4., 4., 4.}}, C.thorough() ? 1 : 3);
}
// large regular sets (hundreds of points, several tree levels)
VF_PART(knn_large)
{
  setDim(2);
  static const int leafs[] = {1, 2, 3, 10, 40};
  Space sp;
  sp.axis("leaf", 5).axis("metric", 2).axis("n", C.thorough() ? 8 : 5).axis("query", 16);
  for_each_case(C, sp, [&](uint64_t id, const std::vector<int>& idx) {
    static const int sizes[] = {17, 33, 64, 100, 257, 400, 513, 1000};
    int n = sizes[idx[2]];
    std::vector<P3> pts;
    // low-discrepancy but deterministic, dyadic: bit-reversed / multiplicative sequences
    for (int k = 0; k < n; k++) pts.push_back({((k * 37) % 128) / 16. + k / 4096., ((k * 91) % 256) / 32. + k / 8192., 0});
    VectorVectorDouble data(2);
    for (auto& p : pts) { data[0].push_back(p[0]); data[1].push_back(p[1]); }
    int metric = idx[1] + 1;
    Ball ball(data, nullptr, leafs[idx[0]], metric);
    P3 q {(idx[3] % 4) * 2.7 - 0.3, (idx[3] / 4) * 2.9 - 0.6, 0};
    VectorDouble qv {q[0], q[1]};
    bool tie = false;
    for (int k : {1, 2, 3, 7, 16, n / 2, n - 1, n})
    {
      KNN knn = ball.queryOneAsVD(qv, k);
      knnJudge(C, pts, 2, q, k, knn.getIndices(0), knn.getDistances(0), metric, "large set n=" + std::to_string(n) + " leaf=" + std::to_string(leafs[idx[0]]), std::to_string(id), tie);
    }
    C.nontrivial(id);
    C.outcome("large-sets");
  });
}

// ---- part: Ball built from coordinate vectors with fewer points than coordinates (forked child: the library may crash) ----
// The in-process k-NN parts only build trees with n_points >= n_coordinates because of the defect demonstrated here:
// Ball::Ball(const VectorVectorDouble&) releases n_features rows of a copy that has n_samples rows.
VF_PART(knn_few_points)
{
  if (!owns_part(C)) return;
  struct K { int ndim, n; };
  for (K k : {K {2, 2}, K {3, 3}, K {2, 1}, K {3, 2}, K {3, 1}})
  {
    std::string kase = std::to_string(k.ndim) + "d-" + std::to_string(k.n) + "pts";
    C.cur_case = kase;
    if (!C.only_case.empty() && C.only_case != kase) continue;
    ChildResult r = run_child([&](int wfd) {
      // deterministic heap content: every small free chunk holds a recognisable non-pointer pattern, so that reading one
      // slot past a short array gives the same (invalid) value in every run
      {
        std::vector<void*> blk;
        for (int i = 0; i < 2000; i++) { void* p = malloc(24); memset(p, 0x01, 24); blk.push_back(p); }
        for (void* p : blk) free(p);
      }
      defineDefaultSpace(ESpaceType::RN, k.ndim);
      VectorVectorDouble data(k.ndim);
      for (int i = 0; i < k.n; i++) for (int d = 0; d < k.ndim; d++) data[d].push_back(i + 0.25 * d);
      Ball ball(data, nullptr, 10, 1);
      VectorDouble q(k.ndim, 0.1);
      KNN knn = ball.queryOneAsVD(q, 1);
      VectorInt ind = knn.getIndices(0);
      child_write(wfd, ind.size() == 1 && ind[0] == 0 ? "ok" : "wrong");
      return 0;
    }, 20.);
    C.eval();
    C.nontrivial(Hash().s(kase).h);
    std::string oc = r.clean() ? r.data : r.describe();
    C.outcome(std::string(k.n < k.ndim ? "n<ndim:" : "n>=ndim:") + (r.clean() ? r.data : "crash"));
    if (!r.clean())
      C.violation(k.n < k.ndim ? "knn:ball-from-vectors:invalid-free:n<ndim" : "knn:ball-from-vectors:crash", "building a Ball from " + std::to_string(k.n) + " point(s) in " + std::to_string(k.ndim) + "-D coordinate vectors and asking for the closest point ends with " + r.describe(), kase);
    else if (r.data != "ok")
      C.violation("knn:closest", "Ball from " + std::to_string(k.n) + " point(s) in " + std::to_string(k.ndim) + "-D: wrong closest point", kase);
  }
}

int main(int argc, char** argv)
{
  return run_main(argc, argv, [](Ctx&) { silence(); setDim(2); });
}
