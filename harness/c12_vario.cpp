// C12 — experimental variograms equal their pairwise definition.
//
// Engine E1: complete enumeration of small data sets (all subsets of small lattices x all value assignments over
// {0,1,3,undefined} x weights x selections x sample orders x translations) x many directions / lag specifications
// (all put as directions of ONE VarioParam, so that one Vario::compute serves them) x calculation types, on the real
// Vario::computeFromDb, against a brute-force double loop over all unordered pairs written here.
//
// Reference (traceable to the statement + the DirParam class documentation):
//   a pair {i,j} of active samples with defined weights belongs to lag k of a direction iff
//     * |cos(angle between x_j-x_i and codir)| >= cos(tolang)            (tolang = 90: every pair)
//     * its distance orthogonal to the direction is <= cylrad              (when a cylinder radius is given)
//     * |difference of the last coordinate| <= bench                       (when a bench height is given)
//     * its length d is the k-th multiple of the lag up to toldis*lag: k = nearest multiple, |d - k*dpas| <= toldis*dpas,
//       k < npas  (DirParam documentation; NOT the looser (1 +- tau)h sentence of the markdown note), or
//       breaks[k] < d <= breaks[k+1] for irregular lags
//   sw(k) = sum of w_i*w_j ("number (or weight) of pairs"), hh(k) = weighted mean of d, gg(k) = weighted mean of the
//   estimator's pair value, over the pairs where the variables involved are defined at both ends.
//   Pairs exactly on a class / angle / cylinder / bench border (1e-9) make the direction "excluded" (counted, not judged).
//   gg is judged for: variogram, madogram, rodogram, order-4 (pair values (dz_i*dz_j)/2, sqrt|.|/2, |.|^(1/4)/2, (.)^2/2),
//   covariance centred by the global weighted means and non-centred covariance (oriented lags -npas..npas, isotopic data,
//   centre slot not judged; the orientation convention - which variable is the tail - is read once per run on a reference
//   direction and imposed on every other direction w.r.t. its own codir; -codir must swap the two sides; lags holding a
//   pair exactly orthogonal to codir are not judged on cross terms); for TRANS1/TRANS2/BINORMAL
//   the direct terms (ivar==jvar, plain variogram) and sw/hh; for POISSON hh and the set of non-empty lags only.
//   Not judged (no normative definition in the repository): generalised variograms, covariogram and flag_sample=true
//   ("by sample" accumulation), transition/binormal cross terms, Poisson weights.
//
//   Grid algorithm: every grid case (1-3 variables, undefined patterns per variable incl. ALL patterns on tiny grids, weights,
//   selections, rotated grids, createFromGrid and createMultipleFromGrid, 2-D and 3-D, all 10 calculation types) is compared
//   three ways for all (ivar,jvar): grid vs pair definition, general algorithm on the same nodes vs pair definition, grid vs
//   general slot by slot.
//
// Finding keys: <channel>:<quantity>:<calc>:<direction class>[:heterotopic][:cross], channel = vario | grid, and
//   grid-vs-general:<quantity>:<calc>[:cross][:heterotopic], e.g. vario:sw:variogram:regular+tolang, grid:sw:variogram:grid:heterotopic.
#include "vf/gst.hpp"

#include "Enum/ECalcVario.hpp"
#include "Space/ASpaceObject.hpp"
#include "Variogram/DirParam.hpp"
#include "Variogram/Vario.hpp"
#include "Variogram/VarioParam.hpp"
#include "Variogram/VMap.hpp"

#include <algorithm>
#include <array>

using namespace vf;
typedef std::array<double, 3> P3;

struct Dir
{
  int npas = 2; double dpas = 1, toldis = 0.5, tolang = 90;
  std::vector<double> codir;   // empty: default (1,0,..)
  double bench = TEST, cylrad = TEST;
  std::vector<double> breaks;
  int mirrorOf = -1;   // rank of the direction of the same VarioParam that has the opposite codir and otherwise equal parameters
  std::string cls() const
  {
    std::string s = breaks.empty() ? "regular" : "breaks";
    if (tolang < 90) s += "+tolang";
    if (!FFFF(cylrad)) s += "+cyl";
    if (!FFFF(bench)) s += "+bench";
    return s;
  }
};
struct VCase
{
  int ndim = 2;
  std::vector<P3> x;
  std::vector<std::vector<double>> z;   // [nvar][n]
  bool hasW = false; std::vector<double> w;
  bool hasSel = false; std::vector<char> sel;
  std::vector<Dir> dirs;
  int calc = 0;
};
enum { VARIOGRAM, MADOGRAM, RODOGRAM, ORDER4, COVARIANCE, COVARIANCE_NC, POISSON, TRANS1, TRANS2, BINORMAL, NCALC };
static const char* calcName[] = {"variogram", "madogram", "rodogram", "order4", "covariance", "covariance_nc", "poisson", "trans1", "trans2", "binormal"};
static ECalcVario calcEnum(int c)
{
  switch (c)
  {
    case VARIOGRAM: return ECalcVario::VARIOGRAM; case MADOGRAM: return ECalcVario::MADOGRAM; case RODOGRAM: return ECalcVario::RODOGRAM;
    case ORDER4: return ECalcVario::ORDER4; case COVARIANCE: return ECalcVario::COVARIANCE; case COVARIANCE_NC: return ECalcVario::COVARIANCE_NC;
    case POISSON: return ECalcVario::POISSON; case TRANS1: return ECalcVario::TRANS1; case TRANS2: return ECalcVario::TRANS2; default: return ECalcVario::BINORMAL;
  }
}
static bool isAsym(int c) { return c == COVARIANCE || c == COVARIANCE_NC; }

struct Acc { double sw = 0, sh = 0, sg = 0; };
struct RefDir
{
  bool border = false;        // a pair sits on a class/angle/cylinder/bench border
  bool orientBorder = false;  // a pair is orthogonal to the direction (orientation undefined), matters for cross covariances
  std::vector<char> orthoLag;  // per lag: such a pair fell into it
  int npairs = 0, rejected = 0;
  std::vector<std::vector<Acc>> acc;   // [ivar*(ivar+1)/2+jvar][slot]
};

static double pairValue(int calc, double dzi, double dzj)
{
  double p = dzi * dzj;
  switch (calc)
  {
    case MADOGRAM: return std::sqrt(std::fabs(p)) / 2.;
    case RODOGRAM: return std::pow(std::fabs(p), 0.25) / 2.;
    case ORDER4: return p * p / 2.;
    default: return p / 2.;
  }
}

// lag of a distance; -1 none; border flagged
static int lagOf(const Dir& D, double d, bool& border)
{
  const double eps = 1e-9;
  if (D.breaks.empty())
  {
    double t = d / D.dpas;
    int k = (int)std::floor(t + 0.5);
    double off = std::fabs(d - k * D.dpas), tol = D.toldis * D.dpas;
    if (std::fabs(off - tol) <= eps * std::max(1., d)) { border = true; return -1; }
    if (off > tol) return -1;
    if (k >= D.npas) return -1;
    return k;
  }
  int nb = (int)D.breaks.size();
  for (int k = 0; k + 1 < nb; k++)
  {
    if (std::fabs(d - D.breaks[k]) <= eps || std::fabs(d - D.breaks[k + 1]) <= eps) { border = true; return -1; }
    if (d > D.breaks[k] && d <= D.breaks[k + 1]) return k;
  }
  return -1;
}

static RefDir referenceDir(const VCase& c, const Dir& D)
{
  RefDir r;
  int n = (int)c.x.size(), nvar = (int)c.z.size();
  int npas = D.breaks.empty() ? D.npas : (int)D.breaks.size() - 1;
  bool asym = isAsym(c.calc);
  int nslot = asym ? 2 * npas + 1 : npas;
  r.acc.assign(nvar * (nvar + 1) / 2, std::vector<Acc>(nslot));
  r.orthoLag.assign(npas, 0);
  std::vector<double> cd = D.codir;
  if (cd.empty()) { cd.assign(c.ndim, 0.); cd[0] = 1.; }
  double cn = 0; for (double v : cd) cn += v * v; cn = std::sqrt(cn);
  double psmin = D.tolang >= 90 ? 0. : D.tolang == 0 ? 1. : std::fabs(std::cos(D.tolang * M_PI / 180.));
  const double eps = 1e-9;
  for (int i = 0; i < n; i++)
  {
    if (c.hasSel && !c.sel[i]) continue;
    if (c.hasW && FFFF(c.w[i])) continue;
    for (int j = i + 1; j < n; j++)
    {
      if (c.hasSel && !c.sel[j]) continue;
      if (c.hasW && FFFF(c.w[j])) continue;
      double dl[3] = {0, 0, 0}, d2 = 0, pr = 0;
      for (int k = 0; k < c.ndim; k++) { dl[k] = c.x[j][k] - c.x[i][k]; d2 += dl[k] * dl[k]; pr += dl[k] * cd[k]; }
      double d = std::sqrt(d2);
      if (d <= 0) { r.border = true; continue; }   // duplicates are not part of the menus
      double cosv = pr / (d * cn);
      if (psmin > 0)
      {
        if (std::fabs(std::fabs(cosv) - psmin) <= eps) { r.border = true; continue; }
        if (std::fabs(cosv) < psmin) { r.rejected++; continue; }
      }
      if (!FFFF(D.cylrad))
      {
        double dortho = d * std::sqrt(std::max(0., 1. - cosv * cosv));
        if (std::fabs(dortho - D.cylrad) <= eps) { r.border = true; continue; }
        if (dortho > D.cylrad) { r.rejected++; continue; }
      }
      if (!FFFF(D.bench))
      {
        double dv = std::fabs(dl[c.ndim - 1]);
        if (std::fabs(dv - D.bench) <= eps) { r.border = true; continue; }
        if (dv > D.bench) { r.rejected++; continue; }
      }
      bool b = false;
      int k = lagOf(D, d, b);
      if (b) { r.border = true; continue; }
      if (k < 0) { r.rejected++; continue; }
      r.npairs++;
      double wi = c.hasW ? c.w[i] : 1., wj = c.hasW ? c.w[j] : 1.;
      double ww = wi * wj;
      int orient = cosv > 0 ? 1 : -1;
      if (std::fabs(cosv) < 1e-12) { r.orientBorder = true; r.orthoLag[k] = 1; }
      for (int iv = 0; iv < nvar; iv++)
        for (int jv = 0; jv <= iv; jv++)
        {
          double a1 = c.z[iv][i], a2 = c.z[iv][j], b1 = c.z[jv][i], b2 = c.z[jv][j];
          if (FFFF(a1) || FFFF(a2) || FFFF(b1) || FFFF(b2)) continue;
          std::vector<Acc>& A = r.acc[iv * (iv + 1) / 2 + jv];
          if (!asym)
          {
            A[k].sw += ww; A[k].sh += ww * d; A[k].sg += ww * pairValue(c.calc, a2 - a1, b2 - b1);
          }
          else
          {
            // ordered pair i->j (orientation 'orient'): z_iv(i) * z_jv(j); and j->i (orientation -orient): z_iv(j) * z_jv(i)
            int s1 = orient > 0 ? npas + 1 + k : npas - 1 - k, s2 = orient > 0 ? npas - 1 - k : npas + 1 + k;
            A[s1].sw += ww; A[s1].sh += ww * d; A[s1].sg += ww * a1 * b2;
            A[s2].sw += ww; A[s2].sh += ww * d; A[s2].sg += ww * a2 * b1;
          }
        }
    }
  }
  return r;
}

// ------------------------------------------------------------------------------------------------
static int curDim = 0;
static void setDim(int ndim) { if (curDim != ndim) { defineDefaultSpace(ESpaceType::RN, ndim); curDim = ndim; } }

static Db* buildDb(const VCase& c)
{
  std::vector<std::vector<double>> x(c.ndim);
  for (auto& p : c.x) for (int d = 0; d < c.ndim; d++) x[d].push_back(p[d]);
  Db* db = make_db_xz(x, c.z);
  if (c.hasW) db->addColumns(VectorDouble(c.w.begin(), c.w.end()), "w", ELoc::W);
  if (c.hasSel) { VectorDouble s; for (char v : c.sel) s.push_back(v ? 1. : 0.); db->addColumns(s, "sel", ELoc::SEL); }
  return db;
}
static VarioParam buildParam(const VCase& c)
{
  VarioParam vp;
  for (auto& D : c.dirs)
  {
    int npas = D.breaks.empty() ? D.npas : (int)D.breaks.size() - 1;
    DirParam dp(npas, D.dpas, D.toldis, D.tolang, 0, 0, D.bench, D.cylrad, 0., VectorDouble(D.breaks.begin(), D.breaks.end()), VectorDouble(D.codir.begin(), D.codir.end()), TEST);
    vp.addDir(dp);
  }
  return vp;
}
static std::string caseText(const VCase& c, int idir)
{
  std::ostringstream o; o.precision(10);
  const Dir& D = c.dirs[idir];
  o << "calc=" << calcName[c.calc] << " ndim=" << c.ndim << " dir#" << idir << "{";
  if (D.breaks.empty()) o << "npas=" << D.npas << " dpas=" << D.dpas << " toldis=" << D.toldis; else o << "breaks=" << vstr(D.breaks);
  o << " tolang=" << D.tolang << " codir=" << (D.codir.empty() ? std::string("default") : vstr(D.codir));
  if (!FFFF(D.cylrad)) o << " cylrad=" << D.cylrad;
  if (!FFFF(D.bench)) o << " bench=" << D.bench;
  o << "} samples=[";
  for (size_t i = 0; i < c.x.size(); i++)
  {
    o << (i ? " " : "") << "(" << c.x[i][0]; for (int d = 1; d < c.ndim; d++) o << "," << c.x[i][d]; o << ";z=";
    for (size_t v = 0; v < c.z.size(); v++) { if (v) o << ","; if (FFFF(c.z[v][i])) o << "NA"; else o << c.z[v][i]; }
    if (c.hasW) { o << ";w="; if (FFFF(c.w[i])) o << "NA"; else o << c.w[i]; }
    if (c.hasSel && !c.sel[i]) o << ";masked";
    o << ")";
  }
  o << "]";
  return o.str();
}

// run the real code on the case and judge every direction / variable pair / lag. returns #directions judged
// Orientation convention of the asymmetric estimators. The property does not say which variable sits at the tail of an
// oriented lag, but it must be ONE convention: it is read once, on a reference direction (codir = +x, tolang 45, three points
// on a line, two variables), and every other direction / tolerance / dimension / sample order is then required to follow it
// with respect to its own codir. +1: as the reference model (slot +k holds z_ivar(tail)*z_jvar(head), ivar > jvar);
// -1: reversed; 2: calibration failed.
static int g_orient = 0;
static std::string g_orientText;
static void calibrateOrientation()
{
  VCase c; c.calc = COVARIANCE_NC;
  c.x = {{0, 0, 0}, {1, 0, 0}, {2, 0, 0}};
  c.z = {{1, 2, 4}, {3, 0, 5}};
  Dir D; D.npas = 3; D.dpas = 1; D.toldis = 0.5; D.tolang = 45; D.codir = {1, 0};
  c.dirs = {D};
  Db* db = buildDb(c);
  VarioParam vp = buildParam(c);
  Vario* v = Vario::computeFromDb(vp, db, calcEnum(c.calc), false, false, nullptr, 0, false);
  g_orient = 2;
  if (v != nullptr)
  {
    RefDir r = referenceDir(c, D);
    VectorDouble gg = v->getGgVec(0, 1, 0, false, false, false);
    const std::vector<Acc>& A = r.acc[1];
    int nslot = 2 * D.npas + 1;
    bool same = (int)gg.size() == nslot, rev = same;
    for (int s = 0; s < nslot && (int)gg.size() == nslot; s++)
    {
      if (s == D.npas || A[s].sw <= 0) continue;
      double ref = A[s].sg / A[s].sw;
      if (!close(gg[s], ref, 1e-12)) same = false;
      if (!close(gg[nslot - 1 - s], ref, 1e-12)) rev = false;
    }
    if (same && !rev) g_orient = 1;
    if (rev && !same) g_orient = -1;
    g_orientText = "reference direction +x on points 0,1,2 with z1=(1,2,4), z2=(3,0,5): cross covariance_nc gg=" + vstr(gg);
  }
  delete v; delete db;
}

// Optional arguments (used by the grid parts): dbUse / vpUse = run on this Db with this VarioParam instead of the ones built
// from the case; refUse = reference per direction computed by the caller; keep = hand the Vario back instead of deleting
// it; clsUse = direction class for the finding key; extra = text appended to the description of the case.
static int runAndJudge(Ctx& C, const VCase& c, const std::string& kase, uint64_t sig, const char* channel = "vario",
                       Db* dbUse = nullptr, const VarioParam* vpUse = nullptr, const std::vector<RefDir>* refUse = nullptr,
                       Vario** keep = nullptr, const char* clsUse = nullptr, const std::string& extra = "")
{
  Db* db = dbUse ? dbUse : buildDb(c);
  VarioParam vpLocal;
  if (!vpUse) vpLocal = buildParam(c);
  const VarioParam& vp = vpUse ? *vpUse : vpLocal;
  Vario* v = Vario::computeFromDb(vp, db, calcEnum(c.calc), false, false, nullptr, 0, false);
  int judged = 0;
  C.eval();
  if (keep) *keep = v;
  if (v == nullptr)
  {
    C.violation(std::string(channel) + ":compute-failed:" + calcName[c.calc], "Vario::computeFromDb returned null :: " + caseText(c, 0) + extra, kase);
    if (!dbUse) delete db;
    return 0;
  }
  int nvar = (int)c.z.size();
  bool asym = isAsym(c.calc);
  double zscale = 1;
  for (auto& zz : c.z) for (double t : zz) if (!FFFF(t)) zscale = std::max(zscale, std::fabs(t));
  double gscale = c.calc == ORDER4 ? std::pow(2 * zscale, 4) : 4 * zscale * zscale;
  bool nontriv = false;
  bool hasNA = false;
  for (auto& zz : c.z) for (double t : zz) if (FFFF(t)) hasNA = true;
  if (asym && hasNA)
  {
    // which ends must be defined for an ordered pair of a cross-covariance is not written anywhere: executed, not judged
    C.skip(); C.outcome("not-judged:covariance-of-heterotopic-data");
    if (!keep) delete v;
    if (!dbUse) delete db;
    return 0;
  }
  std::vector<RefDir> allRefs(c.dirs.size());
  for (int idir = 0; idir < (int)c.dirs.size(); idir++)
  {
    const Dir& D = c.dirs[idir];
    RefDir r = refUse ? (*refUse)[idir] : referenceDir(c, D);
    allRefs[idir] = r;
    if (r.border) { C.skip(); C.outcome("excluded:pair-on-a-class/angle/cylinder/bench-border"); continue; }
    judged++;
    int npas = D.breaks.empty() ? D.npas : (int)D.breaks.size() - 1;
    int nslot = asym ? 2 * npas + 1 : npas;
    std::string kcls = std::string(calcName[c.calc]) + ":" + (clsUse ? std::string(clsUse) : D.cls());
    if (hasNA) kcls += ":heterotopic";
    bool bad = false;
    for (int iv = 0; iv < nvar && !bad; iv++)
      for (int jv = 0; jv <= iv && !bad; jv++)
      {
        VectorDouble sw = v->getSwVec(idir, iv, jv, false), hh = v->getHhVec(idir, iv, jv, false), gg = v->getGgVec(idir, iv, jv, false, false, false);
        const std::vector<Acc>& A = r.acc[iv * (iv + 1) / 2 + jv];
        auto where = [&](int s) { return " var(" + std::to_string(iv) + "," + std::to_string(jv) + ") slot " + std::to_string(s) + " :: " + caseText(c, idir) + extra; };
        if ((int)sw.size() != nslot || (int)hh.size() != nslot || (int)gg.size() != nslot)
        {
          C.violation(std::string(channel) + ":vector-size:" + kcls, "getters return " + std::to_string(sw.size()) + "/" + std::to_string(hh.size()) + "/" + std::to_string(gg.size()) + " values for " + std::to_string(nslot) + " lags" + where(0), kase);
          bad = true; break;
        }
        // orientation convention of asymmetric estimators: the one read on the reference direction, for every direction
        bool flip = false;
        if (asym && iv != jv)
        {
          if (g_orient == 2)
          {
            C.violation(std::string(channel) + ":orientation-convention:calibration", "the cross-covariance of the reference direction matches neither orientation convention: " + g_orientText, kase);
            bad = true; break;
          }
          flip = g_orient == -1;
          C.outcome(r.orientBorder ? "cross-covariance:lags-holding-a-pair-orthogonal-to-codir-not-judged-on-gg" : "cross-covariance:orientation-judged-against-the-run-wide-convention");
        }
        // global means for the centred covariance
        double m1 = 0, m2 = 0;
        if (c.calc == COVARIANCE)
        {
          double sumw = 0;
          for (size_t i = 0; i < c.x.size(); i++)
          {
            if (c.hasSel && !c.sel[i]) continue;
            double w = c.hasW ? c.w[i] : 1.;
            if (FFFF(w) || w < 0) continue;
            if (FFFF(c.z[iv][i]) || FFFF(c.z[jv][i])) continue;
            m1 += w * c.z[iv][i]; m2 += w * c.z[jv][i]; sumw += w;
          }
          if (sumw > 0) { m1 /= sumw; m2 /= sumw; }
        }
        for (int s = 0; s < nslot; s++)
        {
          if (asym && s == npas) continue;   // centre C(0): not part of the pairwise definition
          const Acc& a = A[flip ? nslot - 1 - s : s];
          double rsw = a.sw;
          // --- number / weight of pairs
          if (c.calc == POISSON)
          {
            if ((rsw > 0) != (sw[s] > 0)) { C.violation(std::string(channel) + ":sw:" + kcls, "lag reported " + std::string(sw[s] > 0 ? "non-empty" : "empty") + " but the reference finds weight " + fmt(rsw) + where(s), kase); bad = true; break; }
          }
          else if (!close(sw[s], rsw, 1e-12))
          {
            C.violation(std::string(channel) + ":sw:" + kcls, "weight/number of pairs " + fmt(sw[s]) + " instead of " + fmt(rsw) + where(s), kase);
            bad = true; break;
          }
          if (rsw <= 0)
          {
            if (!FFFF(hh[s]) && hh[s] != 0) { C.violation(std::string(channel) + ":hh-empty-lag:" + kcls, "empty lag reports mean distance " + fmt(hh[s]) + where(s), kase); bad = true; break; }
            continue;
          }
          nontriv = true;
          // --- mean separation
          double rh = a.sh / a.sw;
          if (asym && s < npas) rh = -rh;
          if (c.calc == POISSON && c.hasW) continue;   // Poisson pair weights w1*w2/(w1+w2) have no written definition
          if (!close(hh[s], rh, 1e-12)) { C.violation(std::string(channel) + ":hh:" + kcls, "mean separation " + fmt(hh[s]) + " instead of " + fmt(rh) + where(s), kase); bad = true; break; }
          // --- defining average
          bool judgeG = c.calc <= COVARIANCE_NC || ((c.calc == TRANS1 || c.calc == TRANS2 || c.calc == BINORMAL) && iv == jv);
          if (asym) for (auto& zz : c.z) for (double t : zz) if (FFFF(t)) judgeG = false;   // covariances: isotopic data only
          if (asym && iv != jv)
          {
            // a pair exactly orthogonal to codir has no orientation: the cross terms of the lag that holds it are not judged
            int lag = s > npas ? s - npas - 1 : npas - 1 - s;
            if (lag >= 0 && lag < (int)r.orthoLag.size() && r.orthoLag[lag]) judgeG = false;
          }
          if (!judgeG) continue;
          double rg = a.sg / a.sw;
          if (c.calc == COVARIANCE) rg -= m1 * m2;
          if (FFFF(gg[s]) || std::fabs(gg[s] - rg) > 1e-10 * gscale)
          {
            C.violation(std::string(channel) + ":gg:" + kcls + (iv != jv ? ":cross" : ""), "value " + fmt(gg[s]) + " instead of " + fmt(rg) + where(s), kase);
            bad = true; break;
          }
        }
      }
    if (bad) C.outcome("VIOLATION-direction");
    else C.outcome(r.npairs == 0 ? "ok:no-pair-in-any-lag" : r.rejected ? "ok:some-pairs-kept-some-rejected" : "ok:all-pairs-kept");
  }
  // metamorphic: computing along -codir swaps the + and - sides of every asymmetric term (no convention involved)
  if (asym)
    for (int idir = 0; idir < (int)c.dirs.size(); idir++)
    {
      int m = c.dirs[idir].mirrorOf;
      if (m < 0 || m >= (int)c.dirs.size()) continue;
      const RefDir& r = allRefs[idir];
      if (r.border || allRefs[m].border) continue;
      int npas = c.dirs[idir].breaks.empty() ? c.dirs[idir].npas : (int)c.dirs[idir].breaks.size() - 1;
      int nslot = 2 * npas + 1;
      bool bad = false, any = false;
      C.eval();
      for (int iv = 0; iv < nvar && !bad; iv++)
        for (int jv = 0; jv <= iv && !bad; jv++)
        {
          VectorDouble s1 = v->getSwVec(idir, iv, jv, false), h1 = v->getHhVec(idir, iv, jv, false), g1 = v->getGgVec(idir, iv, jv, false, false, false);
          VectorDouble s2 = v->getSwVec(m, iv, jv, false), h2 = v->getHhVec(m, iv, jv, false), g2 = v->getGgVec(m, iv, jv, false, false, false);
          if ((int)s1.size() != nslot || (int)s2.size() != nslot) continue;
          for (int s = 0; s < nslot; s++)
          {
            if (s == npas) continue;
            int lag = s > npas ? s - npas - 1 : npas - 1 - s;
            if (r.orthoLag[lag]) continue;
            int t = nslot - 1 - s;
            bool ok = close(s1[s], s2[t], 1e-12);
            if (ok && s1[s] > 0) { any = true; ok = close(h1[s], -h2[t], 1e-12) && !FFFF(g1[s]) && !FFFF(g2[t]) && std::fabs(g1[s] - g2[t]) <= 1e-10 * gscale; }
            if (!ok)
            {
              C.violation(std::string(channel) + ":mirror-direction:" + calcName[c.calc] + (iv != jv ? ":cross" : ""),
                          "along codir slot " + std::to_string(s) + " holds sw/hh/gg " + fmt(s1[s]) + "/" + fmt(h1[s]) + "/" + fmt(g1[s]) + " but along -codir the opposite slot holds " + fmt(s2[t]) + "/" + fmt(h2[t]) + "/" + fmt(g2[t]) +
                          " (direction #" + std::to_string(m) + " is the mirror) var(" + std::to_string(iv) + "," + std::to_string(jv) + ") :: " + caseText(c, idir) + extra, kase);
              bad = true; break;
            }
          }
        }
      C.outcome(bad ? "VIOLATION:mirror-direction" : any ? "ok:-codir-swaps-the-sides" : "ok:-codir(no-pair)");
    }
  if (nontriv) C.nontrivial(sig);
  if (!keep) delete v;
  if (!dbUse) delete db;
  return judged;
}

// Enumerate only the ids accepted by `valid`, dealt round-robin to the shards (the filters of a part are correlated with
// id mod nshards, which would leave most of the work to a few shards). Replay by id works as with for_each_case.
template<class V, class F> static void for_each_valid(Ctx& C, const Space& sp, V valid, F f)
{
  uint64_t n = sp.size();
  C.ps().space += n;
  if (!C.only_case.empty())
  {
    uint64_t id = strtoull(C.only_case.c_str(), nullptr, 10);
    if (id < n) { std::vector<int> idx = sp.decode(id); if (valid(idx)) { C.cur_case = C.only_case; f(id, idx); } }
    return;
  }
  uint64_t k = 0;
  for (uint64_t id = 0; id < n; id++)
  {
    std::vector<int> idx = sp.decode(id);
    if (!valid(idx)) continue;
    if ((int)(k++ % (uint64_t)C.nshards) != C.shard) continue;
    if ((k & 255) == 0 && C.expired()) break;
    C.cur_case = std::to_string(id);
    f(id, idx);
  }
}

// ------------------------------------------------------------------------------------------------
// menus
static std::vector<P3> lat2(int L) { std::vector<P3> p; for (int j = 0; j < L; j++) for (int i = 0; i < L; i++) p.push_back({(double)i, (double)j, 0.}); return p; }
static std::vector<double> cod2(double deg) { if (deg == 0) return {1, 0}; if (deg == 90) return {0, 1}; if (deg == 45) return {1, 1}; return {std::cos(deg * M_PI / 180.), std::sin(deg * M_PI / 180.)}; }

static std::vector<Dir> dirs2D(bool full)
{
  std::vector<Dir> out;
  struct L { int npas; double dpas, toldis; };
  std::vector<L> lags = {{2, 1, 0.5}, {4, 1, 0.25}, {4, 0.75, 0.5}, {3, 0.75, 0.25}};
  std::vector<std::pair<double, double>> angs = {{-1, 90}};
  for (double a : {0., 45., 90., 30.}) for (double t : {10., 22.5, 50.}) angs.push_back({a, t});
  for (auto& at : angs)
    for (auto& l : lags)
      for (int cyl = 0; cyl < (full ? 2 : 1); cyl++)
        for (int bench = 0; bench < (full ? 2 : 1); bench++)
        {
          Dir D; D.npas = l.npas; D.dpas = l.dpas; D.toldis = l.toldis; D.tolang = at.second;
          if (at.first >= 0) D.codir = cod2(at.first);
          if (cyl) D.cylrad = 0.6;
          if (bench) D.bench = 0.6;
          out.push_back(D);
        }
  // irregular lags
  for (auto& at : std::vector<std::pair<double, double>> {{-1, 90}, {0, 50}, {45, 22.5}})
    for (auto& br : std::vector<std::vector<double>> {{0, 0.9, 1.6, 2.5}, {0.5, 1.2, 3.}})
    {
      Dir D; D.breaks = br; D.tolang = at.second; if (at.first >= 0) D.codir = cod2(at.first);
      out.push_back(D);
    }
  return out;
}
static std::vector<Dir> dirsSmall2D()
{
  std::vector<Dir> out;
  Dir a; a.npas = 4; a.dpas = 1; a.toldis = 0.5; out.push_back(a);
  Dir b; b.npas = 3; b.dpas = 0.75; b.toldis = 0.25; out.push_back(b);
  Dir c; c.npas = 3; c.dpas = 1; c.toldis = 0.5; c.tolang = 22.5; c.codir = cod2(0); out.push_back(c);
  Dir d; d.npas = 3; d.dpas = 1; d.toldis = 0.5; d.tolang = 50; d.codir = cod2(45); out.push_back(d);
  Dir e; e.breaks = {0, 0.9, 1.6, 2.5}; out.push_back(e);
  return out;
}
// omni-like (tolang 90) and wide (tolang 50) directions along +-x, +-y, +-diagonals (3-D: +-axes, +-(1,1,0); 1-D: +-1);
// consecutive entries are mirror images of each other (codir / -codir), which the asymmetric estimators must swap.
static void addCodirMenu(std::vector<Dir>& dirs, int ndim, int npas, double dpas, double toldis, bool wide = true)
{
  std::vector<std::vector<double>> cds;
  if (ndim == 1) cds = {{1}, {-1}};
  if (ndim == 2) cds = {{1, 0}, {-1, 0}, {0, 1}, {0, -1}, {1, 1}, {-1, -1}, {1, -1}, {-1, 1}};
  if (ndim == 3) cds = {{1, 0, 0}, {-1, 0, 0}, {0, 1, 0}, {0, -1, 0}, {0, 0, 1}, {0, 0, -1}, {1, 1, 0}, {-1, -1, 0}};
  for (double tol : {90., 50.})
  {
    if ((ndim == 1 || !wide) && tol != 90.) continue;
    int base = (int)dirs.size();
    for (size_t k = 0; k < cds.size(); k++)
    {
      Dir D; D.npas = npas; D.dpas = dpas; D.toldis = toldis; D.tolang = tol; D.codir = cds[k];
      D.mirrorOf = base + (int)(k ^ 1);
      dirs.push_back(D);
    }
  }
}
static int popcount(unsigned v) { return __builtin_popcount(v); }
static const double VALS[4] = {0., 1., 3., TEST};

// Widen a case to multivariate / heterotopic / weighted / masked data (mode 0: as is).
//   mode 1: a second variable; for the symmetric estimators undefined values at different places in the two variables
//           (Z1 missing where Z2 is defined and vice versa); dyadic weights; one sample masked when there are >= 5.
//   mode 2: three isotopic variables with weights (keeps the covariances judged).
static void widen(VCase& c, int mode)
{
  if (mode == 0) return;
  int n = (int)c.x.size();
  bool asym = isAsym(c.calc);
  while ((int)c.z.size() < (mode == 2 ? 3 : 2))
  {
    int iv = (int)c.z.size();
    std::vector<double> z(n);
    for (int k = 0; k < n; k++) z[k] = iv == 1 ? (double)((3 * k + 1) % 5) : (double)((k * k + k + 2) % 6);
    c.z.push_back(z);
  }
  if (!c.hasW) { c.hasW = true; c.w.resize(n); for (int k = 0; k < n; k++) c.w[k] = 1. + ((k * 3) % 4) * 0.25; }
  if (mode == 1)
  {
    if (!asym && n >= 3) for (int k = 0; k < n; k++) { if (k % 4 == 1) c.z[0][k] = TEST; if (k % 3 == 0) c.z[1][k] = TEST; }
    if (n >= 5 && !c.hasSel) { c.hasSel = true; c.sel.assign(n, 1); c.sel[2] = 0; }
  }
}

// ---- part: geometry — every subset of the 3x3 lattice x the complete direction menu (pair logic) ---------------------
VF_PART(geometry_2d)
{
  setDim(2);
  std::vector<P3> all = lat2(3);
  std::vector<Dir> dirs = dirs2D(true);
  addCodirMenu(dirs, 2, 3, 1., 0.5);
  Space sp;
  sp.axis("calc", 2).axis("subset", 512).axis("data", 3);
  auto valid = [&](const std::vector<int>& idx) { int pc = popcount(idx[1]); return pc >= 2 && pc <= (C.thorough() ? 9 : 6); };
  for_each_valid(C, sp, valid, [&](uint64_t id, const std::vector<int>& idx) {
    VCase c; c.calc = idx[0] == 0 ? VARIOGRAM : COVARIANCE;
    std::vector<double> z;
    for (int k = 0; k < 9; k++) if (idx[1] >> k & 1) { c.x.push_back(all[k]); z.push_back((double)((k * k + 2 * k) % 7)); }
    c.z.push_back(z);
    c.dirs = dirs;
    widen(c, idx[2]);
    runAndJudge(C, c, std::to_string(id), id);
    if (id % 97 == 5) C.sample("{\"id\":" + std::to_string(id) + ",\"subset_mask\":" + std::to_string(idx[1]) + ",\"calc\":" + jstr(calcName[c.calc]) + ",\"directions\":" + std::to_string(dirs.size()) + "}");
  });
}

// ---- part: values — all value assignments over {0,1,3,NA} on all small subsets, one variable, symmetric estimators ----
VF_PART(values_1var)
{
  setDim(2);
  std::vector<P3> all = lat2(3);
  std::vector<Dir> dirs = dirsSmall2D();
  static const int calcs[] = {VARIOGRAM, MADOGRAM, RODOGRAM, ORDER4, POISSON};
  int maxn = C.thorough() ? 5 : 4;
  Space sp;
  sp.axis("calc", 5).axis("values", 1 << (2 * maxn)).axis("subset", 512);
  auto valid = [&](const std::vector<int>& idx) {
    int pc = popcount(idx[2]);
    if (pc < 2 || pc > maxn) return false;
    if (idx[1] >> (2 * pc)) return false;   // value code must fit the subset size
    return true;
  };
  for_each_valid(C, sp, valid, [&](uint64_t id, const std::vector<int>& idx) {
    VCase c; c.calc = calcs[idx[0]];
    std::vector<double> z; int q = 0;
    for (int k = 0; k < 9; k++) if (idx[2] >> k & 1) { c.x.push_back(all[k]); z.push_back(VALS[(idx[1] >> (2 * q)) & 3]); q++; }
    c.z.push_back(z);
    c.dirs = dirs;
    runAndJudge(C, c, std::to_string(id), id);
    if (id % 400009 == 11) C.sample("{\"id\":" + std::to_string(id) + ",\"case\":" + jstr(caseText(c, 0)) + "}");
  });
}

// ---- part: multivariate, heterotopic, weights, selection, all calculation types -----------------------------------------
VF_PART(multivar)
{
  setDim(2);
  std::vector<P3> all = lat2(3);
  std::vector<Dir> dirs = dirsSmall2D();
  std::vector<Dir> dirsAsym = dirs;
  addCodirMenu(dirsAsym, 2, 3, 1., 0.5, C.thorough());   // asymmetric estimators: omni-like / wide directions along +-x, +-y, +-diagonals
  // menu of value patterns for 2 and 3 variables on up to 6 samples (undefined values in various places)
  static const double NA = TEST;
  static const double Z1[4][6] = {{1, 3, 0, 2, 5, 4}, {1, NA, 0, 2, 5, 4}, {NA, 3, 0, NA, 5, 4}, {0, 0, 1, 1, 3, 3}};
  static const double Z2[4][6] = {{2, 0, 1, 4, 3, 6}, {2, 0, NA, 4, 3, 6}, {2, NA, NA, 4, 3, NA}, {1, 3, 1, 3, 0, 2}};
  static const double Z3[3][6] = {{0, 1, 4, 1, 2, 2}, {NA, 1, 4, 1, NA, 2}, {3, 3, 0, 1, 1, 5}};
  // (undefined weights are not in the menu: Db::getWeight turns them into 1 while Vario tests them for 'undefined' - meaning not fixed by the property)
  static const double W[3][6] = {{1, 1, 1, 1, 1, 1}, {1, 2, 0.5, 4, 1, 0.25}, {1, 0, 0.5, 4, 2, 1}};
  Space sp;
  sp.axis("calc", NCALC).axis("nvar", 2).axis("z1", 4).axis("z2", 4).axis("z3", 3).axis("w", 4).axis("sel", 3).axis("subset", 512);
  auto valid = [&](const std::vector<int>& idx) {
    int pc = popcount(idx[7]);
    if (pc < 3 || pc > 6) return false;
    if (!C.thorough() && (pc == 5 || (pc == 6 && idx[7] % 4 != 3) || (pc == 4 && idx[7] % 2) || idx[4] == 2)) return false;
    if (!C.thorough() && ((idx[2] != idx[3] && idx[2] != 0 && idx[3] != 0) || idx[6] == 2)) return false;   // quick: a sub-menu
    if (idx[1] == 0 && idx[4] != 0) return false;
    return true;
  };
  for_each_valid(C, sp, valid, [&](uint64_t id, const std::vector<int>& idx) {
    int nvar = idx[1] + 2;
    VCase c; c.calc = idx[0];
    c.z.assign(nvar, {});
    int q = 0;
    for (int k = 0; k < 9; k++) if (idx[7] >> k & 1)
    {
      c.x.push_back(all[k]);
      c.z[0].push_back(Z1[idx[2]][q]); c.z[1].push_back(Z2[idx[3]][q]); if (nvar == 3) c.z[2].push_back(Z3[idx[4]][q]);
      if (idx[5]) c.w.push_back(W[idx[5] - 1][q]);
      c.sel.push_back(idx[6] == 0 ? 1 : idx[6] == 1 ? (q % 3 != 1) : (q != 0));
      q++;
    }
    c.hasW = idx[5] != 0; c.hasSel = idx[6] != 0;
    c.dirs = isAsym(c.calc) ? dirsAsym : dirs;
    runAndJudge(C, c, std::to_string(id), id);
    if (id % 300007 == 13) C.sample("{\"id\":" + std::to_string(id) + ",\"case\":" + jstr(caseText(c, 2)) + "}");
  });
}

// ---- part: sample order and translation (exercises the sort along x and the early break) --------------------------------
VF_PART(order_translation)
{
  setDim(2);
  std::vector<P3> all = lat2(3);
  std::vector<Dir> dirs;
  {
    std::vector<Dir> d = dirs2D(false);   // omni (4 lag specs), directions 0 and 45 deg with tolang 22.5 / 50 (2 lag specs each), breaks
    for (size_t k = 0; k < d.size(); k++)
    {
      const Dir& D = d[k];
      bool keep = D.tolang >= 90 || ((D.tolang == 22.5 || D.tolang == 50.) && !D.codir.empty() && (D.codir[1] == 0 || D.codir[0] == D.codir[1]) && (D.npas == 2 || D.npas == 3));
      if (keep) dirs.push_back(D);
    }
  }
  addCodirMenu(dirs, 2, 3, 1., 0.5, C.thorough());
  static const double tr[3][2] = {{0, 0}, {-8.5, 16.25}, {1024, -3.75}};
  Space sp;
  sp.axis("calc", 3).axis("translation", 3).axis("perm", 120).axis("subset", 512).axis("data", 2);
  auto valid = [&](const std::vector<int>& idx) {
    int pc = popcount(idx[3]);
    if (pc < 3 || pc > 5) return false;
    if (!C.thorough() && pc == 5 && idx[2] % 24 != 0) return false;
    int nperm = pc == 3 ? 6 : pc == 4 ? 24 : 120;
    return idx[2] < nperm;
  };
  for_each_valid(C, sp, valid, [&](uint64_t id, const std::vector<int>& idx) {
    int pc = popcount(idx[3]);
    std::vector<int> members;
    for (int k = 0; k < 9; k++) if (idx[3] >> k & 1) members.push_back(k);
    std::vector<int> perm(pc); for (int k = 0; k < pc; k++) perm[k] = k;
    for (int k = 0; k < idx[2]; k++) std::next_permutation(perm.begin(), perm.end());
    VCase c; c.calc = idx[0] == 0 ? VARIOGRAM : idx[0] == 1 ? COVARIANCE : MADOGRAM;
    std::vector<double> z, z2;
    for (int k = 0; k < pc; k++)
    {
      int m = members[perm[k]];
      c.x.push_back({all[m][0] + tr[idx[1]][0], all[m][1] + tr[idx[1]][1], 0});
      z.push_back((double)((m * m + 2 * m) % 7)); z2.push_back((double)((3 * m + 1) % 5));
    }
    c.z.push_back(z); c.z.push_back(z2);
    c.dirs = dirs;
    widen(c, idx[4]);
    runAndJudge(C, c, std::to_string(id), id);
  });
}

// ---- part: 1-D and 3-D ---------------------------------------------------------------------------------------------------
VF_PART(dim1)
{
  setDim(1);
  std::vector<Dir> dirs;
  for (auto l : std::vector<std::array<double, 3>> {{3, 1, 0.5}, {6, 1, 0.25}, {4, 0.75, 0.25}, {3, 2, 0.5}})
  { Dir D; D.npas = (int)l[0]; D.dpas = l[1]; D.toldis = l[2]; D.codir = {1.}; dirs.push_back(D); }
  { Dir D; D.breaks = {0, 1.5, 2.5, 6}; D.codir = {1.}; dirs.push_back(D); }
  addCodirMenu(dirs, 1, 4, 1., 0.25);
  Space sp;
  sp.axis("calc", 4).axis("reverse", 2).axis("values", 3).axis("subset", 128).axis("data", 3);
  for_each_case(C, sp, [&](uint64_t id, const std::vector<int>& idx) {
    if (popcount(idx[3]) < 2) return;
    static const int calcs[] = {VARIOGRAM, COVARIANCE, COVARIANCE_NC, ORDER4};
    VCase c; c.ndim = 1; c.calc = calcs[idx[0]];
    std::vector<double> z;
    for (int k = 0; k < 7; k++) if (idx[3] >> k & 1)
    {
      c.x.push_back({(double)k, 0, 0});
      double v = idx[2] == 0 ? (k * k) % 5 : idx[2] == 1 ? (double)(k % 2) : ((k % 3 == 1 && !isAsym(c.calc)) ? TEST : 3. - k);
      z.push_back(v);
    }
    if (idx[1]) { std::reverse(c.x.begin(), c.x.end()); std::reverse(z.begin(), z.end()); }
    c.z.push_back(z);
    c.dirs = dirs;
    widen(c, idx[4]);
    runAndJudge(C, c, std::to_string(id), id);
  });
  setDim(2);
}
VF_PART(dim3)
{
  setDim(3);
  std::vector<P3> all;
  for (int k = 0; k < 2; k++) for (int j = 0; j < 2; j++) for (int i = 0; i < 3; i++) all.push_back({(double)i, (double)j, 0.5 * k});
  std::vector<Dir> dirs;
  for (auto cd : std::vector<std::vector<double>> {{}, {1, 0, 0}, {0, 1, 0}, {0, 0, 1}, {1, 1, 0}})
    for (double tol : {90., 22.5, 50.})
      for (int bench = 0; bench < 2; bench++)
        for (int cyl = 0; cyl < 2; cyl++)
        {
          if (cd.empty() && tol != 90.) continue;
          if (!cd.empty() && tol == 90.) continue;
          Dir D; D.npas = 3; D.dpas = 1; D.toldis = 0.5; D.tolang = tol; D.codir = cd;
          if (bench) D.bench = 0.25;
          if (cyl) D.cylrad = 0.7;
          dirs.push_back(D);
          Dir E = D; E.npas = 4; E.dpas = 0.5; E.toldis = 0.25; dirs.push_back(E);
        }
  addCodirMenu(dirs, 3, 4, 0.5, 0.25);
  Space sp;
  sp.axis("calc", 2).axis("subset", 1 << 12).axis("data", 3);
  auto valid = [&](const std::vector<int>& idx) {
    int pc = popcount(idx[1]);
    if (pc < 2 || pc > (C.thorough() ? 12 : 5)) return false;
    if (!C.thorough() && pc == 5 && idx[1] % 3) return false;
    if (C.thorough() && idx[2] && pc > 8 && idx[1] % 4) return false;   // widened data on a quarter of the big subsets
    return true;
  };
  for_each_valid(C, sp, valid, [&](uint64_t id, const std::vector<int>& idx) {
    VCase c; c.ndim = 3; c.calc = idx[0] ? COVARIANCE_NC : VARIOGRAM;
    std::vector<double> z;
    for (int k = 0; k < 12; k++) if (idx[1] >> k & 1) { c.x.push_back(all[k]); z.push_back((double)((k * k + k) % 5)); }
    c.z.push_back(z);
    c.dirs = dirs;
    widen(c, idx[2]);
    runAndJudge(C, c, std::to_string(id), id);
  });
  setDim(2);
}

// ---- part: larger data sets (the pruning needs many samples to matter) ---------------------------------------------------
VF_PART(larger_sets)
{
  setDim(2);
  std::vector<Dir> dirs = dirs2D(true);
  addCodirMenu(dirs, 2, 3, 1., 0.5);
  Space sp;
  sp.axis("calc", 4).axis("layout", 6).axis("weights", 2).axis("order", 3).axis("data", 2);
  for_each_case(C, sp, [&](uint64_t id, const std::vector<int>& idx) {
    static const int calcs[] = {VARIOGRAM, COVARIANCE, RODOGRAM, COVARIANCE_NC};
    VCase c; c.calc = calcs[idx[0]];
    int L = 4 + idx[1];   // 4x4 .. 9x9 lattice, checkerboard-thinned for odd layouts
    std::vector<double> z, z2;
    for (int j = 0; j < L; j++) for (int i = 0; i < L; i++)
    {
      if ((idx[1] % 2) && ((i + 2 * j) % 5 == 0)) continue;
      c.x.push_back({(double)i, (double)j, 0});
      z.push_back((double)((i * i + 3 * j + i * j) % 7)); z2.push_back((double)((2 * i + j * j) % 5));
      if (idx[2]) c.w.push_back(1. + ((i + j) % 4) * 0.25);
    }
    c.hasW = idx[2];
    if (idx[3])
    {
      // reorder: reversed, or a multiplicative shuffle (stride coprime with n)
      size_t n = c.x.size();
      size_t stride = 7; while (std::__gcd(stride, n) != 1) stride += 2;
      std::vector<P3> X(n); std::vector<double> a(n), b(n), w(n);
      for (size_t k = 0; k < n; k++)
      {
        size_t o = idx[3] == 1 ? n - 1 - k : (k * stride) % n;
        X[k] = c.x[o]; a[k] = z[o]; b[k] = z2[o]; if (c.hasW) w[k] = c.w[o];
      }
      c.x = X; z = a; z2 = b; if (c.hasW) c.w = w;
    }
    c.z.push_back(z); c.z.push_back(z2);
    c.dirs = dirs;
    widen(c, idx[4]);
    runAndJudge(C, c, std::to_string(id), id);
    C.sample("{\"id\":" + std::to_string(id) + ",\"n\":" + std::to_string(c.x.size()) + ",\"calc\":" + jstr(calcName[c.calc]) + "}");
  });
}

// ---- grid algorithm (DirParam::createFromGrid / VarioParam::createMultipleFromGrid + _calculateOnGridSolution) ----------
// Three-way comparison for EVERY (ivar,jvar) pair and every lag:
//   (1) grid algorithm  vs  brute-force definition: pairs (node, node + k*grincr), k = 1..npas-1, lag k, distance k*|grincr.dx|,
//       a pair contributing to (ivar,jvar) iff both variables are defined at both nodes (same rules as the general reference);
//   (2) general algorithm on the same nodes taken as isolated points (direction = grid direction, tiny tolerances) vs its own
//       brute-force reference;
//   (3) grid algorithm vs general algorithm, slot by slot, for ALL calculation types (also those without a written
//       definition: the statement says the two algorithms agree on gridded data).
struct GCase
{
  int ndim = 2;
  std::vector<int> nn;            // nodes per axis
  std::vector<double> dx;
  bool rot = false;
  int calc = 0;
  std::vector<std::vector<double>> z;   // [nvar][n]
  bool hasW = false; std::vector<double> w;
  bool hasSel = false; std::vector<char> sel;
  int npas = 3;
  std::vector<std::vector<int>> gis;    // grid increments, one per direction
  bool multiple = false;                // directions from VarioParam::createMultipleFromGrid instead
};

static RefDir gridReference(const GCase& g, const std::vector<int>& gi, double step)
{
  RefDir r;
  int nvar = (int)g.z.size(), npas = g.npas;
  bool asym = isAsym(g.calc);
  int nslot = asym ? 2 * npas + 1 : npas;
  r.acc.assign(nvar * (nvar + 1) / 2, std::vector<Acc>(nslot));
  r.orthoLag.assign(npas, 0);
  int n = 1; for (int v : g.nn) n *= v;
  std::vector<int> ind(g.ndim), ind2(g.ndim);
  for (int a = 0; a < n; a++)
  {
    int t = a; for (int d = 0; d < g.ndim; d++) { ind[d] = t % g.nn[d]; t /= g.nn[d]; }
    if (g.hasSel && !g.sel[a]) continue;
    for (int k = 1; k < npas; k++)
    {
      bool in = true; int b = 0, mul = 1;
      for (int d = 0; d < g.ndim; d++) { ind2[d] = ind[d] + k * gi[d]; if (ind2[d] < 0 || ind2[d] >= g.nn[d]) in = false; b += ind2[d] * mul; mul *= g.nn[d]; }
      if (!in) continue;
      if (g.hasSel && !g.sel[b]) continue;
      r.npairs++;
      double ww = (g.hasW ? g.w[a] : 1.) * (g.hasW ? g.w[b] : 1.), d = k * step;
      for (int iv = 0; iv < nvar; iv++)
        for (int jv = 0; jv <= iv; jv++)
        {
          double a1 = g.z[iv][a], a2 = g.z[iv][b], b1 = g.z[jv][a], b2 = g.z[jv][b];
          if (FFFF(a1) || FFFF(a2) || FFFF(b1) || FFFF(b2)) continue;
          std::vector<Acc>& A = r.acc[iv * (iv + 1) / 2 + jv];
          if (!asym) { A[k].sw += ww; A[k].sh += ww * d; A[k].sg += ww * pairValue(g.calc, a2 - a1, b2 - b1); }
          else
          {
            A[npas + 1 + k].sw += ww; A[npas + 1 + k].sh += ww * d; A[npas + 1 + k].sg += ww * a1 * b2;
            A[npas - 1 - k].sw += ww; A[npas - 1 - k].sh += ww * d; A[npas - 1 - k].sg += ww * a2 * b1;
          }
        }
    }
  }
  return r;
}

static std::string gridText(const GCase& g)
{
  std::ostringstream o;
  o << " [GRID " << g.nn[0]; for (int d = 1; d < g.ndim; d++) o << "x" << g.nn[d];
  o << " mesh " << vstr(g.dx) << (g.rot ? " rotated 30deg" : "") << " npas " << g.npas << (g.multiple ? " directions from createMultipleFromGrid" : " grincr");
  if (!g.multiple) for (auto& gi : g.gis) o << " " << vstr(gi);
  o << "]";
  return o.str();
}

static bool sameVal(double a, double b, double tol, double scale)
{
  if (FFFF(a) || FFFF(b)) return FFFF(a) && FFFF(b);
  if (std::isnan(a) || std::isnan(b)) return std::isnan(a) && std::isnan(b);
  if (std::isinf(a) || std::isinf(b)) return a == b;
  return std::fabs(a - b) <= tol * std::max({scale, std::fabs(a), std::fabs(b)});
}

static void runGrid(Ctx& C, GCase& g, const std::string& kase, uint64_t sig)
{
  setDim(g.ndim);
  VectorInt nn(g.nn.begin(), g.nn.end()); VectorDouble dx(g.dx.begin(), g.dx.end());
  VectorDouble x0 = g.ndim == 2 ? VectorDouble {10., -4.} : VectorDouble {10., -4., 2.};
  VectorDouble ang; if (g.rot) { ang = VectorDouble(g.ndim, 0.); ang[0] = 30.; }
  DbGrid* grid = DbGrid::create(nn, dx, x0, ang);
  int n = grid->getSampleNumber(), nvar = (int)g.z.size();
  for (int iv = 0; iv < nvar; iv++) grid->addColumns(VectorDouble(g.z[iv].begin(), g.z[iv].end()), "z" + std::to_string(iv + 1), ELoc::Z, iv);
  if (g.hasW) grid->addColumns(VectorDouble(g.w.begin(), g.w.end()), "w", ELoc::W);
  if (g.hasSel) { VectorDouble s; for (char v : g.sel) s.push_back(v ? 1. : 0.); grid->addColumns(s, "sel", ELoc::SEL); }
  // directions
  VarioParam* vpg = nullptr;
  if (g.multiple)
  {
    vpg = VarioParam::createMultipleFromGrid(grid, g.npas);
    g.gis.clear();
    for (int d = 0; d < g.ndim; d++) { std::vector<int> gi(g.ndim, 0); gi[d] = 1; g.gis.push_back(gi); }
  }
  else
  {
    vpg = new VarioParam();
    for (auto& gi : g.gis) { DirParam* dp = DirParam::createFromGrid(grid, g.npas, VectorInt(gi.begin(), gi.end())); vpg->addDir(*dp); delete dp; }
  }
  std::string extra = gridText(g);
  if (vpg == nullptr || vpg->getDirectionNumber() != (int)g.gis.size())
  {
    C.eval(); C.violation("grid:directions", "the grid VarioParam does not hold the " + std::to_string(g.gis.size()) + " requested directions" + extra, kase);
    delete vpg; delete grid; return;
  }
  // the same nodes as isolated points + the equivalent general directions + the grid reference
  VCase c; c.ndim = g.ndim; c.calc = g.calc; c.z = g.z; c.hasW = g.hasW; c.w = g.w; c.hasSel = g.hasSel; c.sel = g.sel;
  for (int k = 0; k < n; k++) { VectorDouble xy(g.ndim); grid->getCoordinatesPerSampleInPlace(k, xy); P3 p {0, 0, 0}; for (int d = 0; d < g.ndim; d++) p[d] = xy[d]; c.x.push_back(p); }
  std::vector<RefDir> refs;
  for (size_t idir = 0; idir < g.gis.size(); idir++)
  {
    double step = 0; for (int d = 0; d < g.ndim; d++) step += (g.gis[idir][d] * g.dx[d]) * (g.gis[idir][d] * g.dx[d]);
    step = std::sqrt(step);
    refs.push_back(gridReference(g, g.gis[idir], step));
    Dir D; D.npas = g.npas; D.dpas = step; D.toldis = 0.01; D.tolang = 0.5;
    VectorDouble cd = vpg->getDirParam((int)idir).getCodirs(); D.codir.assign(cd.begin(), cd.end());
    c.dirs.push_back(D);
  }
  Vario *vg = nullptr, *vp = nullptr;
  // (1) grid algorithm vs definition
  runAndJudge(C, c, kase, sig, "grid", grid, vpg, &refs, &vg, "grid", extra);
  // (2) general algorithm on the same nodes vs its own reference
  runAndJudge(C, c, kase, Hash().u(sig).u(7).h, "vario", nullptr, nullptr, nullptr, &vp, nullptr, extra + " (grid nodes as points)");
  // (3) grid vs general, every slot of every variable pair
  if (vg != nullptr && vp != nullptr)
  {
    bool asym = isAsym(g.calc), hasNA = false;
    for (auto& zz : g.z) for (double t : zz) if (FFFF(t)) hasNA = true;
    double zscale = 1; for (auto& zz : g.z) for (double t : zz) if (!FFFF(t)) zscale = std::max(zscale, std::fabs(t));
    double gscale = g.calc == ORDER4 ? std::pow(2 * zscale, 4) : 4 * zscale * zscale;
    bool bad = false, any = false;
    C.eval();
    for (int idir = 0; idir < (int)g.gis.size() && !bad; idir++)
      for (int iv = 0; iv < nvar && !bad; iv++)
        for (int jv = 0; jv <= iv && !bad; jv++)
        {
          VectorDouble s1 = vg->getSwVec(idir, iv, jv, false), h1 = vg->getHhVec(idir, iv, jv, false), g1 = vg->getGgVec(idir, iv, jv, false, false, false);
          VectorDouble s2 = vp->getSwVec(idir, iv, jv, false), h2 = vp->getHhVec(idir, iv, jv, false), g2 = vp->getGgVec(idir, iv, jv, false, false, false);
          std::string kc = std::string(calcName[g.calc]) + (iv != jv ? ":cross" : "") + (hasNA ? ":heterotopic" : "");
          auto where = [&](size_t s) { return " dir#" + std::to_string(idir) + " var(" + std::to_string(iv) + "," + std::to_string(jv) + ") slot " + std::to_string(s) + " :: " + caseText(c, idir) + extra; };
          if (s1.size() != s2.size()) { C.violation("grid-vs-general:vector-size:" + kc, where(0), kase); bad = true; break; }
          for (size_t s = 0; s < s1.size(); s++)
          {
            if (asym && (int)s == g.npas) continue;   // C(0): patched by the same code in both paths, not a pair statistic
            if (!sameVal(s1[s], s2[s], 1e-12, 1.)) { C.violation("grid-vs-general:sw:" + kc, "grid " + fmt(s1[s]) + " general " + fmt(s2[s]) + where(s), kase); bad = true; break; }
            if (s1[s] > 0) any = true;
            if (!sameVal(h1[s], h2[s], 1e-9, 1.)) { C.violation("grid-vs-general:hh:" + kc, "grid " + fmt(h1[s]) + " general " + fmt(h2[s]) + where(s), kase); bad = true; break; }
            if (!sameVal(g1[s], g2[s], 1e-9, gscale)) { C.violation("grid-vs-general:gg:" + kc, "grid " + fmt(g1[s]) + " general " + fmt(g2[s]) + where(s), kase); bad = true; break; }
          }
        }
    C.outcome(bad ? "VIOLATION:grid-differs-from-general" : any ? "ok:grid==general(pairs-present)" : "ok:grid==general(no-pair)");
    if (any) C.nontrivial(Hash().u(sig).u(9).h);
  }
  delete vg; delete vp; delete vpg; delete grid;
  setDim(2);
}

// undefined-value menus per variable on a grid of n nodes (k = node rank)
static double gridVal(int iv, int k, int pat)
{
  double v = iv == 0 ? (double)((k * k + 3 * k) % 7) : iv == 1 ? (double)((3 * k + 1) % 5) : (double)((k * k + k + 2) % 6);
  bool na = false;
  switch (pat)
  {
    case 0: break;                                                      // isotopic
    case 1: na = (iv == 0 && k % 3 == 0) || (iv == 1 && k % 4 == 1); break;   // scattered holes, different per variable
    case 2: na = (iv == 0 && k % 2 == 0); break;                        // Z1 missing on half of the nodes where Z2.. are defined
    case 3: na = (iv == 1 && k % 2 == 1) || (iv == 2 && k % 3 != 0); break;   // Z2 / Z3 sparse, Z1 complete
    case 4: na = (iv == 0); break;                                      // Z1 never defined
  }
  return na ? TEST : v;
}

// ---- part: grid, menus on 2..4 x 2..4 grids: nvar 1..3 x undefined patterns x weights x selection x all calculation types ----
VF_PART(grid)
{
  static const int GI[6][2] = {{1, 0}, {0, 1}, {1, 1}, {1, -1}, {2, 1}, {2, 0}};
  static const double DX[3][2] = {{1, 1}, {0.5, 2}, {1.5, 0.75}};
  Space sp;
  sp.axis("calc", NCALC).axis("nvar", 3).axis("na", 5).axis("w", 2).axis("sel", 2).axis("nx", 3).axis("ny", 3).axis("dx", 3).axis("rot", 2).axis("grincr", 7).axis("npas", 2);
  auto valid = [&](const std::vector<int>& idx) {
    int nvar = idx[1] + 1;
    if (nvar == 1 && idx[2] > 2) return false;          // patterns 3,4 need several variables
    if (nvar == 2 && idx[2] == 3) {}                       // fine
    if (!C.thorough())
    {
      if (idx[7] != 0 && !(idx[8] == 1 && idx[10] == 0)) return false;   // quick: non-unit meshes only rotated, short
      if (idx[5] == 1 && idx[6] == 1) return false;                      // quick: skip the 3x3 grid
      if (idx[3] && idx[4]) return false;                                // quick: weights and selection not together
      if (idx[9] >= 4 && idx[9] <= 5 && idx[0] > COVARIANCE_NC) return false;
    }
    return true;
  };
  for_each_valid(C, sp, valid, [&](uint64_t id, const std::vector<int>& idx) {
    GCase g;
    g.calc = idx[0];
    int nvar = idx[1] + 1;
    g.nn = {2 + idx[5], 2 + idx[6]}; g.dx = {DX[idx[7]][0], DX[idx[7]][1]}; g.rot = idx[8];
    int n = g.nn[0] * g.nn[1];
    g.z.assign(nvar, std::vector<double>(n));
    for (int iv = 0; iv < nvar; iv++) for (int k = 0; k < n; k++) g.z[iv][k] = gridVal(iv, k, idx[2]);
    g.hasW = idx[3]; if (g.hasW) for (int k = 0; k < n; k++) g.w.push_back(1. + ((k * 3) % 4) * 0.25);
    g.hasSel = idx[4]; if (g.hasSel) for (int k = 0; k < n; k++) g.sel.push_back(k % 5 != 2);
    g.npas = 3 + idx[10];
    if (idx[9] == 6) g.multiple = true; else g.gis = {{GI[idx[9]][0], GI[idx[9]][1]}};
    runGrid(C, g, std::to_string(id), id);
    if (id % 200003 == 17) C.sample("{\"id\":" + std::to_string(id) + ",\"axes\":" + sp.describe(idx) + "}");
  });
}

// ---- part: grid, EVERY defined/undefined pattern of every (node, variable) on tiny grids -----------------------------------
VF_PART(grid_all_patterns)
{
  struct T { int nx, ny, nvar; };
  static const T tiny[] = {{2, 2, 2}, {3, 2, 2}, {2, 2, 3}, {3, 1, 3}};
  static const int GI[3][2] = {{1, 0}, {0, 1}, {1, 1}};
  Space sp;
  sp.axis("calc", NCALC).axis("grid", 4).axis("grincr", 4).axis("rot", 2).axis("w", 2).axis("sel", 2).axis("pattern", 4096);
  auto valid = [&](const std::vector<int>& idx) {
    const T& t = tiny[idx[1]];
    int bits = t.nx * t.ny * t.nvar;
    if (idx[6] >> bits) return false;
    if (t.ny == 1 && (idx[2] == 1 || idx[2] == 2)) return false;   // a single row: only the x direction (and 'multiple')
    if (!C.thorough())
    {
      if (idx[3] || idx[4] || idx[5]) { if (bits > 8) return false; }   // quick: rotation / weights / selection on the 2x2x2 case only
      if (bits > 8 && idx[2] == 1) return false;
    }
    else if (bits > 8 && idx[4] && idx[5]) return false;
    return true;
  };
  for_each_valid(C, sp, valid, [&](uint64_t id, const std::vector<int>& idx) {
    const T& t = tiny[idx[1]];
    GCase g;
    g.calc = idx[0];
    g.nn = {t.nx, t.ny}; g.dx = {1., 0.75}; g.rot = idx[3];
    int n = t.nx * t.ny;
    g.z.assign(t.nvar, std::vector<double>(n));
    for (int iv = 0; iv < t.nvar; iv++) for (int k = 0; k < n; k++)
      g.z[iv][k] = (idx[6] >> (iv * n + k) & 1) ? TEST : gridVal(iv, k, 0);
    g.hasW = idx[4]; if (g.hasW) for (int k = 0; k < n; k++) g.w.push_back(1. + ((k * 3) % 4) * 0.25);
    g.hasSel = idx[5]; if (g.hasSel) for (int k = 0; k < n; k++) g.sel.push_back(k != 1);
    g.npas = 3;
    if (idx[2] == 3) g.multiple = true; else g.gis = {{GI[idx[2]][0], GI[idx[2]][1]}};
    runGrid(C, g, std::to_string(id), id);
    if (id % 1000003 == 29) C.sample("{\"id\":" + std::to_string(id) + ",\"axes\":" + sp.describe(idx) + "}");
  });
}

// ---- part: 3-D grids ------------------------------------------------------------------------------------------------------------
VF_PART(grid_3d)
{
  static const int GI[6][3] = {{1, 0, 0}, {0, 1, 0}, {0, 0, 1}, {1, 1, 0}, {0, 1, 1}, {1, 0, -1}};
  Space sp;
  sp.axis("calc", NCALC).axis("nvar", 2).axis("na", 4).axis("w", 2).axis("sel", 2).axis("rot", 2).axis("grincr", 7).axis("shape", 2);
  auto valid = [&](const std::vector<int>& idx) {
    if (!C.thorough() && ((idx[3] && idx[4]) || (idx[5] && idx[7]))) return false;
    return true;
  };
  for_each_valid(C, sp, valid, [&](uint64_t id, const std::vector<int>& idx) {
    GCase g; g.ndim = 3;
    g.calc = idx[0];
    int nvar = idx[1] + 2;
    g.nn = idx[7] ? std::vector<int> {2, 3, 3} : std::vector<int> {3, 2, 2}; g.dx = {1., 0.75, 0.5}; g.rot = idx[5];
    int n = g.nn[0] * g.nn[1] * g.nn[2];
    static const int pats[] = {0, 1, 2, 3};
    g.z.assign(nvar, std::vector<double>(n));
    for (int iv = 0; iv < nvar; iv++) for (int k = 0; k < n; k++) g.z[iv][k] = gridVal(iv, k, pats[idx[2]]);
    g.hasW = idx[3]; if (g.hasW) for (int k = 0; k < n; k++) g.w.push_back(1. + ((k * 3) % 4) * 0.25);
    g.hasSel = idx[4]; if (g.hasSel) for (int k = 0; k < n; k++) g.sel.push_back(k % 5 != 2);
    g.npas = 3;
    if (idx[6] == 6) g.multiple = true; else g.gis = {{GI[idx[6]][0], GI[idx[6]][1], GI[idx[6]][2]}};
    runGrid(C, g, std::to_string(id), id);
  });
}

// ---- part: variogram maps of gridded data (db_vmap): FFT route vs direct route vs pairwise definition -------------------------
// Cell (l_1,..,l_d) of the map = the lag vector l (in grid meshes). Judged, for every cell and every variable pair:
//   * number of pairs with that separation (both FFT and direct route), exactly (FFT: to 1e-7);
//   * variogram: half mean (cross-)increment product over those pairs; non-centred covariance: mean of z_i(x)*z_j(x+l);
//     symmetry of the variogram map in +-l;
//   * FFT route == direct route (`flag_FFT=false`) cell by cell wherever the cell holds pairs;
//   * centred covariance: pair counts only (the FFT route centres with per-lag means, the direct route does not centre:
//     no written definition to arbitrate).
// The orientation of the cross non-centred covariance (which variable is the tail of +l) is read on the first case that
// determines it and must then be the same for every other case and for both routes.
static int g_vmapOrient = 0;
static std::vector<std::string> namesWith(const Db* db, const std::string& key)
{
  std::vector<std::string> out;
  for (const auto& n : db->getAllNames()) if (n.find(key) != std::string::npos) out.push_back(n);
  return out;
}
struct MCase { std::vector<int> nn, half; int calc; std::vector<std::vector<double>> z; };
static void runVmap(Ctx& C, const MCase& m, const std::string& kase, uint64_t sig)
{
  int ndim = (int)m.nn.size(), nvar = (int)m.z.size();
  setDim(ndim);
  VectorInt nn(m.nn.begin(), m.nn.end()); VectorDouble dx(ndim, 1.), x0(ndim, 0.);
  DbGrid* grid = DbGrid::create(nn, dx, x0);
  int n = grid->getSampleNumber();
  for (int iv = 0; iv < nvar; iv++) grid->addColumns(VectorDouble(m.z[iv].begin(), m.z[iv].end()), "z" + std::to_string(iv + 1), ELoc::Z, iv);
  VectorInt half(m.half.begin(), m.half.end());
  std::string desc = "db_vmap calc=" + std::string(calcName[m.calc]) + " grid " + vstr(m.nn) + " half-size " + vstr(m.half) + " nvar " + std::to_string(nvar) + " z1=" + vstr(m.z[0]) + (nvar > 1 ? " z2=" + vstr(m.z[1]) : "");
  DbGrid* mf = db_vmap(grid, calcEnum(m.calc), half, VectorDouble(), 0, true);
  DbGrid* md = db_vmap(grid, calcEnum(m.calc), half, VectorDouble(), 0, false);
  C.eval(2);
  if (mf == nullptr || md == nullptr)
  {
    C.violation(std::string("vmap:compute-failed:") + (mf == nullptr ? "fft" : "direct"), desc, kase);
    delete mf; delete md; delete grid; setDim(2); return;
  }
  // output layout: the map grid (rank + coordinates) is followed by nvar*(nvar+1)/2 value columns then as many pair-count
  // columns, ordered (0,0),(1,0),(1,1).. (with several variables only the first nvar of each block get a VMAP.* name, so
  // the columns are addressed by rank, not by name)
  int nv2 = nvar * (nvar + 1) / 2;
  int col0 = 1 + ndim;
  if (mf->getColumnNumber() != col0 + 2 * nv2 || md->getColumnNumber() != col0 + 2 * nv2)
  {
    C.violation("vmap:output-columns", "expected " + std::to_string(2 * nv2) + " result columns, found " + std::to_string(mf->getColumnNumber() - col0) + " :: " + desc, kase);
    delete mf; delete md; delete grid; setDim(2); return;
  }
  auto column = [&](DbGrid* db, int icol) { VectorDouble v(db->getSampleNumber()); for (int k = 0; k < db->getSampleNumber(); k++) v[k] = db->getValueByColIdx(k, icol); return v; };
  double zscale = 1; for (auto& zz : m.z) for (double t : zz) if (!FFFF(t)) zscale = std::max(zscale, std::fabs(t));
  double gscale = 4 * zscale * zscale;
  int ncell = mf->getSampleNumber();
  bool bad = false, any = false;
  int ijvar = 0;
  for (int iv = 0; iv < nvar && !bad; iv++)
    for (int jv = 0; jv <= iv && !bad; jv++, ijvar++)
    {
      VectorDouble cF = column(mf, col0 + nv2 + ijvar), gF = column(mf, col0 + ijvar), cD = column(md, col0 + nv2 + ijvar), gD = column(md, col0 + ijvar);
      // brute force per cell
      std::vector<double> cnt(ncell, 0.), sA(ncell, 0.), sB(ncell, 0.);
      std::vector<int> lag(ndim), a(ndim), b(ndim);
      for (int cell = 0; cell < ncell; cell++)
      {
        int t = cell; for (int d = 0; d < ndim; d++) { lag[d] = t % (2 * m.half[d] + 1) - m.half[d]; t /= (2 * m.half[d] + 1); }
        for (int ia = 0; ia < n; ia++)
        {
          int u = ia, ib = 0, mul = 1; bool in = true;
          for (int d = 0; d < ndim; d++) { a[d] = u % m.nn[d]; u /= m.nn[d]; b[d] = a[d] + lag[d]; if (b[d] < 0 || b[d] >= m.nn[d]) in = false; ib += b[d] * mul; mul *= m.nn[d]; }
          if (!in) continue;
          double a1 = m.z[iv][ia], a2 = m.z[iv][ib], b1 = m.z[jv][ia], b2 = m.z[jv][ib];
          if (m.calc == VARIOGRAM)
          {
            if (FFFF(a1) || FFFF(a2) || FFFF(b1) || FFFF(b2)) continue;
            cnt[cell] += 1; sA[cell] += 0.5 * (a2 - a1) * (b2 - b1);
          }
          else
          {
            // ordered pair (tail ia, head ib = ia + lag): convention A = z_iv(tail)*z_jv(head), B = z_jv(tail)*z_iv(head)
            if (!FFFF(a1) && !FFFF(b2)) { sA[cell] += a1 * b2; }
            if (!FFFF(b1) && !FFFF(a2)) { sB[cell] += b1 * a2; }
            if (!FFFF(a1) && !FFFF(b2) && !FFFF(b1) && !FFFF(a2)) cnt[cell] += 1;
          }
        }
      }
      bool hetero = false; for (auto& zz : m.z) for (double t : zz) if (FFFF(t)) hetero = true;
      std::string kc = std::string(calcName[m.calc]) + (iv != jv ? ":cross" : "") + (hetero ? ":undefined-nodes" : "");
      // covariances on data with undefined nodes: which ends must be defined is not written -> counts judged on isotopic data
      // or on the direct terms of the variogram only
      bool judgeCount = m.calc == VARIOGRAM || !hetero;
      bool judgeVal = (m.calc == VARIOGRAM || m.calc == COVARIANCE_NC) && judgeCount;
      int orient = 0;
      if (judgeVal && m.calc == COVARIANCE_NC && iv != jv)
      {
        bool okA = true, okB = true;
        for (int cell = 0; cell < ncell; cell++)
          if (cnt[cell] > 0) { if (std::fabs(gF[cell] - sA[cell] / cnt[cell]) > 1e-9 * gscale) okA = false; if (std::fabs(gF[cell] - sB[cell] / cnt[cell]) > 1e-9 * gscale) okB = false; }
        if (okA != okB) { int o = okA ? 1 : -1; if (g_vmapOrient == 0) g_vmapOrient = o; orient = o; }
        else if (okA && okB) orient = g_vmapOrient ? g_vmapOrient : 1;   // symmetric data: nothing to learn
        else orient = g_vmapOrient ? g_vmapOrient : 1;
        if (g_vmapOrient && orient != g_vmapOrient)
        { C.violation("vmap:orientation-changes:" + kc, "the cross covariance map follows the opposite orientation convention to the one seen before in this run :: " + desc, kase); bad = true; break; }
      }
      for (int cell = 0; cell < ncell && !bad; cell++)
      {
        int t = cell; std::string ls = "(";
        for (int d = 0; d < ndim; d++) { lag[d] = t % (2 * m.half[d] + 1) - m.half[d]; t /= (2 * m.half[d] + 1); ls += (d ? "," : "") + std::to_string(lag[d]); }
        ls += ")";
        auto where = [&]() { return " lag " + ls + " var(" + std::to_string(iv) + "," + std::to_string(jv) + ") :: " + desc; };
        if (judgeCount)
        {
          if (FFFF(cF[cell]) || std::fabs(cF[cell] - cnt[cell]) > 1e-7) { C.violation("vmap:fft:pairs:" + kc, "FFT map reports " + fmt(cF[cell]) + " pairs, the definition gives " + fmt(cnt[cell]) + where(), kase); bad = true; break; }
          if (FFFF(cD[cell]) || cD[cell] != cnt[cell]) { C.violation("vmap:direct:pairs:" + kc, "direct map reports " + fmt(cD[cell]) + " pairs, the definition gives " + fmt(cnt[cell]) + where(), kase); bad = true; break; }
        }
        else if (iv != jv) { if (cell == 0) C.outcome("not-judged:cross-covariance-map-of-data-with-undefined-nodes(FFT-and-direct-routes-count-differently)"); }
        else if (std::fabs(cF[cell] - cD[cell]) > 1e-7) { C.violation("vmap:fft-vs-direct:pairs:" + kc, "FFT " + fmt(cF[cell]) + " direct " + fmt(cD[cell]) + where(), kase); bad = true; break; }
        if (cnt[cell] <= 0 || !judgeVal) continue;
        any = true;
        double ref = (orient == -1 ? sB[cell] : sA[cell]) / cnt[cell];
        if (FFFF(gF[cell]) || std::fabs(gF[cell] - ref) > 1e-9 * gscale) { C.violation("vmap:fft:value:" + kc, "FFT map value " + fmt(gF[cell]) + ", the definition gives " + fmt(ref) + where(), kase); bad = true; break; }
        if (FFFF(gD[cell]) || std::fabs(gD[cell] - ref) > 1e-10 * gscale) { C.violation("vmap:direct:value:" + kc, "direct map value " + fmt(gD[cell]) + ", the definition gives " + fmt(ref) + where(), kase); bad = true; break; }
        if (m.calc == VARIOGRAM)
        {
          int opp = ncell - 1 - cell;   // cell of -l
          if (std::fabs(gF[cell] - gF[opp]) > 1e-9 * gscale || std::fabs(cF[cell] - cF[opp]) > 1e-7) { C.violation("vmap:fft:not-symmetric:" + kc, "cells +l and -l differ: " + fmt(gF[cell]) + " / " + fmt(gF[opp]) + where(), kase); bad = true; break; }
        }
      }
    }
  bool resonance = false;
  for (int d = 0; d < ndim; d++) if (m.nn[d] > 1 && (m.nn[d] + m.half[d] - 1) % 8 == 0) resonance = true;
  C.outcome(bad ? "VIOLATION" : resonance ? "ok:(nx+half-1)%8==0-in-some-dimension" : "ok:other-shapes");
  if (any) C.nontrivial(sig);
  delete mf; delete md; delete grid;
  setDim(2);
}
static double vmapVal(int iv, int k, int pat)
{
  double v = iv == 0 ? (double)((k * k + 3 * k) % 7) + 0.25 * (k % 3) : (double)((5 * k + 1) % 6) - 0.5 * (k % 2);
  bool na = pat == 1 ? ((k + iv) % 5 == 1) : pat == 2 ? (iv == 0 ? k % 3 == 0 : k % 4 == 2) : false;
  return na ? TEST : v;
}
VF_PART(vmap_grid)
{
  // 2-D grids nx x ny: nx 3..20 (thorough ..26) with every half-size lx 1..nx-1 capped (every residue of (nx+lx-1) mod 8 and
  // every padded length 8,16,24,32,..), ny in {1,2,5}; 3-D 4..9 x 3 x 2
  static const int calcs[] = {VARIOGRAM, COVARIANCE_NC, COVARIANCE};
  int nxmax = C.thorough() ? 26 : 20;
  Space sp;
  sp.axis("calc", 3).axis("nvar", 2).axis("na", 3).axis("shape", 4).axis("lx", 12).axis("nx", nxmax - 2);
  auto valid = [&](const std::vector<int>& idx) {
    int nx = 3 + idx[5], lx = 1 + idx[4];
    if (lx > nx + 1) return false;                    // half-sizes beyond the grid are kept up to nx+1 (empty border cells)
    if (idx[3] == 3 && nx > 9) return false;          // 3-D only for small nx
    if (!C.thorough() && idx[1] == 1 && idx[2] == 1) return false;
    return true;
  };
  for_each_valid(C, sp, valid, [&](uint64_t id, const std::vector<int>& idx) {
    MCase m; m.calc = calcs[idx[0]];
    int nx = 3 + idx[5], lx = 1 + idx[4], nvar = idx[1] + 1;
    switch (idx[3])
    {
      case 0: m.nn = {nx, 1}; m.half = {lx, 0}; break;
      case 1: m.nn = {nx, 2}; m.half = {lx, 1}; break;
      case 2: m.nn = {5, nx}; m.half = {2, lx}; break;       // the long axis second
      default: m.nn = {nx, 3, 2}; m.half = {lx, 1, 1}; break;
    }
    int n = 1; for (int v : m.nn) n *= v;
    m.z.assign(nvar, std::vector<double>(n));
    for (int iv = 0; iv < nvar; iv++) for (int k = 0; k < n; k++) m.z[iv][k] = vmapVal(iv, k, idx[2]);
    runVmap(C, m, std::to_string(id), id);
    if (id % 5003 == 9) C.sample("{\"id\":" + std::to_string(id) + ",\"grid\":" + vstr(m.nn) + ",\"half\":" + vstr(m.half) + ",\"calc\":" + jstr(calcName[m.calc]) + "}");
  });
}

int main(int argc, char** argv)
{
  return run_main(argc, argv, [](Ctx&) { silence(); setDim(2); calibrateOrientation(); });
}
