// C03 — every offered covariance model is a valid (positive semi-definite) model with its published closed form.
//
// Engine E1.  Complete enumeration of  structure x space dimension x shape parameter x range x anisotropy x rotation
// x point set.  For every case the REAL library builds the model (Model::createFromParam) and the covariance matrix
// of the point set (Model::evalCovMatrixSymmetric / evalCovMatrix / eval); the harness judges it with
//   * an eigen-decomposition (Eigen::SelfAdjointEigenSolver): PSD, or conditional PSD on the increments that filter the
//     monomials of degree <= getMinOrder() for the intrinsic structures (projector built here);
//   * an independent table of published closed forms (Chiles & Delfiner 2012 ch. 2/4, Wendland 1995, Storkey 1999,
//     Zastavnyi 1993 for the damped cosine) written in terms of the normalised distance t = |D^-1 R^t h| with the
//     harness's own rotation matrices.  Nothing below is copied from a _evaluateCov body.
// Heredity: a principal sub-matrix of a PSD matrix is PSD, so one matrix decides all subsets of the point set.
#include "vf/gst.hpp"

#include "Covariances/CovAniso.hpp"
#include "Covariances/CovCalcMode.hpp"
#include "Covariances/CovContext.hpp"
#include "Covariances/CovFactory.hpp"
#include "Enum/ECov.hpp"
#include "Geometry/Rotation.hpp"
#include "Matrix/MatrixRectangular.hpp"
#include "Matrix/MatrixSquareSymmetric.hpp"
#include "Model/Model.hpp"
#include "Space/SpacePoint.hpp"
#include "Space/SpaceRN.hpp"

#include <Eigen/Dense>
#include <memory>

using namespace vf;
typedef Eigen::MatrixXd Mat;

// ------------------------------------------------------------------------------------------------------------
// Reference table (independent of the library's evaluation code)
enum Kind { STAT, INTRINSIC, NOT_ON_RN };
struct Info
{
  const char* key;   // ECov key
  Kind kind;
  int order;         // published order of the generalised covariance (-1 stationary)
  int maxdim;        // published validity: largest space dimension (99 = any)
  bool compact;      // published compact support [0, range]
  bool hasForm;      // a published closed form is in the table
  int nparam;        // size of the admissible shape-parameter menu (0: no parameter)
  double params[6];
};
static const Info TABLE[] = {
  {"NUGGET", STAT, -1, 99, false, true, 0, {}},
  {"EXPONENTIAL", STAT, -1, 99, false, true, 0, {}},
  {"SPHERICAL", STAT, -1, 3, true, true, 0, {}},
  {"GAUSSIAN", STAT, -1, 99, false, true, 0, {}},
  {"CUBIC", STAT, -1, 3, true, true, 0, {}},
  {"SINCARD", STAT, -1, 3, false, true, 0, {}},
  {"BESSELJ", STAT, -1, 99, false, true, 4, {0.25, 0.5, 1., 2.}},  // valid in R^d iff alpha >= d/2-1
  {"MATERN", STAT, -1, 99, false, true, 5, {0.25, 0.5, 1., 1.5, 2.5}},
  {"GAMMA", STAT, -1, 99, false, true, 3, {0.5, 1., 2.}},
  {"CAUCHY", STAT, -1, 99, false, true, 3, {0.5, 1., 2.}},
  {"STABLE", STAT, -1, 99, false, true, 4, {0.5, 1., 1.5, 2.}},
  {"LINEAR", INTRINSIC, 0, 99, false, true, 0, {}},
  {"POWER", INTRINSIC, 0, 99, false, true, 4, {0.5, 1., 1.5, 1.99}},
  {"ORDER1_GC", INTRINSIC, 0, 99, false, true, 0, {}},
  {"SPLINE_GC", INTRINSIC, 1, 99, false, true, 0, {}},
  {"ORDER3_GC", INTRINSIC, 1, 99, false, true, 0, {}},
  {"ORDER5_GC", INTRINSIC, 2, 99, false, true, 0, {}},
  {"COSINUS", STAT, -1, 1, false, true, 0, {}},
  {"TRIANGLE", STAT, -1, 1, true, true, 0, {}},
  {"COSEXP", STAT, -1, 99, false, true, 5, {0.25, 1., 4., 8., 16.}},  // valid iff 2pi/period <= tan(pi/2d)
  {"REG1D", STAT, -1, 1, true, false, 0, {}},
  {"PENTA", STAT, -1, 3, true, true, 0, {}},
  {"SPLINE2_GC", INTRINSIC, 2, 3, false, false, 0, {}},
  {"STORKEY", STAT, -1, 1, true, true, 0, {}},
  {"WENDLAND0", STAT, -1, 3, true, true, 0, {}},
  {"WENDLAND1", STAT, -1, 3, true, true, 0, {}},
  {"WENDLAND2", STAT, -1, 3, true, true, 0, {}},
  {"MARKOV", NOT_ON_RN, -1, 99, false, false, 0, {}},
  {"GEOMETRIC", NOT_ON_RN, -1, 99, false, false, 0, {}},
  {"POISSON", NOT_ON_RN, -1, 99, false, false, 0, {}},
  {"LINEARSPH", NOT_ON_RN, -1, 99, false, false, 0, {}},
};
static const int NTYPE = sizeof(TABLE) / sizeof(TABLE[0]);
static const double PI = 3.14159265358979323846;

// published scale factor: range = scadef * scale ("practical range" = distance where 95 % of the sill is reached for the
// asymptotic structures). <0: not judged (pure convention of the library)
static double refScadef(const std::string& k, double p)
{
  if (k == "EXPONENTIAL" || k == "COSEXP") return -std::log(0.05);
  if (k == "GAUSSIAN") return std::sqrt(-std::log(0.05));
  if (k == "STABLE") return std::pow(3., 1. / p);
  if (k == "GAMMA") return std::pow(20., 1. / p) - 1.;
  if (k == "CAUCHY") return std::sqrt(std::pow(20., 1. / p) - 1.);
  if (k == "SPHERICAL" || k == "CUBIC" || k == "TRIANGLE" || k == "PENTA" || k == "STORKEY" || k == "WENDLAND0" || k == "WENDLAND1" ||
      k == "WENDLAND2" || k == "COSINUS")
    return 1.;
  return -1.;
}

// correlation rho(t), t = distance normalised by the SCALE. Stationary structures.
static double refRho(const std::string& k, double t, double p)
{
  if (k == "NUGGET") return t == 0. ? 1. : 0.;
  if (k == "EXPONENTIAL") return std::exp(-t);
  if (k == "SPHERICAL") return t < 1. ? 1. - 1.5 * t + 0.5 * t * t * t : 0.;
  if (k == "GAUSSIAN") return std::exp(-t * t);
  if (k == "CUBIC") return t < 1. ? 1. - 7. * t * t + 8.75 * t * t * t - 3.5 * std::pow(t, 5) + 0.75 * std::pow(t, 7) : 0.;
  if (k == "SINCARD") return t == 0. ? 1. : std::sin(t) / t;
  if (k == "BESSELJ")
  {
    if (t == 0.) return 1.;
    if (p == 0.5) return std::sin(t) / t;
    return std::pow(2., p) * std::tgamma(p + 1.) * std::cyl_bessel_j(p, t) / std::pow(t, p);
  }
  if (k == "MATERN")
  {
    if (t == 0.) return 1.;
    if (p == 0.5) return std::exp(-t);
    if (p == 1.5) return (1. + t) * std::exp(-t);
    if (p == 2.5) return (1. + t + t * t / 3.) * std::exp(-t);
    return std::pow(2., 1. - p) / std::tgamma(p) * std::pow(t, p) * std::cyl_bessel_k(p, t);
  }
  if (k == "GAMMA") return std::pow(1. + t, -p);
  if (k == "CAUCHY") return std::pow(1. + t * t, -p);
  if (k == "STABLE") return std::exp(-std::pow(t, p));
  if (k == "COSINUS") return std::cos(2. * PI * t);
  if (k == "TRIANGLE") return t < 1. ? 1. - t : 0.;
  if (k == "COSEXP") return std::exp(-t) * std::cos(2. * PI * t / p);
  if (k == "PENTA") return t < 1. ? 1. - 1.875 * t + 1.25 * t * t * t - 0.375 * std::pow(t, 5) : 0.;  // pentaspherical
  if (k == "STORKEY") return t < 1. ? (2. * (1. - t) * (1. + std::cos(2. * PI * t) / 2.) + 3. / (2. * PI) * std::sin(2. * PI * t)) / 3. : 0.;
  if (k == "WENDLAND0") return t < 1. ? (1. - t) * (1. - t) : 0.;
  if (k == "WENDLAND1") return t < 1. ? std::pow(1. - t, 4) * (4. * t + 1.) : 0.;
  if (k == "WENDLAND2") return t < 1. ? std::pow(1. - t, 6) * (35. * t * t + 18. * t + 3.) / 3. : 0.;
  return std::nan("");
}
// generalised covariance K(t) (defined up to an even polynomial of degree <= 2*order)
static double refK(const std::string& k, double t, double p)
{
  if (k == "LINEAR" || k == "ORDER1_GC") return -t;
  if (k == "POWER") return -std::pow(t, p);
  if (k == "SPLINE_GC") return t == 0. ? 0. : t * t * std::log(t);
  if (k == "ORDER3_GC") return t * t * t;
  if (k == "ORDER5_GC") return -std::pow(t, 5);
  return std::nan("");
}
// admissible shape parameters added in the thorough tier
static std::vector<double> extraParams(const std::string& k)
{
  if (k == "BESSELJ") return {0.75, 1.5};
  if (k == "MATERN") return {0.1, 0.75, 3.5};
  if (k == "GAMMA") return {0.75, 4.};
  if (k == "CAUCHY") return {0.75, 4.};
  if (k == "STABLE") return {0.25, 1.75};
  if (k == "POWER") return {0.1, 1.9};
  if (k == "COSEXP") return {2., 32.};
  return {};
}
static const int NPARAM_AXIS = 8;
// parameter of index ip (-1e300: no such index in this tier)
static double paramOf(const Info& I, int ip, bool thorough)
{
  if (I.nparam == 0) return ip == 0 ? 1. : -1e300;
  if (ip < I.nparam) return I.params[ip];
  if (!thorough) return -1e300;
  std::vector<double> e = extraParams(I.key);
  return ip - I.nparam < (int)e.size() ? e[ip - I.nparam] : -1e300;
}
// published validity of the (structure, parameter) in dimension d
static bool refValid(const Info& I, int d, double p)
{
  std::string k = I.key;
  if (d > I.maxdim) return false;
  if (k == "BESSELJ") return p >= d / 2. - 1.;
  if (k == "COSEXP") return d == 1 || 2. * PI / p <= std::tan(PI / (2. * d)) * (1. + 1e-12);
  return true;
}

// ------------------------------------------------------------------------------------------------------------
// Geometry of the harness: rotation matrices (angles in degrees, trigonometric sense; 3-D: yaw about Oz, pitch about Oy',
// roll about Ox''), columns = rotated axes; first range along the first rotated axis.
static void sincosd(double a, double& c, double& s)
{
  // exact values at the multiples of 90 degrees, as any sensible implementation
  double r = std::fmod(a, 360.); if (r < 0) r += 360.;
  if (r == 0.) { c = 1; s = 0; } else if (r == 90.) { c = 0; s = 1; } else if (r == 180.) { c = -1; s = 0; } else if (r == 270.) { c = 0; s = -1; }
  else { c = std::cos(a * PI / 180.); s = std::sin(a * PI / 180.); }
}
static Mat refRot(int nd, const std::vector<double>& ang)
{
  Mat R = Mat::Identity(nd, nd);
  if (nd == 2)
  {
    double c, s; sincosd(ang[0], c, s);
    R << c, -s, s, c;
  }
  else if (nd == 3)
  {
    double c, s;
    Mat Rz(3, 3), Ry(3, 3), Rx(3, 3);
    sincosd(ang[0], c, s); Rz << c, -s, 0, s, c, 0, 0, 0, 1;
    sincosd(ang[1], c, s); Ry << c, 0, s, 0, 1, 0, -s, 0, c;
    sincosd(ang[2], c, s); Rx << 1, 0, 0, 0, c, -s, 0, s, c;
    R = Rz * Ry * Rx;
  }
  return R;
}
struct Geo
{
  int nd;
  std::vector<double> ranges;  // per rotated axis (range units)
  std::vector<double> angles;  // empty: none
  Mat R;
  bool aniso() const { for (double r : ranges) if (r != ranges[0]) return true; return false; }
  bool rotated() const { for (double a : angles) if (a != 0.) return true; return false; }
  // distance normalised by the ranges
  double tnorm(const std::vector<double>& h) const
  {
    Eigen::VectorXd v(nd);
    for (int i = 0; i < nd; i++) v[i] = h[i];
    Eigen::VectorXd u = R.transpose() * v;
    double s = 0;
    for (int i = 0; i < nd; i++) s += (u[i] / ranges[i]) * (u[i] / ranges[i]);
    return std::sqrt(s);
  }
};
static const double RANGES[4] = {1., 0.5, 2.5, 10.};   // the 4th: thorough only
static const double ANISO2[3][3] = {{1, 1, 1}, {1, 0.4, 1}, {0.3, 1, 1}};
static const double ANISO3[3][3] = {{1, 1, 1}, {1, 0.5, 0.25}, {0.3, 1, 0.6}};
static const double ROT2[6] = {0., 30., 90., 135., 60., -20.};                                                          // 4 quick, 6 thorough
static const double ROT3[6][3] = {{0, 0, 0}, {30, 0, 0}, {40, 20, 10}, {135, -60, 75}, {0, 90, 0}, {-70, 15, 200}};
static Geo makeGeo(int nd, int irange, int ianiso, int irot)
{
  Geo g; g.nd = nd;
  for (int i = 0; i < nd; i++) g.ranges.push_back(RANGES[irange] * (nd == 3 ? ANISO3 : ANISO2)[ianiso][i]);
  if (nd == 2) g.angles = {ROT2[irot], 0.};
  if (nd == 3) g.angles = {ROT3[irot][0], ROT3[irot][1], ROT3[irot][2]};
  g.R = refRot(nd, g.angles);
  return g;
}

// point sets ----------------------------------------------------------------------------------------------------
static const double STEPS[14] = {0.1, 0.2, 0.25, 0.3, 0.4, 0.5, 0.6, 0.75, 0.9, 1.5, 0.05, 0.15, 1., 2.};   // 10 quick, 14 thorough
typedef std::vector<std::vector<double>> Pts;  // [point][dim]
static Pts lattice(int nd, int n, double step)
{
  Pts P;
  int tot = 1; for (int i = 0; i < nd; i++) tot *= n;
  for (int r = 0; r < tot; r++)
  {
    std::vector<double> x(nd); int q = r;
    for (int i = 0; i < nd; i++) { x[i] = step * (q % n); q /= n; }
    P.push_back(x);
  }
  return P;
}
// four clusters of close points (spacing 1/64 of the unit) at the corners of a unit simplex-like pattern
static Pts clustered(int nd, double unit)
{
  Pts P;
  for (int c = 0; c < 4; c++)
    for (int k = 0; k < (nd == 3 ? 5 : 4); k++)
    {
      std::vector<double> x(nd);
      for (int i = 0; i < nd; i++)
      {
        double base = (c >> i & 1) * unit * 0.75 + (c == 3 && i == nd - 1 ? 0.375 * unit : 0.);
        double off = ((k * (i + 2) + c) % 5) * unit / 64. + (k == 4 ? unit / 128. : 0.);
        x[i] = base + off;
      }
      if (nd == 1) x[0] = c * unit * 0.75 + k * unit / 64.;
      P.push_back(x);
    }
  return P;
}
// low-discrepancy (Kronecker) set with irrational generators: no two lags are commensurable
static Pts irrational(int nd, int n, double unit)
{
  static const double G[3] = {0.6180339887498949, 0.4142135623730951, 0.7320508075688772};
  Pts P;
  for (int k = 1; k <= n; k++)
  {
    std::vector<double> x(nd);
    for (int i = 0; i < nd; i++) { double v = k * G[i]; x[i] = (v - std::floor(v)) * unit * 2.; }
    P.push_back(x);
  }
  return P;
}
// Point-set menu (one numbering for both tiers, so that a case id means the same stimulus in quick, thorough and replay):
//   iset = 14*sizeclass + step  (3 size classes x 14 steps)  then 4 irregular sets.
// quick keeps size classes 0,1 at the first 10 steps + the irregular sets; thorough keeps everything.
static const int NSETS = 46;
static bool setInQuick(int iset) { return iset >= 42 || (iset / 14 < 2 && iset % 14 < 10); }
static Pts makeSet(int nd, int iset, double range, std::string& name)
{
  static const int NL[3][4] = {{0, 12, 5, 3}, {0, 30, 8, 4}, {0, 100, 14, 6}};
  if (iset < 42)
  {
    int n = NL[iset / 14][nd]; double st = STEPS[iset % 14];
    name = "lattice" + std::to_string(n) + "^" + std::to_string(nd) + "@" + fmt(st);
    return lattice(nd, n, st * range);
  }
  switch (iset - 42)
  {
    case 0: name = "clustered"; return clustered(nd, range);
    case 1: name = "clustered-wide"; return clustered(nd, 3. * range);
    case 2: name = "irrational-20"; return irrational(nd, nd == 1 ? 12 : 20, range);
    default: name = "irrational-40"; return irrational(nd, 40, 0.6 * range);
  }
}
static Db* ptsToDb(const Pts& P, int nd)
{
  std::vector<std::vector<double>> x(nd);
  for (auto& p : P) for (int i = 0; i < nd; i++) x[i].push_back(p[i]);
  return make_db_xz(x, {});
}

// library model -----------------------------------------------------------------------------------------------
struct Lib
{
  std::unique_ptr<Model> model;
  double scadef = 1;     // declared by the library for this structure/parameter
  int hasRange = 1;
  std::vector<double> scales;  // reference scales per axis (harness): range / scadef
};
// sills: empty -> scalar sill
static Model* buildModel(const Info& I, const Geo& g, double param, double sill, const VectorDouble& sills, bool flagRange, double scadef)
{
  SpaceRN sp(g.nd);
  VectorDouble rg;
  for (double r : g.ranges) rg.push_back(flagRange ? r : r / scadef);
  VectorDouble ang(g.angles.begin(), g.angles.end());
  Model* m = nullptr;
  try { m = Model::createFromParam(ECov::fromKey(I.key), 1., sill, param, rg, sills, ang, &sp, flagRange); }
  catch (...) { m = nullptr; }
  if (m != nullptr && m->getCovaNumber() != 1) { delete m; m = nullptr; }
  return m;
}
static double declaredScadef(const Info& I, int nd, double param, int* hasRange = nullptr, int* minOrder = nullptr, int* maxNDim = nullptr)
{
  SpaceRN sp(nd); CovContext ctxt(1, &sp);
  try
  {
    CovAniso c(ECov::fromKey(I.key), ctxt);
    if (I.nparam > 0) c.setParam(param);
    if (hasRange) *hasRange = c.hasRange();
    if (minOrder) *minOrder = c.getMinOrder();
    if (maxNDim) *maxNDim = (int)std::min<unsigned int>(c._cova->getMaxNDim(), 1000u);
    return c._cova->getScadef();
  }
  catch (...) { return std::nan(""); }
}

static Mat toEigen(const AMatrix& m)
{
  Mat E(m.getNRows(), m.getNCols());
  for (int i = 0; i < m.getNRows(); i++) for (int j = 0; j < m.getNCols(); j++) E(i, j) = m.getValue(i, j);
  return E;
}
// orthonormal basis of the increments filtering the monomials of total degree <= order at the points
static Mat incrementBasis(const Pts& P, int nd, int order, int* rank)
{
  int n = (int)P.size();
  std::vector<std::vector<int>> expo;
  std::function<void(int, int, std::vector<int>&)> rec = [&](int i, int left, std::vector<int>& e) {
    if (i == nd) { expo.push_back(e); return; }
    for (int k = 0; k <= left; k++) { e[i] = k; rec(i + 1, left - k, e); }
  };
  std::vector<int> e(nd); rec(0, order, e);
  // centre + scale the coordinates (the span of the monomials is unchanged)
  std::vector<double> c(nd, 0.), s(nd, 0.);
  for (auto& p : P) for (int i = 0; i < nd; i++) c[i] += p[i] / n;
  double sc = 0; for (auto& p : P) for (int i = 0; i < nd; i++) sc = std::max(sc, std::fabs(p[i] - c[i]));
  if (sc == 0) sc = 1;
  Mat F(n, (int)expo.size());
  for (int r = 0; r < n; r++)
    for (size_t m = 0; m < expo.size(); m++)
    {
      double v = 1;
      for (int i = 0; i < nd; i++) v *= std::pow((P[r][i] - c[i]) / sc, expo[m][i]);
      F(r, (int)m) = v;
    }
  Eigen::FullPivHouseholderQR<Mat> qr(F);
  qr.setThreshold(1e-9);
  int rk = (int)qr.rank();
  *rank = rk;
  Mat Q = qr.matrixQ();
  return Q.rightCols(n - rk);
}

static std::string caseText(const Info& I, const Geo& g, double param, const std::string& set)
{
  std::string s = std::string(I.key) + " ndim=" + std::to_string(g.nd);
  if (I.nparam) s += " param=" + fmt(param);
  s += " ranges=" + vstr(g.ranges);
  if (!g.angles.empty()) s += " angles=" + vstr(g.angles);
  if (!set.empty()) s += " points=" + set;
  return s;
}

// =================================================================================================================
// Part accept: the declared validity domain (getMaxNDim, CovFactory::getCovList) against what can really be constructed
VF_PART(accept)
{
  Space sp; sp.axis("type", NTYPE).axis("ndim", 3);
  for_each_case(C, sp, [&](uint64_t id, const std::vector<int>& idx) {
    const Info& I = TABLE[idx[0]];
    int nd = idx[1] + 1;
    SpaceRN space(nd); CovContext ctxt(1, &space);
    ECov type = ECov::fromKey(I.key);
    C.eval();
    // declared
    ACovFunc* f = nullptr;
    bool ctorFunc = true;
    try { f = CovFactory::createCovFunc(type, ctxt); } catch (...) { ctorFunc = false; }
    int declMax = 0; std::string name;
    if (f != nullptr) { declMax = (int)std::min<unsigned int>(f->getMaxNDim(), 1000u); name = f->getCovName(); delete f; }
    else
    {
      // the constructor refused: read the declaration in a dimension where it is accepted
      SpaceRN s1(1); CovContext c1(1, &s1);
      ACovFunc* f1 = CovFactory::createCovFunc(type, c1);
      declMax = (int)std::min<unsigned int>(f1->getMaxNDim(), 1000u); name = f1->getCovName(); delete f1;
    }
    bool declared = declMax >= nd;
    VectorString lst = CovFactory::getCovList(ctxt, 3);
    bool listed = false; for (auto& s : lst) if (s == name) listed = true;
    bool ctorAniso = true;
    // (the spectral-only MARKOV structure runs a 512^ndim FFT in CovAniso's constructor: minutes in 3-D; not judged anyway)
    if (I.kind == NOT_ON_RN) { C.outcome("excluded:no-covariance-on-Rn(spectral/sphere-only)"); C.skip(); return; }
    try { CovAniso c(type, ctxt); } catch (...) { ctorAniso = false; }
    bool viaModel = false;
    try { Model* m = Model::createFromParam(type, 1., 1., 1., VectorDouble(), VectorDouble(), VectorDouble(), &space); viaModel = m != nullptr && m->getCovaNumber() == 1; delete m; }
    catch (...) { viaModel = false; }
    bool constructible = ctorFunc || ctorAniso || viaModel;
    std::string k = std::string(I.key) + ":ndim=" + std::to_string(nd);
    C.outcome(std::string(declared ? "declared-valid" : "declared-invalid") + (constructible ? "/constructible" : "/refused") + (listed ? "/listed" : "/not-listed"));
    if (declared != (nd <= I.maxdim) && I.kind != NOT_ON_RN)
      C.violation("domain:" + k, std::string(I.key) + " declares getMaxNDim()=" + std::to_string(declMax) + " but the published validity is ndim<=" + std::to_string(I.maxdim), std::to_string(id));
    if (!declared) C.nontrivial(id);
    if (!declared && constructible)
      C.violation("accept:" + k, std::string(I.key) + " declares getMaxNDim()=" + std::to_string(declMax) + " yet is constructible in a " + std::to_string(nd) +
                  "-D context (createCovFunc " + (ctorFunc ? "ok" : "throws") + ", CovAniso " + (ctorAniso ? "ok" : "throws") + ", Model::createFromParam " + (viaModel ? "ok" : "refused") +
                  "): the consistency check of ACovFunc's constructor never sees the derived getMaxNDim()", std::to_string(id));
    if (declared && !constructible)
      C.violation("refuse:" + k, std::string(I.key) + " is declared valid in " + std::to_string(nd) + "-D but cannot be constructed", std::to_string(id));
    if (listed != declared)
      C.violation("list:" + k, std::string(I.key) + " getCovList says " + (listed ? "listed" : "not listed") + " but getMaxNDim()=" + std::to_string(declMax), std::to_string(id));
    C.sample("{\"type\":" + jstr(I.key) + ",\"ndim\":" + std::to_string(nd) + ",\"declaredMaxNDim\":" + std::to_string(declMax) + ",\"constructible\":" + (constructible ? "true" : "false") + "}");
  });
}

// =================================================================================================================
// Part psd: matrices of point sets.  One case = (structure, ndim, param, range, aniso, rotation, point set)
static void judgeMatrix(Ctx& C, uint64_t id, const Info& I, const Geo& g, double param, const Pts& P, const std::string& setName, bool thorough)
{
  const std::string K = I.key;
  const int nd = g.nd;
  const std::string kd = K + ":ndim=" + std::to_string(nd);
  const double sill = 1.5;
  int hasRange = 1, minOrder = -1, declMax = 0;
  double scadef = declaredScadef(I, nd, param, &hasRange, &minOrder, &declMax);
  if (std::isnan(scadef)) { C.skip(); C.outcome("refused-by-constructor"); return; }
  std::unique_ptr<Model> model(buildModel(I, g, param, sill, VectorDouble(), true, scadef));
  if (!model) { C.skip(); C.outcome("refused-by-model"); return; }
  C.eval();
  std::unique_ptr<Db> db(ptsToDb(P, nd));
  int n = (int)P.size();
  MatrixSquareSymmetric ms = model->evalCovMatrixSymmetric(db.get());
  if (ms.getNRows() != n) { C.violation("matrix-size:" + K, "evalCovMatrixSymmetric returned " + std::to_string(ms.getNRows()) + " rows for " + std::to_string(n) + " points; " + caseText(I, g, param, setName), std::to_string(id)); return; }
  Mat M = toEigen(ms);
  const std::string txt = caseText(I, g, param, setName);
  bool inDomain = nd <= declMax;   // declared validity domain; outside it the 'accept' part reports, PSD is only recorded
  // (a) rectangular evaluation of the same Db against itself: same numbers, symmetric
  {
    MatrixRectangular mr = model->evalCovMatrix(db.get(), db.get());
    Mat R = toEigen(mr);
    double d1 = (R - M).cwiseAbs().maxCoeff(), d2 = (R - R.transpose()).cwiseAbs().maxCoeff();
    double sc = std::max(1e-300, M.cwiseAbs().maxCoeff());
    if (d2 > 1e-13 * sc) C.violation("symmetric:" + K, "evalCovMatrix(db,db) is not symmetric: max |M-M^t|=" + fmt(d2) + "; " + txt, std::to_string(id));
    if (d1 > 1e-13 * sc) C.violation("matrix-paths:" + K, "evalCovMatrix(db,db) differs from evalCovMatrixSymmetric(db) by " + fmt(d1) + "; " + txt, std::to_string(id));
  }
  // reference normalised distances (range units) from the coordinates stored in the Db
  Mat T(n, n);
  for (int i = 0; i < n; i++) for (int j = 0; j < n; j++)
  {
    std::vector<double> h(nd);
    for (int k = 0; k < nd; k++) h[k] = P[j][k] - P[i][k];
    T(i, j) = hasRange == 0 ? (i == j ? 0. : 1.) : g.tnorm(h);
  }
  double maxabs = M.cwiseAbs().maxCoeff();
  bool formTol7 = (K == "BESSELJ" || K == "MATERN");
  const char* anisoTag = (g.aniso() || g.rotated()) ? ":aniso" : "";
  if (I.kind == STAT)
  {
    // (b) closed form, bound, compact support
    double c0 = M(0, 0);
    double worstForm = 0; int wi = 0, wj = 0;
    for (int i = 0; i < n; i++) for (int j = i; j < n; j++)
    {
      double t = T(i, j);
      double v = M(i, j);
      if (std::fabs(v) > c0 * (1. + 1e-12) + 1e-300)
        C.violation("bound:" + K, "|C(h)|=" + fmt(std::fabs(v)) + " > C(0)=" + fmt(c0) + " at normalised distance " + fmt(t) + "; " + txt, std::to_string(id));
      if (I.compact && t >= 1. + 1e-9 && std::fabs(v) > 1e-12 * sill)
        C.violation("support:" + K, "compactly supported structure: C=" + fmt(v) + " at distance " + fmt(t) + " x range (should vanish beyond the range); " + txt, std::to_string(id));
      if (I.hasForm)
      {
        double ref = sill * refRho(K, t * scadef, param);
        double d = std::fabs(v - ref);
        if (d > worstForm) { worstForm = d; wi = i; wj = j; }
      }
    }
    if (I.hasForm)
    {
      double tol = (formTol7 ? 1e-7 : 1e-9) * sill;
      C.outcome(worstForm <= 1e-12 * sill ? "form-agrees<=1e-12" : worstForm <= tol ? "form-agrees<=tol" : "form-DIFFERS");
      if (worstForm > tol)
        C.violation("form:" + K + anisoTag, "value " + fmt(M(wi, wj)) + " differs from the published closed form " + fmt(sill * refRho(K, T(wi, wj) * scadef, param)) + " at normalised distance " +
                    fmt(T(wi, wj)) + " x range (sill " + fmt(sill) + "); " + txt, std::to_string(id));
    }
    else C.outcome("form-not-in-table");
    // (c) PSD
    Eigen::SelfAdjointEigenSolver<Mat> es(0.5 * (M + M.transpose()), Eigen::EigenvaluesOnly);
    double emin = es.eigenvalues().minCoeff(), tr = M.trace();
    bool psd = emin >= -1e-10 * tr;
    bool valid = refValid(I, nd, param);
    C.outcome(std::string(psd ? "psd" : "NOT-psd") + (valid ? "/published-valid" : "/published-invalid") + (inDomain ? "" : "/outside-declared-domain"));
    if (!psd) C.nontrivial(Hash().u(id).h);
    if (emin < 1e-6 * tr) C.nontrivial(Hash().u(id).u(1).h);  // nearly singular matrices: the informative ones
    if (!psd && inDomain)
      C.violation("psd:" + kd, "covariance matrix not positive semi-definite: min eigenvalue " + fmt(emin) + " (trace " + fmt(tr) + ", n=" + std::to_string(n) + "); " + txt +
                  (valid ? "" : "  [the published validity condition of this structure/parameter excludes this dimension, but the library accepts it]"), std::to_string(id));
  }
  else
  {
    // intrinsic: conditional PSD on the increments of the declared order, closed form on the same increments
    int rank = 0;
    Mat Q = incrementBasis(P, nd, minOrder, &rank);
    if (Q.cols() == 0) { C.skip(); C.outcome("no-authorised-increment"); return; }
    Mat A = Q.transpose() * M * Q;
    Eigen::SelfAdjointEigenSolver<Mat> es(0.5 * (A + A.transpose()), Eigen::EigenvaluesOnly);
    double emin = es.eigenvalues().minCoeff(), emax = es.eigenvalues().maxCoeff();
    double tolE = 1e-10 * n * std::max(maxabs, emax);
    bool psd = emin >= -tolE;
    C.outcome(std::string(psd ? "cpsd" : "NOT-cpsd") + "/order" + std::to_string(minOrder));
    if (emax > 0) C.nontrivial(Hash().u(id).u(2).h);
    if (minOrder != I.order && I.hasForm)
      C.violation("order:" + K, std::string(K) + " declares getMinOrder()=" + std::to_string(minOrder) + " but the published generalised covariance needs order " + std::to_string(I.order), std::to_string(id));
    if (!psd && inDomain)
      C.violation("cpsd:" + kd, "generalised covariance not conditionally PSD on the increments of order " + std::to_string(minOrder) + ": min eigenvalue " + fmt(emin) + " (max " + fmt(emax) +
                  ", " + std::to_string((int)Q.cols()) + " increments); " + txt, std::to_string(id));
    if (I.hasForm)
    {
      Mat Kp(n, n);
      for (int i = 0; i < n; i++) for (int j = 0; j < n; j++) Kp(i, j) = sill * refK(K, T(i, j) * scadef, param);
      Mat B = Q.transpose() * Kp * Q;
      double d = (A - B).cwiseAbs().maxCoeff();
      double tol = 1e-9 * n * std::max(maxabs, Kp.cwiseAbs().maxCoeff());
      C.outcome(d <= tol ? "gc-form-agrees-on-increments" : "gc-form-DIFFERS");
      if (d > tol)
        C.violation("form:" + K + anisoTag, "on the authorised increments of order " + std::to_string(minOrder) + " the matrix differs from the published generalised covariance by " + fmt(d) +
                    " (tolerance " + fmt(tol) + "); " + txt, std::to_string(id));
      // variogram form for the order-0 structures: gamma(h) = C(0) - C(h) = -K(h)
      if (I.order == 0)
      {
        double worst = 0;
        for (int i = 0; i < n; i++) for (int j = 0; j < n; j++) worst = std::max(worst, std::fabs((M(0, 0) - M(i, j)) + Kp(i, j)));
        if (worst > 1e-9 * std::max(maxabs, 1.))
          C.violation("form:" + K + anisoTag, "variogram C(0)-C(h) differs from the published one by " + fmt(worst) + "; " + txt, std::to_string(id));
      }
    }
    else C.outcome("form-not-in-table");
  }
  (void)thorough;
}

// (part psd, the expensive one, is registered LAST - see the end of the file - so that a deadline truncates it and not the cheap parts)
// =================================================================================================================
// Part pointwise: Model::eval / evalIvarIpas / eval0 / CovCalcMode on lag vectors: evenness, variogram and unitary modes,
// scale-vs-range parametrisation, declared scale factor, translation invariance
VF_PART(pointwise)
{
  const bool th = C.thorough();
  Space sp;
  sp.axis("type", NTYPE).axis("ndim", 3).axis("param", NPARAM_AXIS).axis("range", 4).axis("aniso", 3).axis("rot", 6).axis("origin", 2).axis("flagRange", 2);
  for_each_case(C, sp, [&](uint64_t id, const std::vector<int>& idx) {
    const Info& I = TABLE[idx[0]];
    const std::string K = I.key;
    int nd = idx[1] + 1;
    if (I.kind == NOT_ON_RN) return;
    if (!th && C.only_case.empty() && (idx[3] >= 3 || idx[5] >= 4)) return;
    double param = paramOf(I, idx[2], th || !C.only_case.empty());
    if (param == -1e300) return;
    if (nd == 1 && (idx[4] || idx[5])) return;
    if (K == "NUGGET" && (idx[3] || idx[4] || idx[5])) return;
    Geo g = makeGeo(nd, idx[3], idx[4], idx[5]);
    int hasRange = 1, minOrder = -1, declMax = 0;
    double scadef = declaredScadef(I, nd, param, &hasRange, &minOrder, &declMax);
    if (std::isnan(scadef)) { C.skip(); return; }
    const double sill = 2.5;
    bool flagRange = idx[7];
    std::unique_ptr<Model> model(buildModel(I, g, param, sill, VectorDouble(), flagRange, scadef));
    if (!model) { C.skip(); C.outcome("refused-by-model"); return; }
    const std::string txt = caseText(I, g, param, "") + (flagRange ? " (ranges given)" : " (scales given)");
    const char* anisoTag = (g.aniso() || g.rotated()) ? ":aniso" : "";
    // declared scale factor against the published convention
    if (idx[3] + idx[4] + idx[5] + idx[6] + idx[7] == 0)
    {
      double rs = refScadef(K, param);
      C.eval();
      if (rs > 0)
      {
        C.outcome("scadef-judged");
        if (std::fabs(rs - scadef) > 1e-6 * rs)
          C.violation("scadef:" + K, "declared scale factor getScadef()=" + fmt(scadef) + " but the published convention gives " + fmt(rs) + " (param " + fmt(param) + ")", std::to_string(id));
      }
      else C.outcome("scadef-convention-not-judged");
    }
    SpaceRN space(nd);
    static const double ORIG[2][3] = {{0, 0, 0}, {-3.75, 100.25, 7.}};
    VectorDouble o(nd);
    for (int i = 0; i < nd; i++) o[i] = ORIG[idx[6]][i];
    SpacePoint p1(o, -1, &space);
    CovCalcMode mVario(ECalcMember::LHS, true), mUnit(ECalcMember::LHS, false, true);
    double c0 = model->eval0(0, 0);
    double c0p = model->eval(p1, p1, 0, 0);
    C.eval();
    if (c0 != c0p) C.violation("eval0:" + K, "eval0=" + fmt(c0) + " differs from eval(p,p)=" + fmt(c0p) + "; " + txt, std::to_string(id));
    int nlag = 0, nbeyond = 0;
    static const double DELTA[3] = {0.15, 0.35, 0.6};
    int L = th ? 2 : (nd == 3 ? 1 : 2);
    int side = 2 * L + 1, tot = 1;
    for (int i = 0; i < nd; i++) tot *= side;
    for (int idl = 0; idl < 3; idl++)
      for (int r = 0; r < tot; r++)
      {
        VectorDouble q(nd); std::vector<double> h(nd);
        int w = r;
        for (int i = 0; i < nd; i++) { int k = w % side - L; w /= side; q[i] = o[i] + k * DELTA[idl] * RANGES[idx[3]] * (i == 1 ? 0.75 : 1.); h[i] = q[i] - o[i]; }
        SpacePoint p2(q, -1, &space);
        double t = hasRange == 0 ? (r == tot / 2 ? 0. : 1.) : g.tnorm(h);
        double c = model->eval(p1, p2, 0, 0), cr = model->eval(p2, p1, 0, 0);
        double gv = model->eval(p1, p2, 0, 0, &mVario), cu = model->eval(p1, p2, 0, 0, &mUnit);
        VectorDouble hv(h.begin(), h.end());
        double ci = model->evalIvarIpas(1., hv, 0, 0);
        C.eval(5);
        nlag++;
        double sc = std::max(std::fabs(c0), std::fabs(c));
        if (c != cr && std::fabs(c - cr) > 1e-14 * sc)
          C.violation("even:" + K, "C(h)=" + fmt(c) + " but C(-h)=" + fmt(cr) + " for h=" + vstr(h) + "; " + txt, std::to_string(id));
        if (std::fabs(gv - (c0 - c)) > 1e-13 * std::max(sc, 1e-300))
          C.violation("vario:" + K, "variogram mode gives " + fmt(gv) + " but C(0)-C(h)=" + fmt(c0 - c) + " for h=" + vstr(h) + "; " + txt, std::to_string(id));
        if (std::fabs(cu * sill - c) > 1e-13 * std::max(sc, 1e-300))
          C.violation("unitary:" + K, "unitary mode gives " + fmt(cu) + ", times sill " + fmt(sill) + " != C(h)=" + fmt(c) + " for h=" + vstr(h) + "; " + txt, std::to_string(id));
        // evalIvarIpas works from the origin: identical for origin 0, equal up to the rounding of the coordinates otherwise
        if (std::fabs(ci - c) > (idx[6] == 0 ? 1e-14 : 1e-9) * std::max(sc, 1e-300) && !(K == "NUGGET"))
          C.violation("translation:" + K, "evalIvarIpas(h)=" + fmt(ci) + " differs from eval(p,p+h)=" + fmt(c) + " for h=" + vstr(h) + " origin " + vstr(o) + "; " + txt, std::to_string(id));
        if (I.kind == STAT)
        {
          if (std::fabs(c) > c0 * (1. + 1e-12)) C.violation("bound:" + K, "|C(h)|=" + fmt(std::fabs(c)) + " > C(0)=" + fmt(c0) + " for h=" + vstr(h) + "; " + txt, std::to_string(id));
          if (I.compact && t >= 1. + 1e-9) { nbeyond++; if (std::fabs(c) > 1e-12 * sill) C.violation("support:" + K, "C=" + fmt(c) + " at " + fmt(t) + " x range for h=" + vstr(h) + "; " + txt, std::to_string(id)); }
          if (I.hasForm)
          {
            double ref = sill * refRho(K, t * scadef, param);
            double tol = ((K == "BESSELJ" || K == "MATERN") ? 1e-7 : 1e-9) * sill;
            if (std::fabs(c - ref) > tol)
              C.violation("form:" + K + anisoTag, "C(h)=" + fmt(c) + " but the published closed form gives " + fmt(ref) + " for h=" + vstr(h) + " (" + fmt(t) + " x range); " + txt, std::to_string(id));
          }
        }
        else if (I.hasForm && I.order == 0)
        {
          double ref = -sill * refK(K, t * scadef, param);
          if (std::fabs(gv - ref) > 1e-9 * std::max(1., std::fabs(ref)))
            C.violation("form:" + K + anisoTag, "variogram " + fmt(gv) + " but the published form gives " + fmt(ref) + " for h=" + vstr(h) + "; " + txt, std::to_string(id));
        }
      }
    C.outcome(std::string(I.kind == STAT ? "stationary" : "intrinsic") + (I.compact ? (nbeyond ? "/lags-beyond-range" : "/no-lag-beyond-range") : ""));
    if (g.aniso() && g.rotated()) C.nontrivial(id);
    if (id % 30011 == 5) C.sample("{\"id\":" + std::to_string(id) + ",\"case\":" + jstr(txt) + ",\"lags\":" + std::to_string(nlag) + "}");
  });
}

// =================================================================================================================
// Part multivar: two variables, sill matrices (PSD, one rank deficient): the 2n x 2n matrix is PSD and equals sill (x) rho
VF_PART(multivar)
{
  const bool th = C.thorough();
  static const double SILLS[3][4] = {{2, 1, 1, 1}, {1, 1, 1, 1}, {1, -0.5, -0.5, 4}};
  Space sp;
  sp.axis("type", NTYPE).axis("ndim", 3).axis("param", NPARAM_AXIS).axis("sill", 3).axis("geo", 2).axis("set", 12);
  for_each_case(C, sp, [&](uint64_t id, const std::vector<int>& idx) {
    const Info& I = TABLE[idx[0]];
    const std::string K = I.key;
    int nd = idx[1] + 1;
    if (I.kind == NOT_ON_RN) return;
    if (!th && C.only_case.empty() && idx[5] >= 4) return;
    double param = paramOf(I, idx[2], th || !C.only_case.empty());
    if (param == -1e300) return;
    if (nd == 1 && idx[4]) return;
    Geo g = idx[4] ? makeGeo(nd, 2, 1, 2) : makeGeo(nd, 0, 0, 0);
    int hasRange = 1, minOrder = -1, declMax = 0;
    double scadef = declaredScadef(I, nd, param, &hasRange, &minOrder, &declMax);
    if (std::isnan(scadef) || nd > declMax) { C.skip(); C.outcome("outside-declared-domain"); return; }
    VectorDouble sills(SILLS[idx[3]], SILLS[idx[3]] + 4);
    std::unique_ptr<Model> model(buildModel(I, g, param, 1., sills, true, scadef));
    if (!model || model->getVariableNumber() != 2) { C.violation("multivar:model:" + K, "2-variable model refused; " + caseText(I, g, param, ""), std::to_string(id)); return; }
    static const int SETS[12] = {1, 5, 42, 44, 0, 3, 7, 9, 16, 20, 43, 45};   // unified numbering of makeSet
    int iset = SETS[idx[5]];
    std::string name;
    Pts P = makeSet(nd, iset, g.ranges[0], name);
    std::unique_ptr<Db> db(ptsToDb(P, nd));
    int n = (int)P.size();
    C.eval();
    MatrixSquareSymmetric ms = model->evalCovMatrixSymmetric(db.get());
    const std::string txt = caseText(I, g, param, name) + " sills=" + vstr(sills);
    if (ms.getNRows() != 2 * n) { C.violation("multivar:size:" + K, "matrix has " + std::to_string(ms.getNRows()) + " rows, expected " + std::to_string(2 * n) + "; " + txt, std::to_string(id)); return; }
    Mat M = toEigen(ms);
    // structure: M[(iv,i),(jv,j)] = sill(iv,jv) * M11[i,j] / sill(0,0)
    double worst = 0;
    for (int iv = 0; iv < 2; iv++) for (int jv = 0; jv < 2; jv++) for (int i = 0; i < n; i++) for (int j = 0; j < n; j++)
      worst = std::max(worst, std::fabs(M(iv * n + i, jv * n + j) * sills[0] - sills[iv * 2 + jv] * M(i, j)));
    double maxabs = M.cwiseAbs().maxCoeff();
    if (worst > 1e-12 * std::max(maxabs, 1e-300))
      C.violation("multivar:kron:" + K, "the matrix is not sill (x) correlation: max deviation " + fmt(worst) + "; " + txt, std::to_string(id));
    // first block equals the single variable model
    std::unique_ptr<Model> m1(buildModel(I, g, param, sills[0], VectorDouble(), true, scadef));
    Mat M1 = toEigen(m1->evalCovMatrixSymmetric(db.get()));
    double d1 = (M1 - M.topLeftCorner(n, n)).cwiseAbs().maxCoeff();
    if (d1 > 1e-13 * std::max(maxabs, 1e-300)) C.violation("multivar:block:" + K, "first diagonal block differs from the mono-variable model by " + fmt(d1) + "; " + txt, std::to_string(id));
    Mat A = M, A1 = M1;
    double scale = maxabs;
    if (I.kind == INTRINSIC)
    {
      int rank;
      Mat Q = incrementBasis(P, nd, minOrder, &rank);
      if (Q.cols() == 0) { C.skip(); return; }
      Mat Q2 = Mat::Zero(2 * n, 2 * Q.cols());
      Q2.topLeftCorner(n, Q.cols()) = Q; Q2.bottomRightCorner(n, Q.cols()) = Q;
      A = Q2.transpose() * M * Q2;
      A1 = Q.transpose() * M1 * Q;
      scale = n * maxabs;
    }
    else scale = M.trace();
    // the multivariate statement is relative to the mono-variable one (judged in part psd): sill (x) rho is PSD iff rho is
    {
      Eigen::SelfAdjointEigenSolver<Mat> e1(0.5 * (A1 + A1.transpose()), Eigen::EigenvaluesOnly);
      if (e1.eigenvalues().minCoeff() < -1e-10 * (I.kind == INTRINSIC ? n * M1.cwiseAbs().maxCoeff() : M1.trace()))
      { C.skip(); C.outcome("monovariable-matrix-not-psd(judged-in-part-psd)"); return; }
    }
    Eigen::SelfAdjointEigenSolver<Mat> es(0.5 * (A + A.transpose()), Eigen::EigenvaluesOnly);
    double emin = es.eigenvalues().minCoeff();
    bool psd = emin >= -1e-10 * scale;
    C.outcome(std::string(psd ? "psd" : "NOT-psd") + (idx[3] == 1 ? "/rank-deficient-sill" : "/full-rank-sill"));
    if (idx[3] == 1) C.nontrivial(id);
    if (!psd) C.violation("multivar:psd:" + K + ":ndim=" + std::to_string(nd), "2-variable covariance matrix not PSD: min eigenvalue " + fmt(emin) + " scale " + fmt(scale) + "; " + txt, std::to_string(id));
    if (id % 4001 == 7) C.sample("{\"id\":" + std::to_string(id) + ",\"case\":" + jstr(txt) + "}");
  });
}

// =================================================================================================================
// Part sums: nested models: C_sum = sum of the components (matrix and point evaluation), PSD
VF_PART(sums)
{
  static const char* PAIRS[10][2] = {{"NUGGET", "SPHERICAL"}, {"EXPONENTIAL", "GAUSSIAN"}, {"SPHERICAL", "CUBIC"}, {"NUGGET", "LINEAR"}, {"MATERN", "SPHERICAL"},
                                     {"CAUCHY", "STABLE"}, {"WENDLAND1", "EXPONENTIAL"}, {"POWER", "SPHERICAL"}, {"SINCARD", "NUGGET"}, {"GAMMA", "WENDLAND2"}};
  Space sp;
  sp.axis("pair", 10).axis("ndim", 3).axis("geoA", 2).axis("geoB", 2).axis("set", 12);
  auto find = [&](const char* k) -> const Info& { for (int i = 0; i < NTYPE; i++) if (std::string(TABLE[i].key) == k) return TABLE[i]; return TABLE[0]; };
  for_each_case(C, sp, [&](uint64_t id, const std::vector<int>& idx) {
    const Info& IA = find(PAIRS[idx[0]][0]); const Info& IB = find(PAIRS[idx[0]][1]);
    int nd = idx[1] + 1;
    if (nd == 1 && (idx[2] || idx[3])) return;
    Geo gA = idx[2] ? makeGeo(nd, 2, 1, 1) : makeGeo(nd, 0, 0, 0);
    Geo gB = idx[3] ? makeGeo(nd, 1, 2, 3) : makeGeo(nd, 2, 0, 0);
    double pA = IA.nparam ? IA.params[1] : 1., pB = IB.nparam ? IB.params[IB.nparam - 1] : 1.;
    double sA = declaredScadef(IA, nd, pA), sB = declaredScadef(IB, nd, pB);
    std::unique_ptr<Model> mA(buildModel(IA, gA, pA, 0.75, VectorDouble(), true, sA)), mB(buildModel(IB, gB, pB, 2., VectorDouble(), true, sB));
    if (!mA || !mB) { C.skip(); return; }
    std::unique_ptr<Model> mS(mA->clone());
    {
      VectorDouble rg(gB.ranges.begin(), gB.ranges.end()), ang(gB.angles.begin(), gB.angles.end());
      mS->addCovFromParam(ECov::fromKey(IB.key), 1., 2., pB, rg, VectorDouble(), ang, true);
    }
    C.eval();
    const std::string txt = std::string(IA.key) + "(" + vstr(gA.ranges) + "," + vstr(gA.angles) + ") + " + IB.key + "(" + vstr(gB.ranges) + "," + vstr(gB.angles) + ") ndim=" + std::to_string(nd);
    if (mS->getCovaNumber() != 2) { C.violation("sum:add", "addCovFromParam did not add the second structure; " + txt, std::to_string(id)); return; }
    std::string name;
    static const int SSETS[12] = {0, 2, 4, 5, 7, 9, 17, 22, 42, 43, 44, 45};   // unified numbering of makeSet
    Pts P = makeSet(nd, SSETS[idx[4]], 1., name);
    std::unique_ptr<Db> db(ptsToDb(P, nd));
    Mat MA = toEigen(mA->evalCovMatrixSymmetric(db.get())), MB = toEigen(mB->evalCovMatrixSymmetric(db.get())), MS = toEigen(mS->evalCovMatrixSymmetric(db.get()));
    double sc = std::max(MA.cwiseAbs().maxCoeff(), MB.cwiseAbs().maxCoeff());
    double d = (MS - MA - MB).cwiseAbs().maxCoeff();
    if (d > 1e-13 * sc) C.violation("sum:matrix", "matrix of the nested model differs from the sum of the matrices of its components by " + fmt(d) + "; " + txt + " points=" + name, std::to_string(id));
    int order = std::max(IA.order, IB.order);
    Mat A = MS; double scale = MS.trace();
    if (order >= 0)
    {
      int rank; Mat Q = incrementBasis(P, nd, order, &rank);
      A = Q.transpose() * MS * Q; scale = P.size() * sc;
    }
    Eigen::SelfAdjointEigenSolver<Mat> es(0.5 * (A + A.transpose()), Eigen::EigenvaluesOnly);
    double emin = es.eigenvalues().minCoeff();
    C.outcome(emin >= -1e-10 * scale ? "sum-psd" : "sum-NOT-psd");
    if (emin < -1e-10 * scale) C.violation("sum:psd", "nested model not (conditionally) PSD: min eigenvalue " + fmt(emin) + "; " + txt + " points=" + name, std::to_string(id));
    if (idx[2] || idx[3]) C.nontrivial(id);
    if (id % 331 == 1) C.sample("{\"id\":" + std::to_string(id) + ",\"case\":" + jstr(txt) + "}");
  });
}


// =================================================================================================================
// Construction routes.  The same final parameter set must give the same covariance (= the closed form) whatever the public
// route that produced it.  Two parts:
//   routes  : the one-call routes (constructors, createIsotropic/Anisotropic(Multi), Model::createFromParam/addCovFromParam,
//             clone, Model::setRangeIsotropic) for the same requested (ranges|scales, angles, param, sill);
//   setters : E2-flavoured: every sequence of 1..3 (thorough 4) public setters of CovAniso (repetitions allowed), replayed on a
//             fresh object (bare, or owned by a Model and reached through Model::getCova) and on an abstract reference state
//             (scales, rotation matrix, param, sill).  Semantics of the reference, from the class documentation ("All these
//             parameters are processed and stored as a tensor", CovAniso.hpp; "Practical range" setters): a range setter
//             stores scale = range / getScadef() for the CURRENT third parameter; setParam keeps the stored scales (so the
//             practical range reported by getRanges() follows the parameter) - this is how getRanges() is defined
//             (scales x scadef).  After EVERY step the getters and the covariance at a set of lags are judged.
static const char* RKEYS[5] = {"SPHERICAL", "EXPONENTIAL", "GAUSSIAN", "MATERN", "CAUCHY"};
static const Info& infoOf(const char* k) { for (int i = 0; i < NTYPE; i++) if (std::string(TABLE[i].key) == k) return TABLE[i]; return TABLE[0]; }
struct AState
{
  int nd;
  std::vector<double> scales, angles;
  Mat R;
  double param = 1., sill = 1.;
};
static std::vector<std::vector<double>> routeLags(int nd)
{
  std::vector<std::vector<double>> L;
  static const double D2[5][2] = {{1, 0}, {0, 1}, {1, 1}, {1, -1}, {2, 1}};
  static const double D3[6][3] = {{1, 0, 0}, {0, 1, 0}, {0, 0, 1}, {1, 1, 0}, {1, -1, 1}, {1, 2, -1}};
  for (double a : {0.3, 1.1})
  {
    if (nd == 2) for (auto& d : D2) L.push_back({a * d[0], a * d[1]});
    if (nd == 3) for (auto& d : D3) L.push_back({a * d[0], a * d[1], a * d[2]});
  }
  return L;
}
static double refCovState(const Info& I, const AState& st, const std::vector<double>& h)
{
  Eigen::VectorXd v(st.nd);
  for (int i = 0; i < st.nd; i++) v[i] = h[i];
  Eigen::VectorXd u = st.R.transpose() * v;
  double t = 0;
  for (int i = 0; i < st.nd; i++) t += (u[i] / st.scales[i]) * (u[i] / st.scales[i]);
  return st.sill * refRho(I.key, std::sqrt(t), st.param);
}
// judge a CovAniso against the abstract state; returns "" or the name of the first disagreeing observation (+ text in *what)
static std::string judgeState(const Info& I, const CovAniso* c, const AState& st, std::string* what)
{
  int nd = st.nd;
  double scadef = declaredScadef(I, nd, st.param);
  const VectorDouble& sc = c->getScales();
  VectorDouble rg = c->getRanges();
  for (int i = 0; i < nd; i++)
    if (!(std::fabs(sc[i] - st.scales[i]) <= 1e-13 * st.scales[i])) { *what = "getScales()=" + vstr(sc) + " expected " + vstr(st.scales); return "getter:scales"; }
  for (int i = 0; i < nd; i++)
    if (!(std::fabs(rg[i] - st.scales[i] * scadef) <= 1e-12 * st.scales[i] * scadef)) { *what = "getRanges()=" + vstr(rg) + " expected scales x scadef = " + fmt(st.scales[i] * scadef) + " on axis " + std::to_string(i); return "getter:ranges"; }
  if (I.nparam > 0 && c->getParam() != st.param) { *what = "getParam()=" + fmt(c->getParam()) + " expected " + fmt(st.param); return "getter:param"; }
  if (c->getSill(0, 0) != st.sill) { *what = "getSill()=" + fmt(c->getSill(0, 0)) + " expected " + fmt(st.sill); return "getter:sill"; }
  Mat Rl = toEigen(c->getAnisoRotMat()), Ri = toEigen(c->getAnisoInvMat());
  if ((Rl - st.R).cwiseAbs().maxCoeff() > 1e-12) { *what = "getAnisoRotMat() differs from the rotation that was set by " + fmt((Rl - st.R).cwiseAbs().maxCoeff()); return "getter:rotmat"; }
  if ((Ri - st.R.transpose()).cwiseAbs().maxCoeff() > 1e-12) { *what = "getAnisoInvMat() is not the transpose of the rotation that was set"; return "getter:invmat"; }
  VectorDouble an = c->getAnisoAngles();
  Mat Ra = refRot(nd, std::vector<double>(an.begin(), an.end()));
  if ((Ra - st.R).cwiseAbs().maxCoeff() > 1e-9) { *what = "getAnisoAngles()=" + vstr(an) + " do not rebuild the rotation that was set (max diff " + fmt((Ra - st.R).cwiseAbs().maxCoeff()) + ")"; return "getter:angles"; }
  SpaceRN space(nd);
  SpacePoint p1(VectorDouble(nd, 0.), -1, &space);
  double tol = (std::string(I.key) == "MATERN" ? 1e-7 : 1e-9) * st.sill;
  for (auto& h : routeLags(nd))
  {
    SpacePoint p2(VectorDouble(h.begin(), h.end()), -1, &space);
    double v = c->eval(p1, p2, 0, 0), r = refCovState(I, st, h);
    if (!(std::fabs(v - r) <= tol))
    {
      // what would an unrotated / isotropic evaluation give? (diagnosis only)
      AState s2 = st; s2.R = Mat::Identity(nd, nd);
      *what = "C(h=" + vstr(h) + ")=" + fmt(v) + " but the closed form for scales " + vstr(st.scales) + " angles " + vstr(an) + " param " + fmt(st.param) + " sill " + fmt(st.sill) + " gives " + fmt(r) +
              (std::fabs(v - refCovState(I, s2, h)) <= tol ? " (the value is the one of the UNROTATED structure)" : "") + " while every getter reports the requested parameters";
      return "eval";
    }
  }
  return "";
}

static const char* ROUTES[10] = {"ctor+setters", "ctor(range,param,sill)", "createIsotropic", "createAnisotropic", "createIsotropicMulti", "createAnisotropicMulti",
                                 "Model::createFromParam", "Model::addCovFromParam", "clone", "Model::setRangeIsotropic+setSill"};
VF_PART(routes)
{
  Space sp;
  sp.axis("route", 10).axis("type", 5).axis("ndim", 2).axis("param", 2).axis("range", 3).axis("aniso", 3).axis("rot", 4).axis("flagRange", 2);
  for_each_case(C, sp, [&](uint64_t id, const std::vector<int>& idx) {
    const Info& I = infoOf(RKEYS[idx[1]]);
    const std::string K = I.key;
    int nd = idx[2] + 2, route = idx[0];
    static const double P2[5] = {1., 1., 1., 2.5, 2.};
    if (idx[3] == 1 && I.nparam == 0) return;
    double param = idx[3] ? P2[idx[1]] : (I.nparam ? 0.5 : 1.);
    if (I.nparam == 0) param = 1.;
    bool flagRange = idx[7];
    Geo g = makeGeo(nd, idx[4], idx[5], idx[6]);
    bool isoOnly = route == 1 || route == 2 || route == 4;
    if (isoOnly && (idx[5] || idx[6])) return;
    if (idx[5] == 0 && idx[6] > 1) return;
    const double sill = 2.5;
    double scadef = declaredScadef(I, nd, param);
    AState st; st.nd = nd; st.param = param; st.sill = sill; st.R = g.R; st.angles = g.angles;
    for (double r : g.ranges) st.scales.push_back(flagRange ? r / scadef : r);
    VectorDouble rg(g.ranges.begin(), g.ranges.end()), ang(g.angles.begin(), g.angles.end());
    SpaceRN space(nd); CovContext ctxt(1, &space);
    ECov type = ECov::fromKey(I.key);
    std::unique_ptr<CovAniso> own; std::unique_ptr<Model> model; const CovAniso* c = nullptr;
    try
    {
      switch (route)
      {
        case 0: case 8:
        {
          own.reset(new CovAniso(type, ctxt));
          own->setParam(param);
          if (flagRange) own->setRanges(rg); else own->setScales(rg);
          own->setAnisoAngles(ang); own->setSill(sill);
          if (route == 8) { CovAniso* cl = own->clone(); CovAniso cp(*cl); delete cl; own.reset(new CovAniso(type, ctxt)); *own = cp; }
          break;
        }
        case 1: own.reset(new CovAniso(type, rg[0], param, sill, ctxt, flagRange)); break;
        case 2: own.reset(CovAniso::createIsotropic(ctxt, type, rg[0], sill, param, flagRange)); break;
        case 3: own.reset(CovAniso::createAnisotropic(ctxt, type, rg, sill, param, ang, flagRange)); break;
        case 4: { MatrixSquareSymmetric ms(1); ms.setValue(0, 0, sill); own.reset(CovAniso::createIsotropicMulti(ctxt, type, rg[0], ms, param, flagRange)); break; }
        case 5: { MatrixSquareSymmetric ms(1); ms.setValue(0, 0, sill); own.reset(CovAniso::createAnisotropicMulti(ctxt, type, rg, ms, param, ang, flagRange)); break; }
        case 6: model.reset(Model::createFromParam(type, 1., sill, param, rg, VectorDouble(), ang, &space, flagRange)); break;
        case 7: model.reset(new Model(ctxt)); model->addCovFromParam(type, 1., sill, param, rg, VectorDouble(), ang, flagRange); break;
        case 9:
        {
          if (!flagRange) return;
          model.reset(Model::createFromParam(type, 1., sill, param, rg, VectorDouble(), ang, &space, true));
          if (model && model->getCovaNumber() == 1) { model->setRangeIsotropic(0, 1.75); model->setSill(0, 0, 0, 1.5); }
          for (auto& s : st.scales) s = 1.75 / scadef;
          st.sill = 1.5;
          break;
        }
      }
    }
    catch (...) { C.violation(std::string("route:throws:") + ROUTES[route], std::string(ROUTES[route]) + " throws; " + caseText(I, g, param, ""), std::to_string(id)); return; }
    if (model) { if (model->getCovaNumber() != 1) { C.violation(std::string("route:refused:") + ROUTES[route], std::string(ROUTES[route]) + " did not create the structure; " + caseText(I, g, param, ""), std::to_string(id)); return; } c = model->getCova(0); }
    else c = own.get();
    if (c == nullptr) { C.violation(std::string("route:refused:") + ROUTES[route], std::string(ROUTES[route]) + " returned nothing; " + caseText(I, g, param, ""), std::to_string(id)); return; }
    C.eval();
    std::string what, obs = judgeState(I, c, st, &what);
    const std::string txt = std::string(ROUTES[route]) + "(" + (flagRange ? "ranges=" : "scales=") + vstr(g.ranges) + ", angles=" + vstr(g.angles) + ", param=" + fmt(param) + ", sill=" + fmt(sill) + ") " + K + " ndim=" + std::to_string(nd);
    if (!obs.empty())
    {
      // mechanism: the range was converted into a scale with the scale factor of the DEFAULT third parameter (range set before param)
      bool defConv = false;
      if (flagRange && I.nparam > 0)
      {
        double sd1 = declaredScadef(I, nd, 1.);
        defConv = true;
        for (int i = 0; i < nd; i++) if (!(std::fabs(c->getScales()[i] - g.ranges[i] / sd1) <= 1e-12 * g.ranges[i])) defConv = false;
        if (route == 9) defConv = false;
      }
      if (defConv)
        C.violation(std::string("route:range-converted-before-param:") + ROUTES[route], txt + ": the requested practical range is not honoured: " + what + " - the scales are range/scadef(param=1)=" + vstr(c->getScales()) +
                    " because the range is set BEFORE the third parameter (the constructor CovAniso(type,range,param,sill) and Model::addCovFromParam set the parameter first and give range " + vstr(g.ranges) + ")", std::to_string(id));
      else
        C.violation(std::string("route:") + obs + ":" + ROUTES[route], txt + ": " + what, std::to_string(id));
    }
    C.outcome(std::string(ROUTES[route]) + (obs.empty() ? "/agrees" : "/DIFFERS"));
    if (model)
    {
      // through the Model: matrix on a 3^d lattice = closed form, PSD
      Pts P = lattice(nd, 3, 0.4 * g.ranges[0]);
      std::unique_ptr<Db> db(ptsToDb(P, nd));
      Mat M = toEigen(model->evalCovMatrixSymmetric(db.get()));
      double worst = 0;
      for (size_t i = 0; i < P.size(); i++) for (size_t j = 0; j < P.size(); j++)
      { std::vector<double> h(nd); for (int k = 0; k < nd; k++) h[k] = P[j][k] - P[i][k]; worst = std::max(worst, std::fabs(M(i, j) - refCovState(I, st, h))); }
      if (obs.empty() && worst > (K == "MATERN" ? 1e-7 : 1e-9) * sill) C.violation(std::string("route:matrix:") + ROUTES[route], txt + ": Model matrix differs from the closed form by " + fmt(worst), std::to_string(id));
    }
    if (g.rotated() && g.aniso()) C.nontrivial(id);
    if (id % 1499 == 3) C.sample("{\"id\":" + std::to_string(id) + ",\"case\":" + jstr(txt) + "}");
  });
}

// ---- setter sequences -------------------------------------------------------------------------------------------------
enum { OP_RANGE_ISO, OP_RANGES, OP_RANGE_0, OP_RANGE_LAST, OP_SCALE_1, OP_SCALES, OP_SCALE_ISO, OP_ANGLES, OP_ANGLE_0, OP_ANGLE_1, OP_ROT_OBJ, OP_ROT_VEC,
       OP_RAR_RANGES, OP_RAR_SCALES, OP_PARAM, OP_SILL, NOPS };
static const char* OPN[NOPS] = {"setRangeIsotropic", "setRanges", "setRange(0,.)", "setRange(last,.)", "setScale(1,.)", "setScales", "setScale(.)", "setAnisoAngles", "setAnisoAngle(0,.)",
                                "setAnisoAngle(1,.)", "setAnisoRotation(Rotation)", "setAnisoRotation(matrix)", "setRotationAnglesAndRadius(angles,ranges)", "setRotationAnglesAndRadius(,,scales)",
                                "setParam", "setSill"};
static VectorDouble vd(int nd, double a, double b, double c) { VectorDouble v {a, b}; if (nd == 3) v.push_back(c); return v; }
// applies op to the library object and to the abstract state; false: op not applicable in this dimension / structure
static bool applyOp(int op, const Info& I, CovAniso* c, AState& st, std::string* txt)
{
  int nd = st.nd;
  auto scadef = [&]() { return declaredScadef(I, nd, st.param); };
  // the angles the next single-angle setter starts from are the ones the object reports (validated against R by judgeState)
  auto setAngles = [&](const VectorDouble& a) { st.angles.assign(a.begin(), a.end()); if (nd == 2) st.angles[1] = 0.; st.R = refRot(nd, st.angles); };
  switch (op)
  {
    case OP_RANGE_ISO: c->setRangeIsotropic(2.); for (auto& s : st.scales) s = 2. / scadef(); *txt = "setRangeIsotropic(2)"; break;
    case OP_RANGES: { VectorDouble v = vd(nd, 4, 1.5, 0.75); c->setRanges(v); for (int i = 0; i < nd; i++) st.scales[i] = v[i] / scadef(); *txt = "setRanges(" + vstr(v) + ")"; break; }
    case OP_RANGE_0: c->setRange(0, 3.); st.scales[0] = 3. / scadef(); *txt = "setRange(0,3)"; break;
    case OP_RANGE_LAST: c->setRange(nd - 1, 0.5); st.scales[nd - 1] = 0.5 / scadef(); *txt = "setRange(" + std::to_string(nd - 1) + ",0.5)"; break;
    case OP_SCALE_1: c->setScale(1, 1.25); st.scales[1] = 1.25; *txt = "setScale(1,1.25)"; break;
    case OP_SCALES: { VectorDouble v = vd(nd, 2, 1, 0.5); c->setScales(v); for (int i = 0; i < nd; i++) st.scales[i] = v[i]; *txt = "setScales(" + vstr(v) + ")"; break; }
    case OP_SCALE_ISO: c->setScale(0.75); for (auto& s : st.scales) s = 0.75; *txt = "setScale(0.75)"; break;
    case OP_ANGLES: { VectorDouble a = nd == 2 ? VectorDouble {30, 0} : VectorDouble {40, 20, 10}; c->setAnisoAngles(a); setAngles(a); *txt = "setAnisoAngles(" + vstr(a) + ")"; break; }
    case OP_ANGLE_0: { VectorDouble a = c->getAnisoAngles(); a[0] = 135.; c->setAnisoAngle(0, 135.); setAngles(a); *txt = "setAnisoAngle(0,135)"; break; }
    case OP_ANGLE_1: { if (nd == 2) return false; VectorDouble a = c->getAnisoAngles(); a[1] = -60.; c->setAnisoAngle(1, -60.); setAngles(a); *txt = "setAnisoAngle(1,-60)"; break; }
    case OP_ROT_OBJ: { VectorDouble a = nd == 2 ? VectorDouble {-20, 0} : VectorDouble {135, -60, 75}; Rotation r(nd); r.setAngles(a); c->setAnisoRotation(r); setAngles(a); *txt = "setAnisoRotation(Rotation" + vstr(a) + ")"; break; }
    case OP_ROT_VEC: { VectorDouble a = nd == 2 ? VectorDouble {60, 0} : VectorDouble {10, 0, 350}; Rotation r(nd); r.setAngles(a); c->setAnisoRotation(r.getMatrixDirectVec()); setAngles(a); *txt = "setAnisoRotation(matrix of " + vstr(a) + ")"; break; }
    case OP_RAR_RANGES: { VectorDouble a = nd == 2 ? VectorDouble {90, 0} : VectorDouble {0, 90, 0}; VectorDouble v = vd(nd, 1, 3, 2); c->setRotationAnglesAndRadius(a, v, VectorDouble());
                          setAngles(a); for (int i = 0; i < nd; i++) st.scales[i] = v[i] / scadef(); *txt = "setRotationAnglesAndRadius(" + vstr(a) + ",ranges=" + vstr(v) + ")"; break; }
    case OP_RAR_SCALES: { VectorDouble v = vd(nd, 0.5, 0.25, 1); c->setRotationAnglesAndRadius(VectorDouble(), VectorDouble(), v); for (int i = 0; i < nd; i++) st.scales[i] = v[i]; *txt = "setRotationAnglesAndRadius(,,scales=" + vstr(v) + ")"; break; }
    case OP_PARAM: { if (I.nparam == 0) return false; double p = std::string(I.key) == "MATERN" ? 2.5 : 2.; c->setParam(p); st.param = p; *txt = "setParam(" + fmt(p) + ")"; break; }
    case OP_SILL: c->setSill(2.5); st.sill = 2.5; *txt = "setSill(2.5)"; break;
    default: return false;
  }
  return true;
}
VF_PART(setters)
{
  const bool th = C.thorough();
  Space sp;
  // op axes: NOPS = "no further call"; the 4th call is enumerated in the thorough tier only
  sp.axis("host", 2).axis("type", 5).axis("ndim", 2).axis("op1", NOPS).axis("op2", NOPS + 1).axis("op3", NOPS + 1).axis("op4", NOPS + 1);
  for_each_case(C, sp, [&](uint64_t id, const std::vector<int>& idx) {
    const Info& I = infoOf(RKEYS[idx[1]]);
    int nd = idx[2] + 2;
    std::vector<int> ops;
    for (int k = 3; k < 7; k++)
    {
      if (idx[k] == NOPS) { for (int j = k + 1; j < 7; j++) if (idx[j] != NOPS) return; break; }   // "none" only at the tail
      ops.push_back(idx[k]);
    }
    if (!th && C.only_case.empty() && ops.size() > 3) return;
    // the 4-call histories: only those that touch a by-direction setter or a rotation (the others are products of independent calls)
    if (ops.size() == 4)
    {
      bool dir = false, rot = false;
      for (int o : ops) { if (o == OP_RANGE_0 || o == OP_RANGE_LAST || o == OP_SCALE_1 || o == OP_ANGLE_0 || o == OP_ANGLE_1) dir = true; if (o >= OP_ANGLES && o <= OP_RAR_RANGES) rot = true; }
      if (!(dir && rot)) return;
    }
    SpaceRN space(nd); CovContext ctxt(1, &space);
    ECov type = ECov::fromKey(I.key);
    std::unique_ptr<CovAniso> own; std::unique_ptr<Model> model; CovAniso* c = nullptr;
    if (idx[0] == 0) { own.reset(new CovAniso(type, ctxt)); c = own.get(); }
    else { CovAniso c0(type, ctxt); model.reset(new Model(ctxt)); model->addCov(&c0); if (model->getCovaNumber() != 1) { C.violation("setters:model-addCov", "Model::addCov refused a default structure", std::to_string(id)); return; } c = model->getCova(0); }
    AState st; st.nd = nd; st.scales.assign(nd, 1.); st.angles.assign(nd, 0.); st.R = Mat::Identity(nd, nd); st.param = 1.; st.sill = 1.;
    std::string hist, what, obs;
    bool rotatedThenDir = false, seenRot = false;
    try
    {
      for (size_t k = 0; k < ops.size(); k++)
      {
        std::string t;
        if (!applyOp(ops[k], I, c, st, &t)) return;   // op not applicable (2-D second angle, parameter of a structure without one)
        hist += (k ? "; " : "") + t;
        if (ops[k] >= OP_ANGLES && ops[k] <= OP_RAR_RANGES && (st.R - Mat::Identity(nd, nd)).cwiseAbs().maxCoeff() > 0) seenRot = true;
        if (seenRot && (ops[k] == OP_RANGE_0 || ops[k] == OP_RANGE_LAST || ops[k] == OP_SCALE_1)) rotatedThenDir = true;
        C.eval();
        obs = judgeState(I, c, st, &what);
        if (!obs.empty())
        {
          C.violation("setters:" + obs + ":after=" + OPN[ops[k]], std::string(I.key) + " ndim=" + std::to_string(nd) + (idx[0] ? " (structure owned by a Model, reached by getCova(0))" : "") + " after {" + hist + "}: " + what, std::to_string(id));
          break;
        }
      }
    }
    catch (...) { C.violation("setters:throws", std::string(I.key) + " ndim=" + std::to_string(nd) + " {" + hist + "} throws", std::to_string(id)); return; }
    C.outcome(std::string(obs.empty() ? "agrees" : "DIFFERS") + "/len" + std::to_string(ops.size()) + (rotatedThenDir ? "/by-direction-radius-after-rotation" : ""));
    if (obs.empty() && model)
    {
      // through the Model that owns the structure: matrix on a 3^d lattice = closed form and PSD
      Pts P = lattice(nd, 3, 0.6);
      std::unique_ptr<Db> db(ptsToDb(P, nd));
      Mat M = toEigen(model->evalCovMatrixSymmetric(db.get()));
      double worst = 0;
      for (size_t i = 0; i < P.size(); i++) for (size_t j = 0; j < P.size(); j++)
      { std::vector<double> h(nd); for (int k = 0; k < nd; k++) h[k] = P[j][k] - P[i][k]; worst = std::max(worst, std::fabs(M(i, j) - refCovState(I, st, h))); }
      if (worst > (std::string(I.key) == "MATERN" ? 1e-7 : 1e-9) * st.sill) C.violation("setters:model-matrix", std::string(I.key) + " after {" + hist + "}: Model::evalCovMatrixSymmetric differs from the closed form by " + fmt(worst), std::to_string(id));
      Eigen::SelfAdjointEigenSolver<Mat> es(0.5 * (M + M.transpose()), Eigen::EigenvaluesOnly);
      if (es.eigenvalues().minCoeff() < -1e-10 * M.trace()) C.violation("setters:model-psd", std::string(I.key) + " after {" + hist + "}: matrix not PSD, min eigenvalue " + fmt(es.eigenvalues().minCoeff()), std::to_string(id));
    }
    if (rotatedThenDir) C.nontrivial(id);
    if (id % 9973 == 11) C.sample("{\"id\":" + std::to_string(id) + ",\"history\":" + jstr(std::string(I.key) + " ndim=" + std::to_string(nd) + " {" + hist + "}") + "}");
  });
}


// =================================================================================================================
// Part extreme: zonal anisotropy (one or two huge ranges: ratio 1e3 .. 1e15, long axis not aligned with the coordinate axes),
// tiny ranges with tiny lags, huge coordinates.  Reference = closed form in long double, with the anisotropic distance computed
// by the harness in the rotated frame (each rotated component divided by ITS OWN range: the huge one contributes ~0), from the
// coordinate differences the library itself forms.  Tolerance: 1e-9 x sill on the covariance VALUE (an error of the distance
// along the huge axis is immaterial).  Lags are bounded (<= 1e3 x the short range) so that the double-precision rounding of
// the rotated short component (1e-16 |h| / r_short) stays far below the tolerance.
static long double refRhoL(const std::string& k, long double t, double p)
{
  if (k == "SPHERICAL") return t < 1 ? 1 - 1.5L * t + 0.5L * t * t * t : 0.L;
  if (k == "CUBIC") return t < 1 ? 1 - 7 * t * t + 8.75L * t * t * t - 3.5L * powl(t, 5) + 0.75L * powl(t, 7) : 0.L;
  if (k == "EXPONENTIAL") return expl(-t);
  if (k == "GAUSSIAN") return expl(-t * t);
  if (k == "MATERN" && p == 1.5) return (1 + t) * expl(-t);
  return std::nanl("");
}
static const char* XKEYS[5] = {"SPHERICAL", "CUBIC", "EXPONENTIAL", "GAUSSIAN", "MATERN"};
static const double XRATIO[5] = {1e3, 1e6, 1e9, 1e12, 1e15};
static const char* XRATION[5] = {"1e3", "1e6", "1e9", "1e12", "1e15"};
static const double XROT2[5] = {0., 30., 62., 115., 155.};
static const double XROT3[5][3] = {{0, 0, 0}, {30, 0, 0}, {62, 25, -40}, {115, -60, 75}, {155, 10, 200}};
static const int XPAT3[6][3] = {{1, 0, 0}, {0, 1, 0}, {0, 0, 1}, {1, 1, 0}, {1, 0, 1}, {0, 1, 1}};   // which axes carry the huge range
VF_PART(extreme)
{
  Space sp;
  sp.axis("type", 5).axis("ndim", 2).axis("ratio", 5).axis("pattern", 6).axis("rot", 5).axis("origin", 2).axis("unit", 2);
  for_each_case(C, sp, [&](uint64_t id, const std::vector<int>& idx) {
    const Info& I = infoOf(XKEYS[idx[0]]);
    const std::string K = I.key;
    int nd = idx[1] + 2;
    if (nd == 2 && idx[3] >= 2) return;
    const double ratio = XRATIO[idx[2]], unit = idx[6] ? 1e-6 : 1.;   // unit = the short range (1, or tiny: 1e-6 with tiny lags)
    const double param = K == "MATERN" ? 1.5 : 1., sill = 2.;
    const std::string rtag = std::string("ratio=") + XRATION[idx[2]];
    Geo g; g.nd = nd;
    std::vector<int> huge(nd);
    for (int i = 0; i < nd; i++) { huge[i] = nd == 2 ? (i == idx[3]) : XPAT3[idx[3]][i]; g.ranges.push_back(unit * (huge[i] ? ratio : (i == 1 ? 0.75 : 1.))); }
    if (nd == 2) g.angles = {XROT2[idx[4]], 0.}; else g.angles = {XROT3[idx[4]][0], XROT3[idx[4]][1], XROT3[idx[4]][2]};
    g.R = refRot(nd, g.angles);
    double scadef = declaredScadef(I, nd, param);
    std::unique_ptr<Model> model(buildModel(I, g, param, sill, VectorDouble(), true, scadef));
    if (!model) { C.violation("extreme:refused:" + rtag, "model refused; " + caseText(I, g, param, ""), std::to_string(id)); return; }
    const std::string txt = caseText(I, g, param, "") + (idx[5] ? " origin 1e6" : " origin 0");
    // long double reference from the coordinate difference h (as formed in double by the library: p2 - p1)
    auto refCov = [&](const std::vector<double>& h) -> long double {
      long double t2 = 0;
      for (int i = 0; i < nd; i++)
      {
        long double u = 0;
        for (int k = 0; k < nd; k++) u += (long double)g.R(k, i) * (long double)h[k];
        u /= (long double)g.ranges[i];
        t2 += u * u;
      }
      return (long double)sill * refRhoL(K, sqrtl(t2) * (long double)scadef, param);
    };
    SpaceRN space(nd);
    static const double ORG[3] = {1e6, -1e6, 5e5};
    VectorDouble o(nd, 0.);
    if (idx[5]) for (int i = 0; i < nd; i++) o[i] = ORG[i] * (idx[6] ? 1e-6 : 1.);   // tiny unit: offsets of 1 (1e6 x the short range)
    SpacePoint p1(o, -1, &space);
    const double tol = 1e-9 * sill;
    // lags in the rotated frame: (coefficient on the short axes, coefficient on the huge axes), in units of the short range
    static const double LG[9][2] = {{0.1, 0}, {0.45, 0}, {0.9, 0}, {1.3, 0}, {0, 500}, {0.45, 300}, {0.2, -1000}, {-0.7, 40}, {0.03, 7}};
    double c0 = model->eval0(0, 0), cxx = model->eval(p1, p1, 0, 0);
    C.eval(2);
    bool bad = false;
    if (!(std::fabs(c0 - sill) <= 1e-12 * sill) || !(std::fabs(cxx - sill) <= 1e-12 * sill))
    { C.violation("extreme:self:" + rtag, "C(x,x)=" + fmt(cxx) + " eval0=" + fmt(c0) + " but the sill is " + fmt(sill) + "; " + txt, std::to_string(id)); bad = true; }
    int nshort = 0;
    for (int l = 0; l < 9 && !bad; l++)
      for (int v = 0; v < (nd == 3 ? 2 : 1) && !bad; v++)
      {
        // rotated-frame vector: short axes get LG[l][0] (variant: second short axis gets half of it), huge axes LG[l][1]
        std::vector<double> u(nd); int ks = 0;
        for (int i = 0; i < nd; i++) { if (huge[i]) u[i] = LG[l][1] * unit; else { u[i] = LG[l][0] * unit * (ks == 1 && v ? -0.5 : 1.) * (i == 1 ? 0.75 : 1.); ks++; } }
        VectorDouble q(nd); std::vector<double> h(nd), hm(nd);
        VectorDouble qm(nd);
        for (int i = 0; i < nd; i++) { double s = 0; for (int k = 0; k < nd; k++) s += g.R(i, k) * u[k]; q[i] = o[i] + s; qm[i] = o[i] - s; h[i] = q[i] - o[i]; hm[i] = qm[i] - o[i]; }
        SpacePoint p2(q, -1, &space), p3(qm, -1, &space);
        double c = model->eval(p1, p2, 0, 0), cr = model->eval(p2, p1, 0, 0), cm = model->eval(p1, p3, 0, 0);
        long double ref = refCov(h), refm = refCov(hm);
        C.eval(3);
        if (ref > 1e-6 * sill && ref < (1 - 1e-6) * sill) nshort++;
        if (!std::isfinite(c) || !std::isfinite(cm))
        { C.violation("extreme:nan:" + rtag, "C(h)=" + fmt(c) + " is not finite for h=" + vstr(h) + " (rotated frame " + vstr(u) + "); " + txt, std::to_string(id)); bad = true; break; }
        if (!(std::fabs((long double)c - ref) <= tol) || !(std::fabs((long double)cm - refm) <= tol))
        { C.violation("extreme:eval:" + rtag, "C(h)=" + fmt(c) + " but the closed form (long double, distance in the rotated frame) gives " + fmt((double)ref) + " for h=" + vstr(h) + " = R." + vstr(u) + "; " + txt, std::to_string(id)); bad = true; break; }
        if (c != cr) { C.violation("extreme:even:" + rtag, "C(p1,p2)=" + fmt(c) + " != C(p2,p1)=" + fmt(cr) + " for h=" + vstr(h) + "; " + txt, std::to_string(id)); bad = true; break; }
        if (std::fabs(c) > c0 * (1 + 1e-12)) { C.violation("extreme:bound:" + rtag, "|C(h)|=" + fmt(c) + " > C(0)=" + fmt(c0) + "; " + txt, std::to_string(id)); bad = true; break; }
      }
    // small lattice in the rotated frame: plain matrix = closed form, PSD, Optim path = plain path
    if (!bad)
    {
      Pts P;
      int tot = 1; for (int i = 0; i < nd; i++) tot *= 3;
      for (int r = 0; r < tot; r++)
      {
        std::vector<double> u(nd), x(nd); int w = r;
        for (int i = 0; i < nd; i++) { int k = w % 3; w /= 3; u[i] = huge[i] ? 250. * k * unit : 0.4 * k * unit; }
        for (int i = 0; i < nd; i++) { double s2 = 0; for (int k = 0; k < nd; k++) s2 += g.R(i, k) * u[k]; x[i] = o[i] + s2; }
        P.push_back(x);
      }
      std::unique_ptr<Db> db(ptsToDb(P, nd));
      int n = (int)P.size();
      Mat M = toEigen(model->evalCovMatrixSymmetric(db.get())), Mr = toEigen(model->evalCovMatrix(db.get(), db.get()));
      C.eval(2);
      double worst = 0, worstR = 0; bool finite = true;
      for (int i = 0; i < n; i++) for (int j = 0; j < n; j++)
      {
        std::vector<double> h(nd); for (int k = 0; k < nd; k++) h[k] = P[j][k] - P[i][k];
        double ref = (double)refCov(h);
        if (!std::isfinite(M(i, j)) || !std::isfinite(Mr(i, j))) finite = false;
        worst = std::max(worst, std::fabs(M(i, j) - ref)); worstR = std::max(worstR, std::fabs(Mr(i, j) - ref));
      }
      if (!finite) C.violation("extreme:nan:" + rtag, "covariance matrix of a 3^d lattice (rotated frame) has non-finite entries; " + txt, std::to_string(id));
      else if (worst > tol || worstR > tol) C.violation("extreme:matrix:" + rtag, "covariance matrix differs from the closed form by " + fmt(std::max(worst, worstR)) + "; " + txt, std::to_string(id));
      else
      {
        Eigen::SelfAdjointEigenSolver<Mat> es(0.5 * (M + M.transpose()), Eigen::EigenvaluesOnly);
        if (es.eigenvalues().minCoeff() < -1e-10 * M.trace()) C.violation("extreme:psd:" + rtag, "matrix not PSD: min eigenvalue " + fmt(es.eigenvalues().minCoeff()) + "; " + txt, std::to_string(id));
        Mat Mo = toEigen(model->evalCovMatrixOptim(db.get(), db.get()));
        C.eval();
        double d = Mo.rows() == n ? (Mo - Mr).cwiseAbs().maxCoeff() : 1e300;
        bool fin = Mo.rows() == n && Mo.allFinite();
        // the Optim path divides the COORDINATES by the ranges before differencing them: its round-off is proportional to
        // |x| / r_short (conditioning of that formulation), which matters with the 1e6 origin (measured 3e-9 on the unchanged tree)
        double xmax = 0, rmin = 1e300;
        for (auto& pt : P) for (double v : pt) xmax = std::max(xmax, std::fabs(v));
        for (double r : g.ranges) rmin = std::min(rmin, r);
        double tolO = tol + sill * scadef * 16. * nd * 2.2e-16 * xmax / rmin;
        C.outcome(!fin ? "optim/not-finite" : d <= tol ? "optim/agrees-with-plain<=1e-9" : d <= tolO ? "optim/agrees-within-coordinate-conditioning" : "optim/DIFFERS");
        if (!fin || d > tolO) C.violation("extreme:optim-vs-plain:" + rtag, "evalCovMatrixOptim differs from evalCovMatrix by " + fmt(d) + " (plain path agrees with the closed form); " + txt, std::to_string(id));
      }
    }
    C.outcome(std::string(bad ? "DIFFERS/" : "agrees/") + rtag + (idx[6] ? "/tiny-range" : ""));
    bool obl = nd == 2 ? XROT2[idx[4]] != 0. : idx[4] != 0;
    if (obl && nshort >= 3) C.nontrivial(id);
    if (id % 601 == 7) C.sample("{\"id\":" + std::to_string(id) + ",\"case\":" + jstr(txt) + "}");
  });
}

// =================================================================================================================
// Part psd (driver of judgeMatrix above)
VF_PART(psd)
{
  const bool th = C.thorough();
  Space sp;
  // the axes have the same sizes in both tiers (a case id denotes the same stimulus everywhere); quick skips the extra entries
  sp.axis("set", NSETS).axis("type", NTYPE).axis("ndim", 3).axis("param", NPARAM_AXIS).axis("range", 4).axis("aniso", 3).axis("rot", 6);
  for_each_case(C, sp, [&](uint64_t id, const std::vector<int>& idx) {
    const Info& I = TABLE[idx[1]];
    int nd = idx[2] + 1;
    if (I.kind == NOT_ON_RN) { if (idx[0] + idx[3] + idx[4] + idx[5] + idx[6] == 0) { C.skip(); C.outcome("excluded:no-covariance-on-Rn(spectral/sphere-only)"); } return; }
    if (!th && C.only_case.empty() && (!setInQuick(idx[0]) || idx[4] >= 3 || idx[6] >= 4)) return;
    // the largest lattices (100 / 14^2 / 6^3 points) at every other step only: 0.1, 0.25, 0.4, 0.6, 0.9, 0.05, 1 (cost)
    if (C.only_case.empty() && idx[0] < 42 && idx[0] / 14 == 2 && (idx[0] % 14) % 2 == 1) return;
    double param = paramOf(I, idx[3], th || !C.only_case.empty());
    if (param == -1e300) return;
    if (nd == 1 && (idx[5] || idx[6])) return;            // no anisotropy/rotation in 1-D
    if (idx[5] == 0 && idx[6] > 1) return;                // rotating an isotropic model must change nothing: one rotation is enough
    if (std::string(I.key) == "NUGGET" && (idx[4] || idx[5] || idx[6])) return;
    Geo g = makeGeo(nd, idx[4], idx[5], idx[6]);
    std::string name;
    Pts P = makeSet(nd, idx[0], RANGES[idx[4]], name);
    if (id % 20011 == 3) C.sample("{\"id\":" + std::to_string(id) + ",\"case\":" + jstr(caseText(I, g, param, name)) + "}");
    judgeMatrix(C, id, I, g, param, P, name, th);
  });
}

int main(int argc, char** argv) { return run_main(argc, argv, [](Ctx&) { silence(); }); }
