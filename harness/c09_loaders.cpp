// C09 — loaders fail cleanly on malformed or truncated files.
// Engine E3 (fault enumeration): for every serialisable class (vf/corpus.hpp) and every small valid neutral file of its corpus,
//   (a) EVERY byte prefix (interrupted write), also completed by a garbage character,
//   (b) every value token x replacement menu {-1,0,1,2,7, huge: 1000000000,2^30,ceil(2^32/3),2000000000,2^31-1, overflow: 2^31,2^32,2^32+1,
//       1e400,<10 kB of digits>, NA,x,-0.0,1.5,<deleted>},
//   (c) every line deleted / duplicated / swapped with the next one, one extra value appended to every value line,
//   (d) (thorough) every pair of the first 8 integer header tokens x {-1,0,2,NA,<the five huge values>} x {0,2,2000000000},
// plus CSV files (Db and Polygons drivers, WKT), LAS well files, legacy keyword files and every grid exchange format that has a
// reader (Zycor, IfpEn, F2G as text; BMP as binary: every prefix, every header field x integer menu, every header byte x {00,ff}).
// Each faulty file is loaded in a forked child under AddressSanitizer. Allowed outcomes: the loader reports failure, or it
// returns an object whose structural invariants hold and which can be inspected (all getters, toString) and saved again.
// Violations: signal, uncaught exception, ASan report, resource exhaustion (> 2 s CPU (hard limit 3 s) / one allocation > 256 MB /
// > 1 GB live), broken invariant. Key = site:<first library frame of the crash>:<signature>, or <class>:<signature> when the
// failure leaves no stack (exception, broken invariant, CPU limit).
#include "vf/corpus.hpp"
#include "vf/fork.hpp"

#include "Basic/CSVformat.hpp"
#include "OutputFormat/GridBmp.hpp"
#include "OutputFormat/GridF2G.hpp"
#include "OutputFormat/GridIfpEn.hpp"
#include "OutputFormat/GridZycor.hpp"
#include "OutputFormat/FileLAS.hpp"
#include "Core/Ascii.hpp"

#include <sys/resource.h>
#include <sys/time.h>

using namespace vfc;

// ---------------------------------------------------------------------------------------------
// soft memory cap inside the child (RLIMIT_AS cannot be used under ASan)
static volatile int g_cap_active = 0;
static int g_cap_fd = -1;
#if defined(__SANITIZE_ADDRESS__)
extern "C" void __sanitizer_print_stack_trace();
extern "C" void __sanitizer_symbolize_pc(void* pc, const char* fmt, char* out_buf, size_t out_buf_size);
static void print_stack() { __sanitizer_print_stack_trace(); }
// start the external symbolizer ONCE in the shard process: the forked children inherit its pipes and reuse it
// (otherwise every crashing child launches its own symbolizer: 0.3 s per report)
static void warm_symbolizer() { char b[512]; __sanitizer_symbolize_pc((void*)&warm_symbolizer, "%f %s:%l", b, sizeof b); }
extern "C" int __sanitizer_install_malloc_and_free_hooks(void (*malloc_hook)(const volatile void*, size_t), void (*free_hook)(const volatile void*));
extern "C" size_t __sanitizer_get_current_allocated_bytes();
static void cap_malloc_hook(const volatile void*, size_t size)
{
  if (!g_cap_active) return;
  static unsigned long n = 0;
  bool big = size > (256ul << 20);
  if (!big && (++n & 255) == 0) big = __sanitizer_get_current_allocated_bytes() > (1024ul << 20);
  if (big)
  {
    g_cap_active = 0;
    const char* m = "\nM memory-cap\n";
    if (g_cap_fd >= 0) { ssize_t w = write(g_cap_fd, m, strlen(m)); (void)w; }
    print_stack();
    _exit(93);
  }
}
static void cap_free_hook(const volatile void*) {}
static void install_cap() { __sanitizer_install_malloc_and_free_hooks(cap_malloc_hook, cap_free_hook); warm_symbolizer(); }
static const long CHILD_RLIMIT_MB = 0;
#else
static void print_stack() {}
static void install_cap() {}
static const long CHILD_RLIMIT_MB = 2048;   // rel flavour: address-space limit, allocation failure -> bad_alloc
#endif

// ---------------------------------------------------------------------------------------------
// A text split into lines and value tokens (comments are never mutated: the readers skip them)
struct Tok { size_t beg, end; int line; std::string title; bool isInt; };
struct Parsed
{
  std::string text;
  std::vector<std::pair<size_t, size_t>> lines;   // [beg,end) without '\n'
  std::vector<std::string> lineTitle;
  std::vector<bool> lineHasValues;
  std::vector<Tok> toks;
};
static std::string sanitize_title(const std::string& s)
{
  std::string o;
  for (char c : s) { if (isalnum((unsigned char)c)) o += c; else if (!o.empty() && o.back() != '_') o += '_'; }
  while (!o.empty() && o.back() == '_') o.pop_back();
  if (o.size() > 28) o.resize(28);
  return o.empty() ? "untitled" : o;
}
static Parsed parse_text(const std::string& t, bool hasTagLine)
{
  Parsed P; P.text = t;
  size_t pos = 0; int ln = 0;
  std::string last = "header";
  while (pos <= t.size())
  {
    size_t e = t.find('\n', pos);
    if (e == std::string::npos) e = t.size();
    if (pos == t.size()) break;
    P.lines.push_back({pos, e});
    std::string line = t.substr(pos, e - pos);
    size_t h = line.find('#');
    std::string body = h == std::string::npos ? line : line.substr(0, h);
    std::string com = h == std::string::npos ? "" : line.substr(h + 1);
    bool tagline = hasTagLine && ln == 0;
    bool hasv = body.find_first_not_of(" \t\r") != std::string::npos;
    std::string title = tagline ? "class_tag" : !com.empty() && hasv ? sanitize_title(com) : last;
    if (!com.empty() && !hasv) { last = sanitize_title(com); title = last; }
    P.lineTitle.push_back(title);
    P.lineHasValues.push_back(hasv && !tagline);
    size_t i = 0;
    while (i < body.size())
    {
      while (i < body.size() && isspace((unsigned char)body[i])) i++;
      size_t b = i;
      while (i < body.size() && !isspace((unsigned char)body[i])) i++;
      if (i > b)
      {
        std::string w = body.substr(b, i - b);
        bool isint = !w.empty() && w.find_first_not_of("0123456789") == std::string::npos;
        P.toks.push_back({pos + b, pos + i, ln, title, isint});
      }
    }
    pos = e + 1; ln++;
  }
  return P;
}

static const std::vector<std::pair<std::string, std::string>>& repl_menu()
{
  static const std::vector<std::pair<std::string, std::string>> v = {
    {"-1", "neg"}, {"0", "zero"}, {"1", "small"}, {"2", "small"}, {"7", "small"},
    // "huge": representable ints chosen to hit integer wrap-around of count products from several sides (x2, x3, x4, x8, +1)
    {"1000000000", "huge"}, {"1073741824", "huge"}, {"1431655766", "huge"}, {"2000000000", "huge"}, {"2147483647", "huge"},
    // "overflow": not representable as int (2^31, 2^32, 2^32+1, a float overflow, 10 kB of digits)
    {"2147483648", "overflow"}, {"4294967296", "overflow"}, {"4294967297", "overflow"}, {"1e400", "overflow"}, {std::string(10240, '9'), "overflow"},
    {"NA", "NA"}, {"x", "text"}, {"-0.0", "zero"}, {"1.5", "float"}, {"", "deleted"}};
  return v;
}
// long words (echoed by error messages into fixed buffers): every length, every token position, loaders run with verbose = true
static const std::vector<int>& long_menu() { static const std::vector<int> v = {900, 998, 999, 1000, 1001, 1100, 2000, 5000}; return v; }
// structured faults of a name token: last character removed, trailing digit replaced by 0 and by 99 ("Drift:x1" -> "Drift:x", "Drift:x0", "Drift:x99")
static const std::vector<std::string>& name_menu() { static const std::vector<std::string> v = {"chopped", "digit0", "digit99"}; return v; }
static const std::vector<std::string>& pair_menu() { static const std::vector<std::string> v = {"0", "2", "2000000000"}; return v; }   // second token of a pair
// first token of a pair: the whole "huge" set
static const std::vector<std::string>& pair_menu1() { static const std::vector<std::string> v = {"-1", "0", "2", "NA", "1000000000", "1073741824", "1431655766", "2000000000", "2147483647"}; return v; }

// class of a token of the VALID file: count-token (unsigned integer literal), value-token (other number or NA), name-token (anything else)
static std::string token_class(const std::string& w)
{
  if (!w.empty() && w.find_first_not_of("0123456789") == std::string::npos) return "count-token";
  if (w == "NA") return "value-token";
  char* end = nullptr;
  (void)strtod(w.c_str(), &end);
  if (end != w.c_str() && *end == '\0') return "value-token";
  return "name-token";
}
struct Mut { std::string kind, title, content, desc, fk; };   // fk = fault kind used in the finding key (a function of the input only)

// number of mutations of each family for a parsed text
struct Plan
{
  const Parsed* P;
  bool thorough;
  size_t nPrefix, nGarbage, nTok, nLine, nPair, nLong, nName;
  std::vector<int> intToks;
  Plan(const Parsed& p, bool th, bool garbage = true, bool longtok = true) : P(&p), thorough(th)
  {
    nLong = longtok ? p.toks.size() * long_menu().size() : 0;
    nName = longtok ? p.toks.size() * name_menu().size() : 0;
    nPrefix = p.text.size();                     // k = 0 .. size-1
    nGarbage = th && garbage ? p.text.size() : 0;
    nTok = p.toks.size() * repl_menu().size();
    nLine = p.lines.size() * 4;
    for (size_t i = 0; i < p.toks.size() && intToks.size() < 8; i++) if (p.toks[i].isInt && p.toks[i].title != "class_tag") intToks.push_back((int)i);
    nPair = th ? intToks.size() * (intToks.size() - (intToks.empty() ? 0 : 1)) / 2 * pair_menu1().size() * pair_menu().size() : 0;
  }
  size_t size() const { return nPrefix + nGarbage + nTok + nLine + nPair + nLong + nName; }
  static std::string replace(const std::string& t, size_t b, size_t e, const std::string& r) { return t.substr(0, b) + r + t.substr(e); }
  std::string titleAt(size_t bytepos) const
  {
    for (size_t l = 0; l < P->lines.size(); l++) if (bytepos <= P->lines[l].second) return P->lineTitle[l];
    return "end";
  }
  // where a prefix of k bytes ends (a function of the valid text and k only)
  std::string cutClass(size_t k) const
  {
    const std::string& t = P->text;
    if (k == 0) return "empty";
    if (k <= 2) return "tiny";                                         // shorter than a byte-order mark
    size_t nl = t.find('\n');
    if (nl == std::string::npos || k <= nl) return "in-first-line";
    if (t[k - 1] == '\n' || (k < t.size() && t[k] == '\n')) return "at-line-end";
    if (!isspace((unsigned char)t[k - 1]) && k < t.size() && !isspace((unsigned char)t[k])) return "mid-token";
    return "mid-line";
  }
  bool make(size_t i, Mut& m) const
  {
    const std::string& t = P->text;
    if (i < nPrefix) { m = {"truncate", titleAt(i), t.substr(0, i), "prefix of " + std::to_string(i) + " bytes", "truncated=" + cutClass(i)}; return true; }
    i -= nPrefix;
    if (i < nGarbage) { m = {"truncate-garbage", titleAt(i), t.substr(0, i) + "x9", "prefix of " + std::to_string(i) + " bytes + 'x9'", "truncated+garbage=" + cutClass(i)}; return true; }
    i -= nGarbage;
    if (i < nTok)
    {
      const Tok& k = P->toks[i / repl_menu().size()];
      const auto& r = repl_menu()[i % repl_menu().size()];
      std::string orig = t.substr(k.beg, k.end - k.beg);
      if (orig == r.first) return false;
      m = {r.first.size() > 1000 ? std::string("token-longtoken") : "token-" + r.second, k.title, replace(t, k.beg, k.end, r.first), "token '" + orig + "' (line " + std::to_string(k.line + 1) + ") replaced by '" + (r.first.size() > 20 ? "<10 kB of 9>" : r.first) + "'", token_class(orig) + "=" + r.second};
      return true;
    }
    i -= nTok;
    if (i < nLine)
    {
      size_t l = i / 4; int op = (int)(i % 4);
      auto [b, e] = P->lines[l];
      std::string line = t.substr(b, e - b);
      size_t eol = e < t.size() ? e + 1 : e;
      if (op == 0) { m = {"line-delete", P->lineTitle[l], t.substr(0, b) + t.substr(eol), "line " + std::to_string(l + 1) + " deleted: '" + line + "'", "line-deleted"}; return true; }
      if (op == 1) { m = {"line-duplicate", P->lineTitle[l], t.substr(0, eol) + line + "\n" + t.substr(eol), "line " + std::to_string(l + 1) + " duplicated: '" + line + "'", "line-duplicated"}; return true; }
      if (op == 2)
      {
        if (l + 1 >= P->lines.size()) return false;
        auto [b2, e2] = P->lines[l + 1];
        std::string line2 = t.substr(b2, e2 - b2);
        if (line2 == line) return false;
        size_t eol2 = e2 < t.size() ? e2 + 1 : e2;
        m = {"line-swap", P->lineTitle[l], t.substr(0, b) + line2 + "\n" + line + "\n" + t.substr(eol2), "lines " + std::to_string(l + 1) + "," + std::to_string(l + 2) + " swapped", "lines-swapped"};
        return true;
      }
      if (!P->lineHasValues[l]) return false;
      size_t h = line.find('#');
      std::string nl = h == std::string::npos ? line + " 7" : line.substr(0, h) + " 7 " + line.substr(h);
      m = {"extra-value", P->lineTitle[l], t.substr(0, b) + nl + t.substr(e), "one extra value appended to line " + std::to_string(l + 1) + ": '" + line + "'", "extra-value"};
      return true;
    }
    i -= nLine;
    if (i >= nPair)
    {
      i -= nPair;
      if (i < nLong)
      {
        const Tok& k = P->toks[i / long_menu().size()];
        int len = long_menu()[i % long_menu().size()];
        std::string orig = t.substr(k.beg, k.end - k.beg);
        m = {"token-long", k.title, replace(t, k.beg, k.end, std::string((size_t)len, 'Z')), "token '" + orig + "' (line " + std::to_string(k.line + 1) + ") replaced by a word of " + std::to_string(len) + " letters 'Z' (loader verbose)", token_class(orig) + "=long"};
        return true;
      }
      i -= nLong;
      const Tok& k = P->toks[i / name_menu().size()];
      int op = (int)(i % name_menu().size());
      std::string orig = t.substr(k.beg, k.end - k.beg);
      if (token_class(orig) != "name-token" || k.title == "class_tag") return false;
      std::string r = orig;
      if (op == 0) { if (r.size() < 2) return false; r.pop_back(); }
      else
      {
        size_t e = r.size(); while (e > 0 && isdigit((unsigned char)r[e - 1])) e--;
        if (e == r.size()) return false;                      // no trailing digit
        r = r.substr(0, e) + (op == 1 ? "0" : "99");
      }
      if (r == orig) return false;
      m = {"token-name-" + name_menu()[op], k.title, replace(t, k.beg, k.end, r), "token '" + orig + "' (line " + std::to_string(k.line + 1) + ") replaced by '" + r + "'", "name-token=" + name_menu()[op]};
      return true;
    }
    size_t mm = pair_menu().size(), per = pair_menu1().size() * mm, pr = i / per, rr = i % per, a = 0, b = 1;
    // decode pair index
    for (size_t q = 0; q < pr; q++) { b++; if (b >= intToks.size()) { a++; b = a + 1; } }
    if (a >= intToks.size() || b >= intToks.size()) return false;
    const Tok &ka = P->toks[intToks[a]], &kb = P->toks[intToks[b]];
    const std::string &ra = pair_menu1()[rr / mm], &rb = pair_menu()[rr % mm];
    std::string s = replace(t, kb.beg, kb.end, rb);   // later token first: offsets of the earlier one stay valid
    s = replace(s, ka.beg, ka.end, ra);
    m = {"token-pair", ka.title + "+" + kb.title, s, "tokens on lines " + std::to_string(ka.line + 1) + "," + std::to_string(kb.line + 1) + " replaced by '" + ra + "','" + rb + "'", "token-pair"};
    return true;
  }
};

// ---------------------------------------------------------------------------------------------
// One loader = how a byte string is offered to the library + what is done with the returned object
struct Loader
{
  std::string name;                                           // class / format
  std::function<int(const std::string& content, int wfd)> run;   // in the child; writes "R fail-clean" or "R ok-object" + stages
};
static void say(int fd, const std::string& s)
{
  if (s.rfind("R ", 0) == 0)
  {
    // the load is over: report the CPU it took (what follows — inspecting the object — is harness work on a possibly large object)
    struct rusage ru; getrusage(RUSAGE_SELF, &ru);
    char b[64]; snprintf(b, 64, "L %.3f\n", ru.ru_utime.tv_sec + ru.ru_utime.tv_usec * 1e-6 + ru.ru_stime.tv_sec + ru.ru_stime.tv_usec * 1e-6);
    child_write(fd, b);
  }
  child_write(fd, s + "\n");
}

static int run_nf(const ClassDef& def, bool viaFile, const std::string& content, int wfd)
{
  std::unique_ptr<ASerializable> o;
  say(wfd, "T load");
  if (viaFile)
  {
    std::string path = scratch_path("c09.nf");
    write_file(path, content);
    o.reset(def.fromNF(path));
    unlink(path.c_str());
  }
  else
  {
    // what _fileOpenRead does, on a stream: read and check the tag word, then deserialize the rest
    o.reset(def.fresh());
    std::istringstream is(content);
    std::string type;
    is >> type;
    if (type != nf_tag(o.get()) || !is.good()) o.reset();
    else if (!o->deserialize(is, nf_verbose())) o.reset();
  }
  if (!o) { say(wfd, "R fail-clean"); return 0; }
  say(wfd, "R ok-object");
  say(wfd, "T invariants");
  if (def.invariants) { std::string s = def.invariants(o.get()); if (!s.empty()) { say(wfd, "I " + s); return 0; } }
  say(wfd, "T getters");
  Fp fp; def.getters(o.get(), fp);
  say(wfd, "T display");
  if (auto* as = dynamic_cast<AStringable*>(o.get())) { std::string s = as->toString(); (void)s; }
  say(wfd, "T resave");
  std::string t2;
  bool ok = to_text(o.get(), t2);
  say(wfd, ok ? "S resave-ok" : "S resave-refused");
  if (ok)
  {
    say(wfd, "T reload");
    std::unique_ptr<ASerializable> b(def.fresh());
    say(wfd, from_text(b.get(), t2) ? "S reload-ok" : "S reload-refused");
  }
  say(wfd, "T done");
  return 0;
}

static std::string db_use(Db* db, int wfd)
{
  say(wfd, "R ok-object");
  say(wfd, "T invariants");
  std::string s = db_invariants(*db);
  if (s.empty()) if (auto* g = dynamic_cast<DbGrid*>(db)) if (!g->isConsistent()) s = "grid-size-vs-samples";
  if (!s.empty()) { say(wfd, "I " + s); return s; }
  say(wfd, "T getters");
  Fp fp; db_getters(*db, fp);
  say(wfd, "T display");
  std::string d = db->toString(); (void)d;
  say(wfd, "T resave");
  std::string t2; say(wfd, to_text(db, t2) ? "S resave-ok" : "S resave-refused");
  say(wfd, "T done");
  return "";
}

// ---------------------------------------------------------------------------------------------
// a loader is charged with resource exhaustion above CPU_FLAG seconds of CPU (the child is killed at 3 s); the menus are kept such
// that every case either needs less than CPU_FLAG/4 or is killed at the hard limit (see "TIMING-SENSITIVE" in the histogram)
static const double CPU_FLAG = 1.0;
struct Outcome { std::string result, signature, stage, detail, site, exc, raw; double cpu = 0., loadcpu = -1.; bool killed = false, memory = false; };   // signature "" = allowed outcome
static Outcome judge(const ChildResult& r, double cpu)
{
  Outcome o;
  o.cpu = cpu;
  o.killed = r.kind != ChildResult::EXITED;
  o.raw = r.data.substr(0, 6000);
  o.stage = "start";
  std::istringstream is(r.data);
  std::string l, inv, asan;
  bool done = false, memcap = false;
  double loadcpu = -1.;
  while (std::getline(is, l))
  {
    if (l.rfind("T ", 0) == 0) { o.stage = l.substr(2); if (o.stage == "done") done = true; }
    else if (l.rfind("R ", 0) == 0) o.result = l.substr(2);
    else if (l.rfind("I ", 0) == 0) inv = l.substr(2);
    else if (l.rfind("M ", 0) == 0) memcap = true;
    else if (l.rfind("L ", 0) == 0) loadcpu = atof(l.c_str() + 2);
    else if (l.rfind("S ", 0) == 0) o.detail += l.substr(2) + " ";
    else if (l.rfind("E ", 0) == 0) o.exc = l.substr(2);
    // first stack frame located in the library sources = the crash site
    if (o.site.empty() && l.find(" #") != std::string::npos && l.find("/repo/") != std::string::npos &&
        l.find(" in VectorT<") == std::string::npos && l.find(" in VectorNumT<") == std::string::npos)
    {
      size_t a = l.find(" in ");
      if (a != std::string::npos)
      {
        std::string f = l.substr(a + 4);
        size_t sp = f.rfind(" /repo/");
        if (sp != std::string::npos) f = f.substr(0, sp);
        size_t par = f.find('(');
        if (par != std::string::npos) f = f.substr(0, par);
        // drop return type / template arguments / qualifiers: keep the last word before '(' with its class
        std::string g; int depth = 0;
        for (char c : f) { if (c == '<') depth++; else if (c == '>') { if (depth > 0) depth--; } else if (depth == 0) g += c; }
        while (!g.empty() && g.back() == ' ') g.pop_back();
        size_t ws = g.rfind(' '); if (ws != std::string::npos) g = g.substr(ws + 1);
        o.site = g;
      }
    }
    size_t p = l.find("ERROR: AddressSanitizer: ");
    if (p != std::string::npos && asan.empty())
    {
      asan = l.substr(p + 25);
      size_t q = asan.find_first_of(" :");
      if (q != std::string::npos) asan = asan.substr(0, q);
    }
    if (l.find("AddressSanitizer failed to allocate") != std::string::npos && asan.empty()) asan = "out-of-memory";
  }
  bool xcpu = r.kind == ChildResult::SIGNALED && (r.code == SIGXCPU || r.code == SIGKILL);
  bool memory = memcap || (r.kind == ChildResult::EXITED && (r.code == 93 || r.code == 96)) || asan == "out-of-memory" || asan == "allocation-size-too-big" || asan == "requested" || asan == "calloc-overflow";
  o.loadcpu = loadcpu;
  o.memory = memory;
  bool limit = r.kind == ChildResult::TIMEOUT || xcpu;          // stopped by the CPU limit (or the last-resort wall clock)
  double rc = loadcpu >= 0. ? loadcpu : cpu;                     // CPU charged to the loader: up to the end of the load when it returned
  // 1. memory exhaustion is a definite, size-driven event
  if (memory) { o.signature = "resource-exhaustion"; return o; }
  // 2. stopped by the limit
  if (limit)
  {
    if (asan.empty() && o.result == "ok-object" && inv.empty() && loadcpu >= 0. && loadcpu <= CPU_FLAG)
    {
      // the loader returned within the CPU budget; the budget was exhausted by the harness inspecting a large (valid) object
      o.detail = "large-object-inspection-cut ";
      return o;
    }
    o.signature = "resource-exhaustion";
    return o;
  }
  // 3. the child ended by itself with a definite failure: that is the outcome, however long it took
  if (!asan.empty()) { o.signature = "asan-" + asan; return o; }
  if (r.kind == ChildResult::SIGNALED) { o.signature = r.describe().substr(7); return o; }   // SIGSEGV, SIGABRT, SIGFPE
  if (r.kind == ChildResult::EXITED && r.code == 95) { o.signature = "uncaught-exception"; return o; }
  if (r.kind == ChildResult::EXITED && r.code != 0) { o.signature = "exit-" + std::to_string(r.code); return o; }
  if (!inv.empty()) { o.signature = "invalid-object-" + inv; return o; }
  if (o.result.empty()) { o.signature = "no-result"; return o; }
  // 4. normal end: allowed unless the loader itself needed too much CPU
  if (rc > CPU_FLAG) { o.signature = "resource-exhaustion"; return o; }
  if (o.result == "ok-object" && !done) { o.signature = "incomplete-" + o.stage; return o; }
  return o;
}

// Coarse outcome class used in the finding key. It must not depend on where the crash happened, on whether ASan or the kernel
// noticed it first, on the heap layout, or on which limit (CPU / memory) fired first.
static std::string outcome_class(const std::string& sig)
{
  if (sig.empty()) return "";   // allowed outcome
  if (sig == "resource-exhaustion" || sig == "uncaught-exception" || sig == "exit-96") return "exception-or-exhaustion";
  if (sig == "SIGFPE" || sig == "asan-FPE") return "arithmetic-signal";
  if (sig.rfind("asan-", 0) == 0 || sig.rfind("SIG", 0) == 0) return "memory-error";
  if (sig.rfind("invalid-object-", 0) == 0) return "invalid-object:" + sig.substr(15);
  if (sig.find_first_not_of("0123456789") == std::string::npos) return "memory-error";   // other signal number
  return "abnormal-exit";   // no-result, incomplete-<stage>, exit-N
}
static double children_cpu()
{
  struct rusage ru; getrusage(RUSAGE_CHILDREN, &ru);
  return ru.ru_utime.tv_sec + ru.ru_utime.tv_usec * 1e-6 + ru.ru_stime.tv_sec + ru.ru_stime.tv_usec * 1e-6;
}

static void child_signal(int sig)
{
  signal(sig, SIG_DFL);
  g_cap_active = 0;
  const char* m = sig == SIGSEGV ? "\nX SIGSEGV\n" : sig == SIGFPE ? "\nX SIGFPE\n" : sig == SIGBUS ? "\nX SIGBUS\n" : "\nX SIGABRT\n";
  ssize_t w = write(2, m, strlen(m)); (void)w;
  print_stack();
  raise(sig);
}
template<class F> static Outcome run_one(F body)
{
  double c0 = children_cpu();
  ChildResult r = run_child([&](int wfd) {
    dup2(wfd, 2);               // ASan reports go to the pipe
    // alternate stack so that a stack overflow can still be reported
    static char altstack[1 << 16];
    stack_t ss; ss.ss_sp = altstack; ss.ss_size = sizeof altstack; ss.ss_flags = 0; sigaltstack(&ss, nullptr);
    struct sigaction sa; memset(&sa, 0, sizeof sa); sa.sa_handler = child_signal; sa.sa_flags = SA_ONSTACK | SA_NODEFER;
    sigaction(SIGSEGV, &sa, nullptr); sigaction(SIGFPE, &sa, nullptr); sigaction(SIGBUS, &sa, nullptr);
    // CPU limit (not wall clock: the verdict must not depend on the load of the machine)
    struct rlimit cpu; cpu.rlim_cur = 3; cpu.rlim_max = 4; setrlimit(RLIMIT_CPU, &cpu);
    g_cap_fd = wfd; g_cap_active = 1;
    int rc = 0;
    try { rc = body(wfd); }
    catch (const std::bad_alloc&) { g_cap_active = 0; return 96; }
    catch (const std::exception& e) { g_cap_active = 0; say(wfd, std::string("\nE ") + e.what()); return 95; }
    catch (...) { g_cap_active = 0; say(wfd, "\nE non-standard exception"); return 95; }
    g_cap_active = 0;
    return rc; }, 150., CHILD_RLIMIT_MB);
  return judge(r, children_cpu() - c0);
}

// enumerate all faults of one text through one loader
static std::string g_tl = "q";   // tier letter of the current run (see case_tier)
static std::string show_content(const std::string& c, bool binary)
{
  if (!binary) return c.size() > 700 ? c.substr(0, 700) + "..." : c;
  std::string o = std::to_string(c.size()) + " bytes:";
  char b[8];
  for (size_t i = 0; i < c.size() && i < 96; i++) { snprintf(b, 8, " %02x", (unsigned char)c[i]); o += b; }
  if (c.size() > 96) o += " ...";
  return o;
}
// run the valid content (baseline) and then the nmut faults produced by make(i, Mut&) through one loader
static void fault_run(Ctx& C, const std::string& cls, const std::string& textId, const std::string& valid, size_t nmut,
                      const std::function<bool(size_t, Mut&)>& make, const std::function<int(const std::string&, int)>& loader,
                      size_t& counter, bool binary)
{
  // baseline: the valid content itself
  {
    size_t myid = counter++;
    bool mine = C.only_case.empty() ? (int)(myid % (size_t)C.nshards) == C.shard : C.only_case == std::to_string(myid);
    Outcome o = run_one([&](int wfd) { return loader(valid, wfd); });   // every shard needs the verdict
    if (!o.signature.empty())
    {
      // the loader already fails on the VALID file: its faults cannot be attributed, one finding for the class
      if (mine) { C.eval(); C.outcome("valid-file-" + outcome_class(o.signature)); C.violation(cls + ":valid-file:" + outcome_class(o.signature), "loading the unmodified valid file " + textId + " ends with " + o.signature + " (stage " + o.stage + (o.site.empty() ? "" : ", in " + o.site) + ")", g_tl + std::to_string(myid)); }
      counter += nmut;
      return;
    }
    if (mine) { C.eval(); C.outcome("valid-file-" + o.result + " [" + textId + "]"); }
  }
  C.ps().space += nmut + 1;
  for (size_t i = 0; i < nmut; i++)
  {
    size_t myid = counter++;
    if (C.only_case.empty()) { if ((int)(myid % (size_t)C.nshards) != C.shard) continue; if ((i & 15) == 0 && C.expired()) return; }
    else if (C.only_case != std::to_string(myid)) continue;
    Mut m;
    if (!make(i, m)) { C.skip(); continue; }
    C.cur_case = g_tl + std::to_string(myid);
    nf_verbose() = m.kind == "token-long";      // long words: loaders run verbose (the library default), the error messages echo the word
    Outcome o = run_one([&](int wfd) { return loader(m.content, wfd); });
    nf_verbose() = false;
    // A 10 kB column/variable name makes std::regex (name matching inside the library) overflow the stack when the object is
    // displayed or saved; an object built through the API with such a name does exactly the same, so this says nothing about
    // the loader: excluded and counted.
    if ((m.kind == "token-longtoken" || m.kind == "token-long") && m.fk.rfind("name-token", 0) == 0 && o.result == "ok-object" && o.stage != "load" && outcome_class(o.signature) == "memory-error")
    { C.skip(); C.outcome("excluded: std::regex stack overflow on a 10 kB name (stage " + o.stage + ")"); continue; }
    C.eval();
    // timing sensitivity: a case is charged for CPU above 2 s (hard limit 3 s). Cases that END ON THEIR OWN between 0.5 s and 3 s
    // could change verdict on a slower / faster machine: they are counted and noted so that the menus can be kept away from them.
    {
      // CPU charged to the loader: up to the end of the load when it returned, else everything
      double rc = o.loadcpu >= 0. ? o.loadcpu : o.cpu;
      const char* band = rc < 0.1 ? "<0.1s" : rc < 0.25 ? "0.1-0.25s" : rc < CPU_FLAG ? "0.25-1s" : "above-1s";
      C.outcome(std::string("cpu-band ") + band);
      // the verdict could flip on a machine of different speed only if (a) an ALLOWED outcome needed 0.5-2 s, or (b) the case is
      // charged for CPU alone (no memory limit, no exception) although it ended on its own (2-3 s)
      // (c) a definite failure of another class that needed more than 1 s in total would turn into "killed at 3 s" on a 3x slower machine
      bool sensitive = (o.signature.empty() && rc >= CPU_FLAG / 4.) || (o.signature == "resource-exhaustion" && !o.memory && !o.killed) ||
                       (!o.signature.empty() && o.signature != "resource-exhaustion" && o.cpu >= 1.0);
      if (sensitive)
      { C.outcome("cpu-band TIMING-SENSITIVE (allowed outcome above 0.25 s / charged for CPU alone but ended on its own / other failure after more than 1 s)"); C.note("timing-sensitive case " + cls + " " + g_tl + std::to_string(myid) + ": " + m.desc + " loader-cpu=" + fmt(rc)); }
    }
    if (C.verbose) fprintf(stderr, "---- child output ----\n%s\n----------------------\n", o.raw.c_str());
    if (o.signature.empty())
    {
      C.outcome(m.kind + " -> " + o.result);
      if (o.result == "ok-object") C.outcome("ok-object " + o.detail);
    }
    else
    {
      C.outcome(m.kind + " -> VIOLATION " + outcome_class(o.signature));
      // finding key = <class/format>:<kind of fault applied>:<coarse outcome class>; the crash site, the ASan summary, the signal
      // and the limit that fired are in the text only (they depend on heap layout, timing and symbolizer availability)
      std::string key = cls + ":" + m.fk + ":" + outcome_class(o.signature);
      if (!o.exc.empty()) o.stage += ", exception: " + o.exc;
      C.violation(key, cls + " loader: " + m.desc + " of valid file " + textId + " -> " + o.signature + " (stage " + o.stage + (o.site.empty() ? "" : ", in " + o.site) + "). Faulty content: " + show_content(m.content, binary), g_tl + std::to_string(myid));
    }
    // non trivial: the fault reached the reader proper (not stopped at the tag line) — distinct faulty contents
    if (m.title != "class_tag") C.nontrivial(Hash().s(cls).s(m.content).h);
    if (myid % 4001 == 17) C.sample("{\"id\":" + std::to_string(myid) + ",\"class\":" + jstr(cls) + ",\"fault\":" + jstr(m.desc) + ",\"outcome\":" + jstr(o.signature.empty() ? o.result : o.signature) + "}");
  }
}
static void fault_text(Ctx& C, const std::string& cls, const std::string& textId, const std::string& text, bool hasTag,
                       const std::function<int(const std::string&, int)>& loader, size_t& counter, bool garbage = true, bool longtok = true)
{
  Parsed P = parse_text(text, hasTag);
  Plan plan(P, C.thorough(), garbage, longtok);
  fault_run(C, cls, textId, text, plan.size(), [&](size_t i, Mut& m) { return plan.make(i, m); }, loader, counter, false);
}

// ---------------------------------------------------------------------------------------------
// Binary files: every byte prefix; every header FIELD (little-endian integer of 2 or 4 bytes at a known offset) x
// {0, 1, 255, 256, 257, 65535, 0x7fffffff, 0xffffffff (-1), field+1, field-1}; every header byte replaced by 0x00 and 0xff.
struct BinField { size_t off; int size; std::string name; };
struct BinPlan
{
  std::string data;
  std::vector<BinField> fields;
  size_t headerLen;
  static const std::vector<long long>& menu() { static const std::vector<long long> v = {0, 1, 255, 256, 257, 65535, 0x7fffffffLL, 0xffffffffLL, -1, 1000001, 1000002}; return v; }   // the last two stand for field+1 / field-1
  size_t nPrefix() const { return data.size(); }
  size_t nField() const { return fields.size() * menu().size(); }
  size_t nByte() const { return headerLen * 2; }
  size_t size() const { return nPrefix() + nField() + nByte(); }
  unsigned long long get(const BinField& f) const { unsigned long long v = 0; for (int k = f.size - 1; k >= 0; k--) v = (v << 8) | (unsigned char)data[f.off + k]; return v; }
  std::string fieldAt(size_t pos) const { for (auto& f : fields) if (pos >= f.off && pos < f.off + (size_t)f.size) return f.name; return pos < headerLen ? "header" : "payload"; }
  bool make(size_t i, Mut& m) const
  {
    if (i < nPrefix()) { m = {"truncate", fieldAt(i), data.substr(0, i), "prefix of " + std::to_string(i) + " bytes (cut in " + fieldAt(i) + ")", i < headerLen ? "truncated-header" : "truncated-payload"}; return true; }
    i -= nPrefix();
    if (i < nField())
    {
      const BinField& f = fields[i / menu().size()];
      long long r = menu()[i % menu().size()];
      unsigned long long cur = get(f), mask = f.size == 2 ? 0xffffULL : 0xffffffffULL, v;
      if (r == 1000001) v = (cur + 1) & mask; else if (r == 1000002) v = (cur - 1) & mask; else v = (unsigned long long)r & mask;
      if (v == cur) return false;
      if (r == -1) return false;                                       // -1 is the signed reading of 0xffff / 0xffffffff, already in the menu
      if (f.size == 2 && r > 0xffff && r < 1000001) return false;      // value does not fit a 2-byte field (its truncation is already in the menu)
      std::string c = data;
      for (int k = 0; k < f.size; k++) c[f.off + k] = (char)((v >> (8 * k)) & 0xff);
      char b[64]; snprintf(b, 64, "%llu -> %llu (0x%llx)", cur, v, v);
      std::string vc = v == 0 ? "zero" : (v & (f.size == 2 ? 0x8000ULL : 0x80000000ULL)) ? "signbit" : v == 0x7fffffffULL ? "intmax" : v >= 65535 ? "65535" : "small";
      m = {"field", f.name, c, "header field " + f.name + " (offset " + std::to_string(f.off) + ", " + std::to_string(f.size) + " bytes) " + b, "header-field:" + f.name + "=" + vc};
      return true;
    }
    i -= nField();
    size_t pos = i / 2; unsigned char nv = (i % 2) ? 0xff : 0x00;
    if ((unsigned char)data[pos] == nv) return false;
    std::string c = data; c[pos] = (char)nv;
    char b[32]; snprintf(b, 32, "0x%02x -> 0x%02x", (unsigned char)data[pos], nv);
    // replacing the top byte of a field by 0xff sets its sign bit; other byte faults give a positive value
    bool top = false; for (auto& f : fields) if (pos == f.off + (size_t)f.size - 1) top = true;
    m = {"byte", fieldAt(pos), c, "header byte " + std::to_string(pos) + " (" + fieldAt(pos) + ") " + b, "header-byte:" + fieldAt(pos) + "=" + (nv == 0xff && top ? "signbit" : "byte")};
    return true;
  }
};
static void fault_binary(Ctx& C, const std::string& cls, const std::string& textId, const BinPlan& plan,
                         const std::function<int(const std::string&, int)>& loader, size_t& counter)
{
  fault_run(C, cls, textId, plan.data, plan.size(), [&](size_t i, Mut& m) { return plan.make(i, m); }, loader, counter, true);
}

static void fault_class(Ctx& C, const std::string& cname)
{
  const ClassDef* def = find_class(cname);
  if (!def) { C.note("class not registered: " + cname); return; }
  g_tl = case_tier(C);
  size_t counter = 0;
  size_t ntext = C.thorough() ? def->corpus.size() : std::min<size_t>(def->corpus.size(), 1);
  for (size_t it = 0; it < ntext; it++)
  {
    // the corpus text is produced in a child as well (some builders/writers may crash)
    std::string text;
    ChildResult r = run_child([&](int wfd) {
      std::unique_ptr<ASerializable> a(def->build(def->corpus[it]));
      std::string t;
      if (a && to_text(a.get(), t)) child_write(wfd, nf_tag(a.get()) + "\n" + t);
      return 0; }, 20., 0);
    text = r.data;
    if (text.empty()) { C.note(cname + ": corpus text " + std::to_string(it) + " could not be produced"); continue; }
    std::string tid = cname + "#" + std::to_string(it);
    // stream mode (bulk) for every class; file mode through createFromNF when the class has one
    fault_text(C, cname, tid + "(stream)", text, true, [&](const std::string& c, int wfd) { return run_nf(*def, false, c, wfd); }, counter, true, !(def->fromNF && (C.thorough() || it == 0)));
    if (def->fromNF && (C.thorough() || it == 0))
      fault_text(C, cname, tid + "(file)", text, true, [&](const std::string& c, int wfd) { return run_nf(*def, true, c, wfd); }, counter, false);   // garbage-completed prefixes: stream driver only
  }
}

#define FC(cls) VF_PART(nf_##cls) { fault_class(C, #cls); }
FC(Db)
FC(DbGrid)
FC(Model)
FC(Vario)
FC(NeighMoving)
FC(NeighUnique)
FC(Table)
FC(Polygons)
FC(AnamHermite)
FC(MeshETurbo)
FC(Rule)
FC(DbLine)
FC(DbGraphO)
FC(DbMeshTurbo)
FC(DbMeshStandard)
FC(AnamEmpirical)
FC(AnamDiscreteDD)
FC(AnamDiscreteIR)
FC(MeshEStandard)
FC(RuleShift)
FC(RuleShadow)
FC(NeighBench)
FC(NeighCell)
FC(NeighImage)
FC(PolyLine2D)
FC(PolyElem)
FC(Faults)
FC(FracEnviron)

// ---------------------------------------------------------------------------------------------
// CSV files through Db::createFromCSV
static int run_csv(const std::string& content, int wfd, bool header, char sep, const std::string& na)
{
  say(wfd, "T load");
  std::string path = scratch_path("c09.csv");
  write_file(path, content);
  CSVformat fmt(header, 0, sep, '.', na);
  std::unique_ptr<Db> db(Db::createFromCSV(path, fmt, nf_verbose()));
  unlink(path.c_str());
  if (!db) { say(wfd, "R fail-clean"); return 0; }
  db_use(db.get(), wfd);
  return 0;
}
VF_PART(csv)
{
  struct V { std::string id, text; bool header; char sep; std::string na; };
  std::vector<V> vs = {
    {"csv#header-comma", "x1,x2,z1\n0,1,2.5\n1,0,NA\n2.5,-1e3,7\n", true, ',', "NA"},
    {"csv#noheader-semicolon", "0;1;2.5\n1;0;MISS\n2.5;-1e3;7\n", false, ';', "MISS"},
    {"csv#quoted", "\"a b\",\"c,d\",z\n1,2,3\n4,5,6\n", true, ',', "NA"}};
  g_tl = case_tier(C);
  size_t counter = 0;
  size_t n = C.thorough() ? vs.size() : 2;
  for (size_t i = 0; i < n; i++)
  {
    const V& v = vs[i];
    fault_text(C, "CSV", v.id, v.text, false, [&](const std::string& c, int wfd) { return run_csv(c, wfd, v.header, v.sep, v.na); }, counter);
  }
}

// grid exchange formats: the valid file is written by the library itself, then read back with faults
template<class G> static int run_grid(const std::string& content, int wfd, const char* ext)
{
  say(wfd, "T load");
  std::string path = scratch_path(std::string("c09grid.") + ext);
  write_file(path, content);
  G g(path.c_str());
  std::unique_ptr<DbGrid> db(g.readGridFromFile());
  unlink(path.c_str());
  if (!db) { say(wfd, "R fail-clean"); return 0; }
  db_use(db.get(), wfd);
  return 0;
}
template<class G> static std::string write_grid(int ndim, const char* ext)
{
  std::string out;
  ChildResult r = run_child([&](int wfd) {
    VectorInt nx(ndim, 2); nx[0] = 3; VectorDouble dx(ndim, 0.5), x0(ndim, 1.);
    int n = 1; for (int d = 0; d < ndim; d++) n *= nx[d];
    VectorDouble tab; for (int i = 0; i < n; i++) tab.push_back(i == 1 ? TEST : 0.5 * i);
    std::unique_ptr<DbGrid> g(DbGrid::create(nx, dx, x0, VectorDouble(), ELoadBy::SAMPLE, tab, {"z1"}, {"z1"}, false, false));
    std::string path = scratch_path(std::string("c09w.") + ext);
    G w(path.c_str(), g.get());
    w.setCol(0);
    if (w.writeInFile() == 0) { std::string c; if (read_file(path, c)) child_write(wfd, c); }
    unlink(path.c_str());
    return 0; }, 20., 0);
  return r.data;
}
VF_PART(grid_formats)
{
  g_tl = case_tier(C);
  size_t counter = 0;
  std::string z = write_grid<GridZycor>(2, "zyc");
  if (z.empty()) C.note("Zycor writer produced nothing"); else fault_text(C, "GridZycor", "zycor#2D", z, false, [&](const std::string& c, int wfd) { return run_grid<GridZycor>(c, wfd, "zyc"); }, counter);
  std::string f = write_grid<GridIfpEn>(2, "ifp");
  if (f.empty()) C.note("IfpEn writer produced nothing"); else fault_text(C, "GridIfpEn", "ifpen#2D", f, false, [&](const std::string& c, int wfd) { return run_grid<GridIfpEn>(c, wfd, "ifp"); }, counter);
}

// ---------------------------------------------------------------------------------------------
// BMP reader (binary). 24-bit file = what GridBmp::writeInFile produces; 8-bit (4-colour palette) and 32-bit files are hand built
// (the writer cannot produce them) following the same header layout.
static void put_le(std::string& s, unsigned long long v, int n) { for (int k = 0; k < n; k++) s += (char)((v >> (8 * k)) & 0xff); }
static std::string bmp_handmade(int nbits)
{
  int w = 3, h = 2, ncol = nbits == 8 ? 4 : 0;
  int rowbytes = w * nbits / 8, pad = (4 - rowbytes % 4) % 4;
  std::string s;
  s += "BM"; put_le(s, 54 + 4 * ncol + (rowbytes + pad) * h, 4); put_le(s, 0, 2); put_le(s, 0, 2); put_le(s, 54 + 4 * ncol, 4);
  put_le(s, 40, 4); put_le(s, w, 4); put_le(s, h, 4); put_le(s, 1, 2); put_le(s, nbits, 2); put_le(s, 0, 4);
  put_le(s, (rowbytes + pad) * h, 4); put_le(s, 100, 4); put_le(s, 50, 4); put_le(s, ncol, 4); put_le(s, 0, 4);
  for (int c = 0; c < ncol; c++) { s += (char)(60 * c); s += (char)(60 * c); s += (char)(60 * c); s += (char)0; }
  for (int y = 0; y < h; y++)
  {
    for (int x = 0; x < w; x++)
    {
      if (nbits == 8) s += (char)((x + y) % 4);
      else for (int k = 0; k < nbits / 8; k++) s += (char)(40 * (x + 2 * y) + k);
    }
    for (int k = 0; k < pad; k++) s += (char)0;
  }
  return s;
}
static BinPlan bmp_plan(const std::string& data)
{
  BinPlan P; P.data = data;
  P.fields = {{0, 2, "bfType"}, {2, 4, "bfSize"}, {6, 2, "bfReserved1"}, {8, 2, "bfReserved2"}, {10, 4, "bfOffBits"}, {14, 4, "biSize"},
              {18, 4, "biWidth"}, {22, 4, "biHeight"}, {26, 2, "biPlanes"}, {28, 2, "biBitCount"}, {30, 4, "biCompression"}, {34, 4, "biSizeImage"},
              {38, 4, "biXPelsPerMeter"}, {42, 4, "biYPelsPerMeter"}, {46, 4, "biClrUsed"}, {50, 4, "biClrImportant"}};
  unsigned long long ncol = data.size() >= 50 ? P.get(P.fields[14]) : 0;
  P.headerLen = std::min<size_t>(data.size(), 54 + 4 * (size_t)std::min<unsigned long long>(ncol, 256));   // header + palette
  return P;
}
VF_PART(grid_bmp)
{
  g_tl = case_tier(C);
  size_t counter = 0;
  auto loader = [&](const std::string& c, int wfd) { return run_grid<GridBmp>(c, wfd, "bmp"); };
  std::string w24 = write_grid<GridBmp>(2, "bmp");
  if (w24.size() < 54) C.note("BMP writer produced nothing");
  else { BinPlan P = bmp_plan(w24); fault_binary(C, "GridBmp", "bmp#24bit-written-by-GridBmp", P, loader, counter); }
  { BinPlan P = bmp_plan(bmp_handmade(8)); fault_binary(C, "GridBmp", "bmp#8bit-palette-handmade", P, loader, counter); }
  { BinPlan P = bmp_plan(bmp_handmade(32)); fault_binary(C, "GridBmp", "bmp#32bit-handmade", P, loader, counter); }
}

// F2G reader (text, reader only): hand-built minimal valid file
VF_PART(grid_f2g)
{
  g_tl = case_tier(C);
  size_t counter = 0;
  std::string t = "F2G_DIM 2\nF2G_VERSION 1\nF2G_LOCATION 0 0 0\nF2G_ROTATION 0\nF2G_ORIGIN 0 0\nF2G_NB_NODES 2 3\nF2G_LAGS 1 0.5\n"
                  "F2G_ORDER +Y +X +Z\nF2G_NB_VARIABLES 1\nF2G_VARIABLE_1 z\nF2G_UNDEFINED_1 -999\nF2G_VALUES\n1 2 3 -999 5 6\n";
  fault_text(C, "GridF2G", "f2g#2D", t, false, [&](const std::string& c, int wfd) { return run_grid<GridF2G>(c, wfd, "f2g"); }, counter);
  if (C.thorough())
  {
    std::string t3 = "F2G_DIM 3\nF2G_VERSION 1\nF2G_LOCATION 1 2 3\nF2G_ROTATION 0\nF2G_ORIGIN 0 0 0\nF2G_NB_NODES 2 1 2\nF2G_LAGS 1 1 2\n"
                     "F2G_ORDER +Y +X +Z\nF2G_NB_VARIABLES 2\nF2G_VARIABLE_1 a\nF2G_UNDEFINED_1 NA\nF2G_VARIABLE_2 b\nF2G_UNDEFINED_2 NA\nF2G_VALUES\n1 2 3 4 5 6 7 8\n";
    fault_text(C, "GridF2G", "f2g#3D", t3, false, [&](const std::string& c, int wfd) { return run_grid<GridF2G>(c, wfd, "f2g"); }, counter);
  }
}

// LAS well file reader
static int run_las(const std::string& content, int wfd)
{
  say(wfd, "T load");
  std::string path = scratch_path("c09.las");
  write_file(path, content);
  FileLAS f(path.c_str());
  std::unique_ptr<Db> db(f.readFromFile());
  unlink(path.c_str());
  if (!db) { say(wfd, "R fail-clean"); return 0; }
  db_use(db.get(), wfd);
  return 0;
}
VF_PART(las)
{
  g_tl = case_tier(C);
  size_t counter = 0;
  std::string t = "~Version Information\n VERS. 2.0 : CWLS\n~Well Information\n STRT.M 1.0 : start\n NULL. -999.25 : null value\n~Curve Information\n"
                  " DEPT.M : depth\n GR.API : gamma\n~A DEPT GR\n 1.0 10.5\n 2.0 -999.25\n 3.0 7\n";
  fault_text(C, "FileLAS", "las#2curves", t, false, run_las, counter);
}

// Polygons from CSV (csv_table_read, second CSV driver) and from a QGIS WKT export
static int run_polycsv(const std::string& content, int wfd, bool wkt)
{
  say(wfd, "T load");
  std::string path = scratch_path("c09poly.csv");
  write_file(path, content);
  CSVformat fmt(true, 0, ',', '.', "NA");
  std::unique_ptr<Polygons> p(wkt ? Polygons::createFromWKT(path, fmt, nf_verbose()) : Polygons::createFromCSV(path, fmt, nf_verbose()));
  unlink(path.c_str());
  if (!p) { say(wfd, "R fail-clean"); return 0; }
  say(wfd, "R ok-object");
  say(wfd, "T invariants");
  for (int k = 0; k < p->getPolyElemNumber(); k++) if (p->getPolyElem(k).getX().size() != p->getPolyElem(k).getY().size()) { say(wfd, "I x-y-size"); return 0; }
  say(wfd, "T getters");
  const ClassDef* def = find_class("Polygons");
  Fp fp; def->getters(p.get(), fp);
  say(wfd, "T display");
  std::string d = p->toString(); (void)d;
  say(wfd, "T resave");
  std::string t2; say(wfd, to_text(p.get(), t2) ? "S resave-ok" : "S resave-refused");
  say(wfd, "T done");
  return 0;
}
VF_PART(poly_csv)
{
  g_tl = case_tier(C);
  size_t counter = 0;
  std::string csv = "x,y\n0,0\n1,0\n0,1\nNA,NA\n2,2\n3,2\n3,3\n2,3\n";
  fault_text(C, "PolygonsCSV", "polycsv#2rings", csv, false, [&](const std::string& c, int wfd) { return run_polycsv(c, wfd, false); }, counter);
  std::string wkt = "WKT,id\n\"MULTIPOLYGON (((0 0, 1 0, 0 1, 0 0)),((2 2, 3 2, 3 3, 2 3)))\",1\n\"MULTIPOLYGON (((5 5, 6 5, 5 6)))\",2\n";
  fault_text(C, "PolygonsWKT", "polywkt#2lines", wkt, false, [&](const std::string& c, int wfd) { return run_polycsv(c, wfd, true); }, counter);
}

// Legacy keyword files (Core/ascii.cpp): environment, simulation and option files. They return scalars, not objects:
// the only allowed outcome is a normal return.
static int run_legacy(const std::string& content, int wfd, int which)
{
  say(wfd, "T load");
  std::string path = scratch_path("c09legacy.txt");
  write_file(path, content);
  std::vector<char> fn(path.begin(), path.end()); fn.push_back('\0');
  if (which == 0) ascii_environ_read(fn.data(), 0);
  if (which == 1) { int a = 0, b = 0, c = 0; ascii_simu_read(fn.data(), 0, &a, &b, &c); }
  if (which == 2) { int ans = 0; (void)ascii_option_defined(fn.data(), 0, "NBSIMU", 1, &ans); double r = 0; (void)ascii_option_defined(fn.data(), 0, "RANGE", 2, &r); }
  unlink(path.c_str());
  say(wfd, "R fail-clean");   // nothing is returned
  return 0;
}
VF_PART(legacy_ascii)
{
  g_tl = case_tier(C);
  size_t counter = 0;
  fault_text(C, "AsciiEnviron", "environ#2keys", "Environ\nDB 1\nMODEL 0\n", false, [&](const std::string& c, int wfd) { return run_legacy(c, wfd, 0); }, counter);
  fault_text(C, "AsciiSimu", "simu#3values", "Simu\n10 # Number of simulations\n100 # Number of Turning Bands\n4321 # Random Seed\n", false, [&](const std::string& c, int wfd) { return run_legacy(c, wfd, 1); }, counter);
  fault_text(C, "AsciiOption", "option#3keys", "Option\nVERBOSE Y\nNBSIMU 12\nRANGE 2.5\n", false, [&](const std::string& c, int wfd) { return run_legacy(c, wfd, 2); }, counter);
}

int main(int argc, char** argv)
{
  return run_main(argc, argv, [](Ctx&) { silence(); install_cap(); register_batch1(); register_batch2(); });
}
