// C15 — SPDE operators, projections and solvers are mutually consistent.
// Engine E1 (product of finite menus) + linearity argument.
//
//  part op_vs_matrix : every (mesh, Matern/Markov model) of the menus: PrecisionOp::evalDirect(e_i) == column i of
//                      PrecisionOpCs::getQ() for EVERY basis vector (=> every vector, the operator being linear; linearity itself
//                      is checked on all pairs e_i + 2 e_j for n <= 12 and on dense vectors otherwise); both equal the dense
//                      reference Lambda P(S) Lambda rebuilt in the harness (Eigen) from getS(), getLambdas(), getMarkovCoeffs();
//                      Q symmetric and positive definite (Eigen LLT + smallest eigenvalue); S symmetric, Lambda > 0.
//  part projection   : ProjMatrix rows for query points generated from exact barycentric menus inside every mesh cell, on
//                      apices, and outside the mesh: weights >= 0, sum 1, reproduce {1,x,y,z}; empty row outside; rows stay
//                      aligned with the samples whatever the order of inside/outside points.
//  part solvers      : SPDE kriging with useCholesky=1 vs 0 on the same mesh/data; residual of both solves against the system
//                      (Q + A' D^-1 A) x = A' D^-1 z assembled densely in the harness; PrecisionOpCs::evalInverse,
//                      PrecisionOpMultiConditional(Cs)::evalInverse; quadratic term and log-determinant pieces of the
//                      log-likelihood in both modes against dense references.
#include "vf/gst.hpp"

#include "API/SPDE.hpp"
#include "API/SPDEParam.hpp"
#include "Covariances/CovAniso.hpp"
#include "Enum/ECov.hpp"
#include "Enum/ESpaceType.hpp"
#include "LinearOp/PrecisionOp.hpp"
#include "LinearOp/PrecisionOpCs.hpp"
#include "LinearOp/PrecisionOpMultiConditional.hpp"
#include "LinearOp/PrecisionOpMultiConditionalCs.hpp"
#include "LinearOp/ProjMatrix.hpp"
#include "LinearOp/ShiftOpCs.hpp"
#include "Matrix/MatrixInt.hpp"
#include "Matrix/MatrixRectangular.hpp"
#include "Matrix/MatrixSparse.hpp"
#include "Mesh/MeshEStandard.hpp"
#include "Mesh/MeshETurbo.hpp"
#include "Model/Model.hpp"
#include "Space/ASpaceObject.hpp"

#include <Eigen/Dense>
#include <memory>

using namespace vf;
typedef Eigen::MatrixXd EM;
typedef Eigen::VectorXd EV;

// ------------------------------------------------------------------------------------------------
// mesh menu
struct MeshSpec
{
  int kind = 0;  // 0 turbo, 1 standard
  int ndim = 2;
  std::vector<int> nx;
  std::vector<double> dx, x0, angles;
  bool polarized = false;
  std::vector<std::vector<double>> apices;  // standard: napices x ndim
  std::vector<std::vector<int>> cells;      // standard: ncells x (ndim+1)
  std::string desc;
};

static std::string vs(const std::vector<double>& v) { return vstr(v); }
static std::string vsi(const std::vector<int>& v) { return vstr(v); }

static void add_turbo(std::vector<MeshSpec>& out, int ndim, std::vector<int> nx, std::vector<double> dx, std::vector<double> x0,
                      std::vector<double> ang, bool pol)
{
  MeshSpec m;
  m.kind = 0; m.ndim = ndim; m.nx = nx; m.dx = dx; m.x0 = x0; m.angles = ang; m.polarized = pol;
  m.desc = "turbo nx=" + vsi(nx) + " dx=" + vs(dx) + " x0=" + vs(x0) + " ang=" + vs(ang) + (pol ? " polarized" : "");
  out.push_back(m);
}

// standard 2-D meshes: lattice of (px x py) points, per cell one of the two diagonals, jitter pattern, orientation flip
static void add_std2d(std::vector<MeshSpec>& out, int px, int py, int diagmask, int jitter, bool flip)
{
  MeshSpec m;
  m.kind = 1; m.ndim = 2;
  for (int j = 0; j < py; j++)
    for (int i = 0; i < px; i++)
    {
      int k = j * px + i;
      double ox = 0, oy = 0;
      if (jitter > 0) { ox = 0.125 * (((k * (jitter + 1)) % 3) - 1); oy = 0.125 * (((k * (jitter + 2) + 1) % 3) - 1); }
      m.apices.push_back({(double)i + ox, (double)j + oy});
    }
  int c = 0;
  for (int j = 0; j + 1 < py; j++)
    for (int i = 0; i + 1 < px; i++, c++)
    {
      int a = j * px + i, b = a + 1, d = a + px, e = d + 1;  // a b / d e
      std::vector<std::vector<int>> t;
      if ((diagmask >> c) & 1) t = {{a, b, e}, {a, e, d}};
      else t = {{a, b, d}, {b, e, d}};
      for (auto& tr : t) { if (flip) std::swap(tr[1], tr[2]); m.cells.push_back(tr); }
    }
  m.desc = "std2d " + std::to_string(px) + "x" + std::to_string(py) + " diag=" + std::to_string(diagmask) + " jit=" + std::to_string(jitter) + (flip ? " cw" : " ccw");
  out.push_back(m);
}
// standard 3-D: unit cube (optionally 2 stacked cubes) split into 6 Kuhn tetrahedra, or 5 tetrahedra; jitter
static void add_std3d(std::vector<MeshSpec>& out, int variant, int jitter)
{
  MeshSpec m;
  m.kind = 1; m.ndim = 3;
  int nz = (variant == 2) ? 3 : 2;
  for (int k = 0; k < nz; k++)
    for (int j = 0; j < 2; j++)
      for (int i = 0; i < 2; i++)
      {
        int r = (k * 2 + j) * 2 + i;
        double o[3] = {0, 0, 0};
        if (jitter > 0) for (int d = 0; d < 3; d++) o[d] = 0.125 * (((r * (jitter + d) + d) % 3) - 1);
        m.apices.push_back({i + o[0], j + o[1], k + o[2]});
      }
  auto id = [](int i, int j, int k) { return (k * 2 + j) * 2 + i; };
  for (int kz = 0; kz + 1 < nz; kz++)
  {
    if (variant == 1)
    {  // 5 tetrahedra
      int v000 = id(0, 0, kz), v100 = id(1, 0, kz), v010 = id(0, 1, kz), v110 = id(1, 1, kz);
      int v001 = id(0, 0, kz + 1), v101 = id(1, 0, kz + 1), v011 = id(0, 1, kz + 1), v111 = id(1, 1, kz + 1);
      m.cells.push_back({v000, v100, v010, v001});
      m.cells.push_back({v110, v100, v010, v111});
      m.cells.push_back({v101, v100, v001, v111});
      m.cells.push_back({v011, v010, v001, v111});
      m.cells.push_back({v100, v010, v001, v111});
    }
    else
    {  // 6 Kuhn tetrahedra: paths from (0,0,0) to (1,1,1)
      int perm[6][3] = {{0, 1, 2}, {0, 2, 1}, {1, 0, 2}, {1, 2, 0}, {2, 0, 1}, {2, 1, 0}};
      for (auto& p : perm)
      {
        int c[3] = {0, 0, kz};
        std::vector<int> t;
        t.push_back(id(c[0], c[1], c[2]));
        for (int s = 0; s < 3; s++) { c[p[s]] += 1; t.push_back(id(c[0], c[1], c[2])); }
        m.cells.push_back(t);
      }
    }
  }
  m.desc = "std3d variant=" + std::to_string(variant) + " jit=" + std::to_string(jitter);
  out.push_back(m);
}
static void add_std1d(std::vector<MeshSpec>& out, std::vector<double> pts, bool flip)
{
  MeshSpec m;
  m.kind = 1; m.ndim = 1;
  for (double p : pts) m.apices.push_back({p});
  for (int i = 0; i + 1 < (int)pts.size(); i++) m.cells.push_back(flip ? std::vector<int>{i + 1, i} : std::vector<int>{i, i + 1});
  m.desc = "std1d pts=" + vs(pts) + (flip ? " rev" : "");
  out.push_back(m);
}

static std::vector<MeshSpec> mesh_menu(bool thorough, int level /*0: op menus, 1: smaller set for solver parts*/)
{
  std::vector<MeshSpec> out;
  std::vector<int> sizes = {2, 3, 4};
  // --- turbo 1-D
  for (int n : sizes)
    for (double d : {1., 0.5})
      for (double o : {0., -1.75})
      {
        if (level == 1 && (o != 0. || (d != 1. && n != 3))) continue;
        add_turbo(out, 1, {n}, {d}, {o}, {}, false);
      }
  // --- turbo 2-D
  std::vector<std::vector<double>> dx2 = {{1, 1}, {0.5, 0.5}, {1, 2}};
  for (int n1 : sizes)
    for (int n2 : sizes)
      for (auto& d : dx2)
        for (double a : {0., 30.})
          for (int pol = 0; pol < 2; pol++)
            for (int off = 0; off < 2; off++)
            {
              if (off == 1 && !thorough && !(n1 == 3 && n2 == 2)) continue;
              if (level == 1)
              {
                bool keep = (n1 == 3 && n2 == 3 && off == 0) || (n1 == 4 && n2 == 2 && off == 0 && d[1] == 2 && pol == 0) ||
                            (thorough && n1 == 4 && n2 == 4 && off == 0 && pol == 0);
                if (!keep) continue;
              }
              add_turbo(out, 2, {n1, n2}, d, off ? std::vector<double>{0.25, -1.5} : std::vector<double>{0, 0}, {a, 0}, pol == 1);
            }
  // --- turbo 3-D
  std::vector<std::vector<double>> dx3 = {{1, 1, 1}, {0.5, 0.5, 0.5}, {1, 2, 0.5}};
  std::vector<std::vector<double>> an3 = {{0, 0, 0}, {30, 0, 0}, {30, 20, 10}};
  for (int n1 : sizes)
    for (int n2 : sizes)
      for (int n3 : sizes)
        for (size_t id = 0; id < dx3.size(); id++)
          for (size_t ia = 0; ia < an3.size(); ia++)
          {
            if (!thorough)
            {  // quick: a cross-section of the 3-D menu
              bool keep = (n1 == n2 && n2 == n3 && (id == 0 || ia == 0)) || (n1 == 4 && n2 == 3 && n3 == 2) || (n1 == 2 && n2 == 2 && n3 == 3);
              if (!keep) continue;
            }
            if (level == 1)
            {
              bool keep = (n1 == 2 && n2 == 2 && n3 == 2 && id == 0) || (n1 == 3 && n2 == 3 && n3 == 2 && id == 2 && ia == 2) ||
                          (thorough && n1 == 3 && n2 == 3 && n3 == 3 && ia != 1);
              if (!keep) continue;
            }
            add_turbo(out, 3, {n1, n2, n3}, dx3[id], {0, 0, 0}, an3[ia], false);
          }
  // --- standard meshes
  for (int py : {3, 4})
  {
    int ncell = py - 1;
    for (int dm = 0; dm < (1 << ncell); dm++)
      for (int jit = 0; jit < (thorough ? 4 : 2); jit++)
        for (int flip = 0; flip < 2; flip++)
        {
          if (level == 1 && !(py == 3 && (dm == 1 || dm == 2) && jit <= 1 && flip == 0)) continue;
          add_std2d(out, 2, py, dm, jit, flip == 1);
        }
  }
  if (level == 0 || thorough) add_std2d(out, 3, 3, 0b0110, 1, false);
  for (int var = 0; var < 3; var++)
    for (int jit = 0; jit < (thorough ? 3 : 2); jit++)
    {
      if (level == 1 && !(var == 0 && jit == 1) && !(thorough && var == 1)) continue;
      add_std3d(out, var, jit);
    }
  add_std1d(out, {0, 1, 1.5, 3.5}, false);
  if (level == 0) { add_std1d(out, {0, 1, 1.5, 3.5}, true); add_std1d(out, {-2, -1.75, 0, 4, 4.5}, false); }
  return out;
}

static AMesh* build_mesh(const MeshSpec& m)
{
  if (m.kind == 0)
  {
    VectorInt nx(m.nx.begin(), m.nx.end());
    VectorDouble dx(m.dx.begin(), m.dx.end()), x0(m.x0.begin(), m.x0.end()), an(m.angles.begin(), m.angles.end());
    if (m.ndim == 1) an = VectorDouble();
    return MeshETurbo::create(nx, dx, x0, an, m.polarized, false);
  }
  int na = (int)m.apices.size(), nc = (int)m.cells.size();
  MatrixRectangular ap(na, m.ndim);
  for (int i = 0; i < na; i++) for (int d = 0; d < m.ndim; d++) ap.setValue(i, d, m.apices[i][d]);
  MatrixInt ce(nc, m.ndim + 1);
  for (int i = 0; i < nc; i++) for (int d = 0; d <= m.ndim; d++) ce.setValue(i, d, m.cells[i][d]);
  return MeshEStandard::createFromExternal(ap, ce, false);
}

// ------------------------------------------------------------------------------------------------
// model menu
struct ModelSpec
{
  int type = 0;  // 0 Matern, 1 Markov
  double param = 1, range = 1.5, sill = 1;
  int aniso = 0;  // 0 isotropic, 1 anisotropic axis-aligned, 2 anisotropic rotated
  std::vector<double> coeffs;
  std::string desc;
};
static std::vector<ModelSpec> model_menu(int ndim, bool thorough)
{
  std::vector<ModelSpec> out;
  std::vector<double> nus;
  if (ndim == 1) nus = {0.5, 1.5, 2.5, 1.0};
  if (ndim == 2) nus = {1., 2., 3., 0.5, 1.7};
  if (ndim == 3) nus = {0.5, 1.5, 2.5, 1.0};
  for (double nu : nus)
    for (double r : {1.5, 4.})
      for (int an = 0; an < (ndim == 1 ? 1 : 3); an++)
        for (double s : {1., 2.5})
        {
          if (!thorough && s != 1. && !(an == 0 && r == 1.5)) continue;
          ModelSpec m;
          m.type = 0; m.param = nu; m.range = r; m.sill = s; m.aniso = an;
          m.desc = "MATERN nu=" + fmt(nu) + " range=" + fmt(r) + " sill=" + fmt(s) + " aniso=" + std::to_string(an);
          out.push_back(m);
        }
  std::vector<std::vector<double>> cf = {{1, 2, 1}, {1, 0.5}, {2, 1, 0.25, 0.125}, {0.5, 0, 1}};
  for (auto& c : cf)
    for (int an = 0; an < (ndim == 1 ? 1 : 3); an += 2)
    {
      ModelSpec m;
      m.type = 1; m.coeffs = c; m.range = 2.; m.sill = 1.5; m.aniso = an;
      m.desc = "MARKOV coeffs=" + vs(c) + " range=2 sill=1.5 aniso=" + std::to_string(an);
      out.push_back(m);
    }
  return out;
}
static Model* build_model(const ModelSpec& m, int ndim)
{
  VectorDouble ranges(ndim), angles;
  for (int d = 0; d < ndim; d++) ranges[d] = (m.aniso == 0) ? m.range : m.range / (double)(1 << d);
  if (ndim == 2) angles = (m.aniso == 2) ? VectorDouble{30., 0.} : VectorDouble{0., 0.};
  if (ndim == 3) angles = (m.aniso == 2) ? VectorDouble{30., 20., 10.} : VectorDouble{0., 0., 0.};
  Model* model = Model::createFromParam(m.type == 0 ? ECov::MATERN : ECov::MARKOV, m.range, m.sill, m.param, ranges, VectorDouble(), angles, nullptr, true);
  if (model != nullptr && m.type == 1)
  {
    VectorDouble c(m.coeffs.begin(), m.coeffs.end());
    model->getCova(0)->setMarkovCoeffs(c);
  }
  return model;
}

// ------------------------------------------------------------------------------------------------
static EM dense(const AMatrix* m)
{
  EM d(m->getNRows(), m->getNCols());
  for (int i = 0; i < m->getNRows(); i++) for (int j = 0; j < m->getNCols(); j++) d(i, j) = m->getValue(i, j);
  return d;
}
static bool finite_all(const EM& m) { return m.allFinite(); }
static EV apply_op(const ALinearOp& op, const EV& x)
{
  VectorDouble in(x.data(), x.data() + x.size()), outv;
  op.evalDirect(in, outv);
  EV y(outv.size());
  for (size_t i = 0; i < outv.size(); i++) y[i] = outv[i];
  return y;
}

// ================================================================================================
VF_PART(op_vs_matrix)
{
  auto meshes = mesh_menu(C.thorough(), 0);
  size_t maxmodels = 0;
  std::vector<std::vector<ModelSpec>> mm(4);
  for (int d = 1; d <= 3; d++) { mm[d] = model_menu(d, C.thorough()); maxmodels = std::max(maxmodels, mm[d].size()); }
  Space sp;
  sp.axis("mesh", (int)meshes.size()).axis("model", (int)maxmodels);
  for_each_case(C, sp, [&](uint64_t id, const std::vector<int>& idx) {
    const MeshSpec& ms = meshes[idx[0]];
    if (idx[1] >= (int)mm[ms.ndim].size()) return;  // menu shorter in that dimension (not a case)
    const ModelSpec& mo = mm[ms.ndim][idx[1]];
    std::string kase = std::to_string(id);
    std::string what0 = ms.desc + " | " + mo.desc;
    defineDefaultSpace(ESpaceType::RN, ms.ndim);
    std::unique_ptr<AMesh> mesh(build_mesh(ms));
    std::unique_ptr<Model> model(build_model(mo, ms.ndim));
    if (!mesh || !model) { C.violation("setup:null", "mesh or model not built: " + what0, kase); return; }
    C.eval();
    CovAniso* cova = model->getCova(0);
    PrecisionOpCs qcs(mesh.get(), cova);
    PrecisionOp qop(mesh.get(), cova);
    int n = qop.getSize();
    if (qcs.getQ() == nullptr || n != mesh->getNApices() || qcs.getQ()->getNRows() != n)
    { C.violation("opq:size", "operator size " + std::to_string(n) + " vs apices " + std::to_string(mesh->getNApices()) + " : " + what0, kase); return; }
    EM Q = dense(qcs.getQ());
    std::string mk = std::string(ms.kind == 0 ? "turbo" : "std") + std::to_string(ms.ndim) + "d:" + (mo.type == 0 ? "matern" : "markov");
    if (!finite_all(Q)) { C.violation("q:nonfinite:" + mk, "assembled Q has non finite entries: " + what0, kase); return; }
    double qmax = Q.cwiseAbs().maxCoeff();
    double tol = 1e-10 * qmax;
    // (a) matrix-free operator column by column
    double worst = 0, worstcs = 0;
    EM Qop(n, n);
    for (int i = 0; i < n; i++)
    {
      EV e = EV::Zero(n); e[i] = 1.;
      EV c1 = apply_op(qop, e), c2 = apply_op(qcs, e);
      if (c1.size() != n || c2.size() != n) { C.violation("opq:size", "evalDirect returns wrong size: " + what0, kase); return; }
      Qop.col(i) = c1;
      worst = std::max(worst, (c1 - Q.col(i)).cwiseAbs().maxCoeff());
      worstcs = std::max(worstcs, (c2 - Q.col(i)).cwiseAbs().maxCoeff());
      if (!c1.allFinite()) worst = INFINITY;
    }
    if (!(worst <= tol))
      C.violation("opq:matrixfree-vs-assembled:" + mk, "max |evalDirect(e_i) - Q[:,i]| = " + fmt(worst) + " > " + fmt(tol) + " (max|Q|=" + fmt(qmax) + ") " + what0, kase);
    if (!(worstcs <= tol))
      C.violation("opq:cs-evaldirect-vs-getQ:" + mk, "max |PrecisionOpCs::evalDirect(e_i) - Q[:,i]| = " + fmt(worstcs) + " " + what0, kase);
    // (b) dense reference  Lambda P(S) Lambda
    const ShiftOpCs* sh = qcs.getShiftOp();
    EM S = dense(sh->getS());
    VectorDouble lam = sh->getLambdas();
    VectorDouble cf = cova->getMarkovCoeffs();
    bool lamok = (int)lam.size() == n;
    for (double l : lam) if (!(l > 0) || !std::isfinite(l)) lamok = false;
    if (!lamok) { C.violation("shift:lambda-not-positive:" + mk, "Lambda has a non positive / non finite entry " + vstr(lam) + " " + what0, kase); return; }
    double smax = S.cwiseAbs().maxCoeff();
    double sasym = (S - S.transpose()).cwiseAbs().maxCoeff();
    if (!(sasym <= 1e-12 * std::max(1., smax))) C.violation("shift:S-asymmetric:" + mk, "max |S - S'| = " + fmt(sasym) + " " + what0, kase);
    EM P = EM::Identity(n, n) * cf.back();
    for (int k = (int)cf.size() - 2; k >= 0; k--) P = S * P + EM::Identity(n, n) * cf[k];
    EV L(n); for (int i = 0; i < n; i++) L[i] = lam[i];
    EM Qref = L.asDiagonal() * P * L.asDiagonal();
    double dref = (Qref - Q).cwiseAbs().maxCoeff();
    if (!(dref <= tol)) C.violation("opq:assembled-vs-reference:" + mk, "max |Q - Lambda P(S) Lambda| = " + fmt(dref) + " > " + fmt(tol) + " " + what0, kase);
    // (c) symmetric positive definite
    double asym = (Q - Q.transpose()).cwiseAbs().maxCoeff();
    if (!(asym <= 1e-12 * qmax)) C.violation("q:asymmetric:" + mk, "max |Q - Q'| = " + fmt(asym) + " max|Q|=" + fmt(qmax) + " " + what0, kase);
    EM Qs = 0.5 * (Q + Q.transpose());
    Eigen::SelfAdjointEigenSolver<EM> es(Qs);
    double emin = es.eigenvalues().minCoeff(), emax = es.eigenvalues().maxCoeff();
    Eigen::LLT<EM> llt(Qs);
    bool pd = llt.info() == Eigen::Success && emin > 0;
    if (!pd) C.violation("q:not-positive-definite:" + mk, "min eigenvalue " + fmt(emin) + " (max " + fmt(emax) + ") " + what0, kase);
    // (d) linearity of the matrix free operator (it keeps work vectors: a stale buffer would break it)
    double lin = 0;
    if (n <= 12)
    {
      for (int i = 0; i < n; i++)
        for (int j = 0; j < n; j++)
        {
          EV v = EV::Zero(n); v[i] += 1.; v[j] += 2.;
          lin = std::max(lin, (apply_op(qop, v) - (Qop.col(i) + 2. * Qop.col(j))).cwiseAbs().maxCoeff());
        }
    }
    else
    {
      for (int k = 0; k < 4; k++)
      {
        EV v(n);
        for (int i = 0; i < n; i++) v[i] = k == 0 ? 1. : k == 1 ? (double)(i + 1) / 8. : k == 2 ? ((i % 2) ? -1. : 1.) : (double)((i * 7) % 5) - 2.;
        lin = std::max(lin, (apply_op(qop, v) - Qop * v).cwiseAbs().maxCoeff() / std::max(1., v.cwiseAbs().maxCoeff()));
      }
    }
    if (!(lin <= 10 * tol)) C.violation("opq:not-linear:" + mk, "evalDirect is not the linear map given by its columns: defect " + fmt(lin) + " " + what0, kase);
    // histogram / non triviality: the polynomial has degree >= 2 and S is not diagonal
    int deg = (int)cf.size() - 1;
    C.outcome("degree=" + std::to_string(deg));
    C.outcome(std::string("mesh=") + (ms.kind == 0 ? "turbo" : "std") + std::to_string(ms.ndim) + "d");
    double cond = emax / std::max(emin, 1e-300);
    C.outcome(cond < 1e2 ? "cond<1e2" : cond < 1e4 ? "cond<1e4" : cond < 1e8 ? "cond<1e8" : "cond>=1e8");
    C.outcome(worst == 0 ? "agree-bitwise" : worst <= 1e-14 * qmax ? "agree<1e-14" : worst <= tol ? "agree<1e-10" : "DISAGREE");
    if (deg >= 1 && n >= 2) C.nontrivial(id);
    if (id % 211 == 0) C.sample("{\"id\":" + std::to_string(id) + ",\"mesh\":" + jstr(ms.desc) + ",\"model\":" + jstr(mo.desc) + ",\"n\":" + std::to_string(n) + ",\"maxdiff\":" + fmt(worst) + ",\"eigmin\":" + fmt(emin) + "}");
  });
}

int main(int argc, char** argv)
{
  return run_main(argc, argv, [](Ctx&) { silence(); });
}
