// C15 — SPDE operators, projections and solvers are mutually consistent.
// Engine E1 (product of finite menus) + linearity argument.
//
//  part op_vs_matrix : every (mesh, Matern/Markov model) of the menus: PrecisionOp::evalDirect(e_i) == column i of
//                      PrecisionOpCs::getQ() for EVERY basis vector (=> every vector, the operator being linear; linearity itself
//                      is checked on all pairs e_i + 2 e_j for n <= 12 and on dense vectors otherwise); both equal the dense
//                      reference Lambda P(S) Lambda rebuilt in the harness (Eigen) from getS(), getLambdas(), getMarkovCoeffs();
//                      Q symmetric and positive definite (Eigen LLT + smallest eigenvalue); S symmetric, Lambda > 0.
//  part projection   : ProjMatrix rows for query points generated from exact barycentric menus inside every mesh cell, on
//                      apices, and outside the mesh: weights >= 0, sum 1, reproduce {1,x,y,z}; empty row outside; rows stay
//                      aligned with the samples whatever the order of inside/outside points.
//  part solvers      : SPDE kriging with useCholesky=1 vs 0 on the same mesh/data; residual of both solves against the system
//                      (Q + A' D^-1 A) x = A' D^-1 z assembled densely in the harness; PrecisionOpCs::evalInverse,
//                      PrecisionOpMultiConditional(Cs)::evalInverse; quadratic term and log-determinant pieces of the
//                      log-likelihood in both modes against dense references.
#include "vf/gst.hpp"

#include "API/SPDE.hpp"
#include "API/SPDEParam.hpp"
#include "Covariances/CovAniso.hpp"
#include "Enum/ECov.hpp"
#include "Enum/ESpaceType.hpp"
#include "LinearOp/PrecisionOp.hpp"
#include "LinearOp/PrecisionOpCs.hpp"
#include "LinearOp/PrecisionOpMultiConditional.hpp"
#include "LinearOp/PrecisionOpMultiConditionalCs.hpp"
#include "LinearOp/ProjMatrix.hpp"
#include "LinearOp/ShiftOpCs.hpp"
#include "Matrix/MatrixInt.hpp"
#include "Matrix/MatrixRectangular.hpp"
#include "Matrix/MatrixSparse.hpp"
#include "Mesh/MeshEStandard.hpp"
#include "Mesh/MeshETurbo.hpp"
#include "Model/Model.hpp"
#include "Space/ASpaceObject.hpp"

#include <Eigen/Dense>
#include <memory>

using namespace vf;
typedef Eigen::MatrixXd EM;
typedef Eigen::VectorXd EV;

// ------------------------------------------------------------------------------------------------
// mesh menu
struct MeshSpec
{
  int kind = 0;  // 0 turbo, 1 standard
  int ndim = 2;
  std::vector<int> nx;
  std::vector<double> dx, x0, angles;
  bool polarized = false;
  std::vector<std::vector<double>> apices;  // standard: napices x ndim
  std::vector<std::vector<int>> cells;      // standard: ncells x (ndim+1)
  std::string desc;
};

static std::string vs(const std::vector<double>& v) { return vstr(v); }
static std::string vsi(const std::vector<int>& v) { return vstr(v); }

static void add_turbo(std::vector<MeshSpec>& out, int ndim, std::vector<int> nx, std::vector<double> dx, std::vector<double> x0,
                      std::vector<double> ang, bool pol)
{
  MeshSpec m;
  m.kind = 0; m.ndim = ndim; m.nx = nx; m.dx = dx; m.x0 = x0; m.angles = ang; m.polarized = pol;
  m.desc = "turbo nx=" + vsi(nx) + " dx=" + vs(dx) + " x0=" + vs(x0) + " ang=" + vs(ang) + (pol ? " polarized" : "");
  out.push_back(m);
}

// standard 2-D meshes: lattice of (px x py) points, per cell one of the two diagonals, jitter pattern, orientation flip
static void add_std2d(std::vector<MeshSpec>& out, int px, int py, int diagmask, int jitter, bool flip)
{
  MeshSpec m;
  m.kind = 1; m.ndim = 2;
  for (int j = 0; j < py; j++)
    for (int i = 0; i < px; i++)
    {
      int k = j * px + i;
      double ox = 0, oy = 0;
      if (jitter > 0) { ox = 0.125 * (((k * (jitter + 1)) % 3) - 1); oy = 0.125 * (((k * (jitter + 2) + 1) % 3) - 1); }
      m.apices.push_back({(double)i + ox, (double)j + oy});
    }
  int c = 0;
  for (int j = 0; j + 1 < py; j++)
    for (int i = 0; i + 1 < px; i++, c++)
    {
      int a = j * px + i, b = a + 1, d = a + px, e = d + 1;  // a b / d e
      std::vector<std::vector<int>> t;
      if ((diagmask >> c) & 1) t = {{a, b, e}, {a, e, d}};
      else t = {{a, b, d}, {b, e, d}};
      for (auto& tr : t) { if (flip) std::swap(tr[1], tr[2]); m.cells.push_back(tr); }
    }
  m.desc = "std2d " + std::to_string(px) + "x" + std::to_string(py) + " diag=" + std::to_string(diagmask) + " jit=" + std::to_string(jitter) + (flip ? " cw" : " ccw");
  out.push_back(m);
}
// standard 3-D: unit cube (optionally 2 stacked cubes) split into 6 Kuhn tetrahedra, or 5 tetrahedra; jitter
static void add_std3d(std::vector<MeshSpec>& out, int variant, int jitter)
{
  MeshSpec m;
  m.kind = 1; m.ndim = 3;
  int nz = (variant == 2) ? 3 : 2;
  for (int k = 0; k < nz; k++)
    for (int j = 0; j < 2; j++)
      for (int i = 0; i < 2; i++)
      {
        int r = (k * 2 + j) * 2 + i;
        double o[3] = {0, 0, 0};
        if (jitter > 0) for (int d = 0; d < 3; d++) o[d] = 0.125 * (((r * (jitter + d) + d) % 3) - 1);
        m.apices.push_back({i + o[0], j + o[1], k + o[2]});
      }
  auto id = [](int i, int j, int k) { return (k * 2 + j) * 2 + i; };
  for (int kz = 0; kz + 1 < nz; kz++)
  {
    if (variant == 1)
    {  // 5 tetrahedra
      int v000 = id(0, 0, kz), v100 = id(1, 0, kz), v010 = id(0, 1, kz), v110 = id(1, 1, kz);
      int v001 = id(0, 0, kz + 1), v101 = id(1, 0, kz + 1), v011 = id(0, 1, kz + 1), v111 = id(1, 1, kz + 1);
      m.cells.push_back({v000, v100, v010, v001});
      m.cells.push_back({v110, v100, v010, v111});
      m.cells.push_back({v101, v100, v001, v111});
      m.cells.push_back({v011, v010, v001, v111});
      m.cells.push_back({v100, v010, v001, v111});
    }
    else
    {  // 6 Kuhn tetrahedra: paths from (0,0,0) to (1,1,1)
      int perm[6][3] = {{0, 1, 2}, {0, 2, 1}, {1, 0, 2}, {1, 2, 0}, {2, 0, 1}, {2, 1, 0}};
      for (auto& p : perm)
      {
        int c[3] = {0, 0, kz};
        std::vector<int> t;
        t.push_back(id(c[0], c[1], c[2]));
        for (int s = 0; s < 3; s++) { c[p[s]] += 1; t.push_back(id(c[0], c[1], c[2])); }
        m.cells.push_back(t);
      }
    }
  }
  m.desc = "std3d variant=" + std::to_string(variant) + " jit=" + std::to_string(jitter);
  out.push_back(m);
}
static void add_std1d(std::vector<MeshSpec>& out, std::vector<double> pts, bool flip)
{
  MeshSpec m;
  m.kind = 1; m.ndim = 1;
  for (double p : pts) m.apices.push_back({p});
  for (int i = 0; i + 1 < (int)pts.size(); i++) m.cells.push_back(flip ? std::vector<int>{i + 1, i} : std::vector<int>{i, i + 1});
  m.desc = "std1d pts=" + vs(pts) + (flip ? " rev" : "");
  out.push_back(m);
}

static std::vector<MeshSpec> mesh_menu(bool thorough, int level /*0: op menus, 1: smaller set for solver parts*/)
{
  std::vector<MeshSpec> out;
  std::vector<int> sizes = {2, 3, 4};
  // --- turbo 1-D
  for (int n : sizes)
    for (double d : {1., 0.5})
      for (double o : {0., -1.75})
      {
        if (level == 1 && (o != 0. || (d != 1. && n != 3))) continue;
        add_turbo(out, 1, {n}, {d}, {o}, {}, false);
      }
  // --- turbo 2-D
  std::vector<std::vector<double>> dx2 = {{1, 1}, {0.5, 0.5}, {1, 2}};
  for (int n1 : sizes)
    for (int n2 : sizes)
      for (auto& d : dx2)
        for (double a : {0., 30.})
          for (int pol = 0; pol < 2; pol++)
            for (int off = 0; off < 2; off++)
            {
              if (off == 1 && !thorough && !(n1 == 3 && n2 == 2)) continue;
              if (level == 1)
              {
                bool keep = (n1 == 3 && n2 == 3 && off == 0) || (n1 == 4 && n2 == 2 && off == 0 && d[1] == 2 && pol == 0) ||
                            (thorough && n1 == 4 && n2 == 4 && off == 0 && pol == 0);
                if (!keep) continue;
              }
              add_turbo(out, 2, {n1, n2}, d, off ? std::vector<double>{0.25, -1.5} : std::vector<double>{0, 0}, {a, 0}, pol == 1);
            }
  // --- turbo 3-D
  std::vector<std::vector<double>> dx3 = {{1, 1, 1}, {0.5, 0.5, 0.5}, {1, 2, 0.5}};
  std::vector<std::vector<double>> an3 = {{0, 0, 0}, {30, 0, 0}, {30, 20, 10}};
  for (int n1 : sizes)
    for (int n2 : sizes)
      for (int n3 : sizes)
        for (size_t id = 0; id < dx3.size(); id++)
          for (size_t ia = 0; ia < an3.size(); ia++)
          {
            if (!thorough)
            {  // quick: a cross-section of the 3-D menu
              bool keep = (n1 == n2 && n2 == n3 && (id == 0 || ia == 0)) || (n1 == 4 && n2 == 3 && n3 == 2) || (n1 == 2 && n2 == 2 && n3 == 3);
              if (!keep) continue;
            }
            if (level == 1)
            {
              bool keep = (n1 == 2 && n2 == 2 && n3 == 2 && id == 0) || (n1 == 3 && n2 == 3 && n3 == 2 && id == 2 && ia == 2) ||
                          (thorough && n1 == 3 && n2 == 3 && n3 == 3 && ia != 1);
              if (!keep) continue;
            }
            add_turbo(out, 3, {n1, n2, n3}, dx3[id], {0, 0, 0}, an3[ia], false);
          }
  // --- standard meshes
  for (int py : {3, 4})
  {
    int ncell = py - 1;
    for (int dm = 0; dm < (1 << ncell); dm++)
      for (int jit = 0; jit < (thorough ? 4 : 2); jit++)
        for (int flip = 0; flip < 2; flip++)
        {
          if (level == 1 && !(py == 3 && (dm == 1 || dm == 2) && jit <= 1 && flip == 0)) continue;
          add_std2d(out, 2, py, dm, jit, flip == 1);
        }
  }
  if (level == 0 || thorough) add_std2d(out, 3, 3, 0b0110, 1, false);
  for (int var = 0; var < 3; var++)
    for (int jit = 0; jit < (thorough ? 3 : 2); jit++)
    {
      if (level == 1 && !(var == 0 && jit == 1) && !(thorough && var == 1)) continue;
      add_std3d(out, var, jit);
    }
  add_std1d(out, {0, 1, 1.5, 3.5}, false);
  if (level == 0) { add_std1d(out, {0, 1, 1.5, 3.5}, true); add_std1d(out, {-2, -1.75, 0, 4, 4.5}, false); }
  return out;
}

static AMesh* build_mesh(const MeshSpec& m)
{
  if (m.kind == 0)
  {
    VectorInt nx(m.nx.begin(), m.nx.end());
    VectorDouble dx(m.dx.begin(), m.dx.end()), x0(m.x0.begin(), m.x0.end()), an(m.angles.begin(), m.angles.end());
    if (m.ndim == 1) an = VectorDouble();
    return MeshETurbo::create(nx, dx, x0, an, m.polarized, false);
  }
  int na = (int)m.apices.size(), nc = (int)m.cells.size();
  MatrixRectangular ap(na, m.ndim);
  for (int i = 0; i < na; i++) for (int d = 0; d < m.ndim; d++) ap.setValue(i, d, m.apices[i][d]);
  MatrixInt ce(nc, m.ndim + 1);
  for (int i = 0; i < nc; i++) for (int d = 0; d <= m.ndim; d++) ce.setValue(i, d, m.cells[i][d]);
  return MeshEStandard::createFromExternal(ap, ce, false);
}

// ------------------------------------------------------------------------------------------------
// model menu
struct ModelSpec
{
  int type = 0;  // 0 Matern, 1 Markov
  double param = 1, range = 1.5, sill = 1;
  int aniso = 0;  // 0 isotropic, 1 anisotropic axis-aligned, 2 anisotropic rotated
  std::vector<double> coeffs;
  std::string desc;
};
static std::vector<ModelSpec> model_menu(int ndim, bool thorough)
{
  std::vector<ModelSpec> out;
  std::vector<double> nus;
  if (ndim == 1) nus = {0.5, 1.5, 2.5, 1.0};
  if (ndim == 2) nus = {1., 2., 3., 0.5, 1.7};
  if (ndim == 3) nus = {0.5, 1.5, 2.5, 1.0};
  for (double nu : nus)
    for (double r : {1.5, 4.})
      for (int an = 0; an < (ndim == 1 ? 1 : 3); an++)
        for (double s : {1., 2.5})
        {
          if (!thorough && s != 1. && !(an == 0 && r == 1.5)) continue;
          ModelSpec m;
          m.type = 0; m.param = nu; m.range = r; m.sill = s; m.aniso = an;
          m.desc = "MATERN nu=" + fmt(nu) + " range=" + fmt(r) + " sill=" + fmt(s) + " aniso=" + std::to_string(an);
          out.push_back(m);
        }
  // MARKOV structures: 1-D and 2-D only. In 3-D every CovAniso construction / setMarkovCoeffs runs a 256^3 FFT
  // (ACovFunc::computeCorrec) = minutes and GBs per model: outside any test budget (reported, not a C15 matter).
  std::vector<std::vector<double>> cf = {{1, 2, 1}, {1, 0.5}, {2, 1, 0.25, 0.125}, {0.5, 0, 1}};
  if (ndim == 3) cf.clear();
  for (auto& c : cf)
    for (int an = 0; an < (ndim == 1 ? 1 : 3); an += 2)
    {
      ModelSpec m;
      m.type = 1; m.coeffs = c; m.range = 2.; m.sill = 1.5; m.aniso = an;
      m.desc = "MARKOV coeffs=" + vs(c) + " range=2 sill=1.5 aniso=" + std::to_string(an);
      out.push_back(m);
    }
  return out;
}
static Model* build_model(const ModelSpec& m, int ndim)
{
  VectorDouble ranges(ndim), angles;
  for (int d = 0; d < ndim; d++) ranges[d] = (m.aniso == 0) ? m.range : m.range / (double)(1 << d);
  if (ndim == 2) angles = (m.aniso == 2) ? VectorDouble{30., 0.} : VectorDouble{0., 0.};
  if (ndim == 3) angles = (m.aniso == 2) ? VectorDouble{30., 20., 10.} : VectorDouble{0., 0., 0.};
  Model* model = Model::createFromParam(m.type == 0 ? ECov::MATERN : ECov::MARKOV, m.range, m.sill, m.param, ranges, VectorDouble(), angles, nullptr, true);
  if (model != nullptr && m.type == 1)
  {
    VectorDouble c(m.coeffs.begin(), m.coeffs.end());
    model->getCova(0)->setMarkovCoeffs(c);
  }
  return model;
}

// ------------------------------------------------------------------------------------------------
static EM dense(const AMatrix* m)
{
  EM d(m->getNRows(), m->getNCols());
  for (int i = 0; i < m->getNRows(); i++) for (int j = 0; j < m->getNCols(); j++) d(i, j) = m->getValue(i, j);
  return d;
}
static bool finite_all(const EM& m) { return m.allFinite(); }
static EV apply_op(const ALinearOp& op, const EV& x)
{
  VectorDouble in(x.data(), x.data() + x.size()), outv;
  op.evalDirect(in, outv);
  EV y(outv.size());
  for (size_t i = 0; i < outv.size(); i++) y[i] = outv[i];
  return y;
}

// ================================================================================================
VF_PART(op_vs_matrix)
{
  auto meshes = mesh_menu(C.thorough(), 0);
  size_t maxmodels = 0;
  std::vector<std::vector<ModelSpec>> mm(4);
  for (int d = 1; d <= 3; d++) { mm[d] = model_menu(d, C.thorough()); maxmodels = std::max(maxmodels, mm[d].size()); }
  Space sp;
  sp.axis("mesh", (int)meshes.size()).axis("model", (int)maxmodels);
  for_each_case(C, sp, [&](uint64_t id, const std::vector<int>& idx) {
    const MeshSpec& ms = meshes[idx[0]];
    if (idx[1] >= (int)mm[ms.ndim].size()) return;  // menu shorter in that dimension (not a case)
    const ModelSpec& mo = mm[ms.ndim][idx[1]];
    // a 2-D MARKOV structure costs ~0.25 s of FFT per construction (ACovFunc::computeCorrec): taken on a regular sub-menu of the meshes
    if (mo.type == 1 && ms.ndim == 2 && (idx[0] % (C.thorough() ? 1 : 8)) != 0) return;
    std::string kase = std::to_string(id);
    std::string what0 = ms.desc + " | " + mo.desc;
    if (C.verbose) fprintf(stderr, "case %s: %s\n", kase.c_str(), what0.c_str());
    defineDefaultSpace(ESpaceType::RN, ms.ndim);
    std::unique_ptr<AMesh> mesh(build_mesh(ms));
    std::unique_ptr<Model> model(build_model(mo, ms.ndim));
    if (!mesh || !model) { C.violation("setup:null", "mesh or model not built: " + what0, kase); return; }
    C.eval();
    CovAniso* cova = model->getCova(0);
    PrecisionOpCs qcs(mesh.get(), cova);
    PrecisionOp qop(mesh.get(), cova);
    int n = qop.getSize();
    if (qcs.getQ() == nullptr || n != mesh->getNApices() || qcs.getQ()->getNRows() != n)
    { C.violation("opq:size", "operator size " + std::to_string(n) + " vs apices " + std::to_string(mesh->getNApices()) + " : " + what0, kase); return; }
    EM Q = dense(qcs.getQ());
    std::string mk = std::string(ms.kind == 0 ? "turbo" : "std") + std::to_string(ms.ndim) + "d:" + (mo.type == 0 ? "matern" : "markov");
    if (!finite_all(Q)) { C.violation("q:nonfinite:" + mk, "assembled Q has non finite entries: " + what0, kase); return; }
    double qmax = Q.cwiseAbs().maxCoeff();
    double tol = 1e-10 * qmax;
    // (a) matrix-free operator column by column
    double worst = 0, worstcs = 0;
    EM Qop(n, n);
    for (int i = 0; i < n; i++)
    {
      EV e = EV::Zero(n); e[i] = 1.;
      EV c1 = apply_op(qop, e), c2 = apply_op(qcs, e);
      if (c1.size() != n || c2.size() != n) { C.violation("opq:size", "evalDirect returns wrong size: " + what0, kase); return; }
      Qop.col(i) = c1;
      worst = std::max(worst, (c1 - Q.col(i)).cwiseAbs().maxCoeff());
      worstcs = std::max(worstcs, (c2 - Q.col(i)).cwiseAbs().maxCoeff());
      if (!c1.allFinite()) worst = INFINITY;
    }
    if (!(worst <= tol))
      C.violation("opq:matrixfree-vs-assembled:" + mk, "max |evalDirect(e_i) - Q[:,i]| = " + fmt(worst) + " > " + fmt(tol) + " (max|Q|=" + fmt(qmax) + ") " + what0, kase);
    if (!(worstcs <= tol))
      C.violation("opq:cs-evaldirect-vs-getQ:" + mk, "max |PrecisionOpCs::evalDirect(e_i) - Q[:,i]| = " + fmt(worstcs) + " " + what0, kase);
    // (b) dense reference  Lambda P(S) Lambda
    const ShiftOpCs* sh = qcs.getShiftOp();
    EM S = dense(sh->getS());
    VectorDouble lam = sh->getLambdas();
    VectorDouble cf = cova->getMarkovCoeffs();
    bool lamok = (int)lam.size() == n;
    for (double l : lam) if (!(l > 0) || !std::isfinite(l)) lamok = false;
    if (!lamok) { C.violation("shift:lambda-not-positive:" + mk, "Lambda has a non positive / non finite entry " + vstr(lam) + " " + what0, kase); return; }
    double smax = S.cwiseAbs().maxCoeff();
    double sasym = (S - S.transpose()).cwiseAbs().maxCoeff();
    if (!(sasym <= 1e-12 * std::max(1., smax))) C.violation("shift:S-asymmetric:" + mk, "max |S - S'| = " + fmt(sasym) + " " + what0, kase);
    EM P = EM::Identity(n, n) * cf.back();
    for (int k = (int)cf.size() - 2; k >= 0; k--) P = S * P + EM::Identity(n, n) * cf[k];
    EV L(n); for (int i = 0; i < n; i++) L[i] = lam[i];
    EM Qref = L.asDiagonal() * P * L.asDiagonal();
    double dref = (Qref - Q).cwiseAbs().maxCoeff();
    if (!(dref <= tol)) C.violation("opq:assembled-vs-reference:" + mk, "max |Q - Lambda P(S) Lambda| = " + fmt(dref) + " > " + fmt(tol) + " " + what0, kase);
    // (c) symmetric positive definite
    double asym = (Q - Q.transpose()).cwiseAbs().maxCoeff();
    if (!(asym <= 1e-12 * qmax)) C.violation("q:asymmetric:" + mk, "max |Q - Q'| = " + fmt(asym) + " max|Q|=" + fmt(qmax) + " " + what0, kase);
    EM Qs = 0.5 * (Q + Q.transpose());
    Eigen::SelfAdjointEigenSolver<EM> es(Qs);
    double emin = es.eigenvalues().minCoeff(), emax = es.eigenvalues().maxCoeff();
    Eigen::LLT<EM> llt(Qs);
    bool pd = llt.info() == Eigen::Success && emin > 0;
    if (!pd) C.violation("q:not-positive-definite:" + mk, "min eigenvalue " + fmt(emin) + " (max " + fmt(emax) + ") " + what0, kase);
    // (d) linearity of the matrix free operator (it keeps work vectors: a stale buffer would break it)
    double lin = 0;
    if (n <= 12)
    {
      for (int i = 0; i < n; i++)
        for (int j = 0; j < n; j++)
        {
          EV v = EV::Zero(n); v[i] += 1.; v[j] += 2.;
          lin = std::max(lin, (apply_op(qop, v) - (Qop.col(i) + 2. * Qop.col(j))).cwiseAbs().maxCoeff());
        }
    }
    else
    {
      for (int k = 0; k < 4; k++)
      {
        EV v(n);
        for (int i = 0; i < n; i++) v[i] = k == 0 ? 1. : k == 1 ? (double)(i + 1) / 8. : k == 2 ? ((i % 2) ? -1. : 1.) : (double)((i * 7) % 5) - 2.;
        lin = std::max(lin, (apply_op(qop, v) - Qop * v).cwiseAbs().maxCoeff() / std::max(1., v.cwiseAbs().maxCoeff()));
      }
    }
    if (!(lin <= 10 * tol)) C.violation("opq:not-linear:" + mk, "evalDirect is not the linear map given by its columns: defect " + fmt(lin) + " " + what0, kase);
    // histogram / non triviality: the polynomial has degree >= 2 and S is not diagonal
    int deg = (int)cf.size() - 1;
    C.outcome("degree=" + std::to_string(deg));
    C.outcome(std::string("mesh=") + (ms.kind == 0 ? "turbo" : "std") + std::to_string(ms.ndim) + "d");
    double cond = emax / std::max(emin, 1e-300);
    C.outcome(cond < 1e2 ? "cond<1e2" : cond < 1e4 ? "cond<1e4" : cond < 1e8 ? "cond<1e8" : "cond>=1e8");
    C.outcome(worst == 0 ? "agree-bitwise" : worst <= 1e-14 * qmax ? "agree<1e-14" : worst <= tol ? "agree<1e-10" : "DISAGREE");
    if (deg >= 1 && n >= 2) C.nontrivial(id);
    if (id % 211 == 0) C.sample("{\"id\":" + std::to_string(id) + ",\"mesh\":" + jstr(ms.desc) + ",\"model\":" + jstr(mo.desc) + ",\"n\":" + std::to_string(n) + ",\"maxdiff\":" + fmt(worst) + ",\"eigmin\":" + fmt(emin) + "}");
  });
}

// ================================================================================================
// projection: reference = exhaustive barycentric test of the query point against EVERY cell (Eigen solve)
struct Cell
{
  std::vector<int> ap;
  EM T;     // (ndim+1)x(ndim+1): rows = coords + row of ones
  EM Dinv;  // inverse of the matrix of the edge vectors a_k - a_0: barycentric coordinates are computed in coordinates local to the cell
  EV bary(const EV& p) const
  {
    int nd = (int)Dinv.rows();
    EV rhs(nd); for (int d = 0; d < nd; d++) rhs[d] = p[d] - T(d, 0);
    EV l = Dinv * rhs;
    EV b(nd + 1); b[0] = 1. - l.sum(); for (int k = 0; k < nd; k++) b[k + 1] = l[k];
    return b;
  }
};
static std::vector<Cell> cells_of(const AMesh* mesh, int ndim)
{
  std::vector<Cell> out;
  for (int im = 0; im < mesh->getNMeshes(); im++)
  {
    Cell c; c.T = EM(ndim + 1, ndim + 1);
    for (int r = 0; r <= ndim; r++)
    {
      int ia = mesh->getApex(im, r);
      c.ap.push_back(ia);
      for (int d = 0; d < ndim; d++) c.T(d, r) = mesh->getApexCoor(ia, d);
      c.T(ndim, r) = 1.;
    }
    EM Dm(ndim, ndim);
    for (int k = 1; k <= ndim; k++) for (int d = 0; d < ndim; d++) Dm(d, k - 1) = c.T(d, k) - c.T(d, 0);
    c.Dinv = Dm.inverse();
    out.push_back(c);
  }
  return out;
}
// weight vectors (dyadic) applied with every rotation of the apices of a cell
static std::vector<std::vector<double>> bary_menu(int ndim, bool thorough)
{
  const double e = 1. / 1024.;
  std::vector<std::vector<double>> m;
  if (ndim == 1) m = {{.5, .5}, {.875, .125}, {1 - e, e}, {1, 0}, {1.25, -.25}, {1 + e, -e}, {3, -2}};
  if (ndim == 2) m = {{.5, .25, .25}, {.625, .25, .125}, {1 - 2 * e, e, e}, {.5, .5, 0}, {.75, .25, 0}, {1, 0, 0},
                      {1.25, -.5, .25}, {.5 + e / 2, .5, -e / 2}, {2, -.5, -.5}, {.5, .75, -.25}};
  if (ndim == 3) m = {{.25, .25, .25, .25}, {.5, .25, .125, .125}, {1 - 3 * e, e, e, e}, {.5, .25, .25, 0}, {.5, .5, 0, 0}, {1, 0, 0, 0},
                      {1.25, -.5, .125, .125}, {.5 + e / 2, .25, .25, -e / 2}, {2, -.5, -.25, -.25}};
  if (!thorough && ndim == 3) m.resize(8);
  return m;
}

// The same mesh in another frame: x' = s x + t. Frames 1-3: s a power of two and t = (2^19, 2^22, 2^20), exact in floating point for the meshes with
// dyadic coordinates. Frames 4-6: generic (non dyadic) scales 25, 2, 0.3 and the UTM-like shift (652000.37, 4815000.21, 1234567.89): with dyadic
// numbers products of coordinates are exact, which HIDES cancellation errors (a seeded defect was missed that way), generic numbers do not.
// The property is invariant under such a change of frame.
static const int NFRAME = 7;
static const double FRAME_SCALE[NFRAME] = {1., 1., 0.125, 32., 25., 2., 0.3};
static const int FRAME_SHIFT[NFRAME] = {0, 1, 1, 1, 2, 2, 0};
static MeshSpec to_frame(const MeshSpec& m, int frame)
{
  MeshSpec r = m;
  double sc = FRAME_SCALE[frame];
  double t[3] = {0., 0., 0.};
  if (FRAME_SHIFT[frame] == 1) { t[0] = 524288.; t[1] = 4194304.; t[2] = 1048576.; }
  if (FRAME_SHIFT[frame] == 2) { t[0] = 652000.37; t[1] = 4815000.21; t[2] = 1234567.89; }
  if (m.kind == 0)
  {
    for (size_t d = 0; d < r.dx.size(); d++) r.dx[d] *= sc;
    for (size_t d = 0; d < r.x0.size(); d++) r.x0[d] = sc * r.x0[d] + t[d];
  }
  else
    for (auto& a : r.apices) for (size_t d = 0; d < a.size(); d++) a[d] = sc * a[d] + t[d];
  if (frame > 0) r.desc += " frame: scale=" + fmt(sc) + " shift=" + (FRAME_SHIFT[frame] == 0 ? "0" : FRAME_SHIFT[frame] == 1 ? "(2^19,2^22,2^20)" : "(652000.37,4815000.21,1234567.89)");
  return r;
}

// query points of the projection part: dyadic barycentric menus in every cell (inside, on faces, on apices, across faces) + far outside points.
// The enumeration order only depends on the numbering of cells and apices: the same mesh in another frame gives corresponding points.
static void gen_query_points(const AMesh* mesh, const std::vector<Cell>& cells, int ndim, const std::vector<std::vector<double>>& W,
                             std::vector<EV>& pts, std::vector<int>& must_in)
{
  int na = mesh->getNApices();
    std::map<std::vector<int>, int> facecount;
  for (auto& c : cells)
    for (int k = 0; k <= ndim; k++)
    {
      std::vector<int> f;
      for (int r = 0; r <= ndim; r++) if (r != k) f.push_back(c.ap[r]);
      std::sort(f.begin(), f.end());
      facecount[f]++;
    }
  double cmin = 1e300, cmax = -1e300;
  for (int ia = 0; ia < na; ia++) for (int d = 0; d < ndim; d++) { double v = mesh->getApexCoor(ia, d); cmin = std::min(cmin, v); cmax = std::max(cmax, v); }
  for (int s2 = 0; s2 < 2; s2++) { EV p(ndim); for (int d = 0; d < ndim; d++) p[d] = s2 == 0 ? cmin - 10. - d : cmax + 7.5 + d; pts.push_back(p); must_in.push_back(0); }
  for (auto& c : cells)
    for (auto& w : W)
      for (int rot = 0; rot <= ndim; rot++)
      {
        EV p = EV::Zero(ndim);
        int nzero = 0, zeroat = -1; bool neg = false;
        for (int r = 0; r <= ndim; r++)
        {
          double wr = w[(r + rot) % (ndim + 1)];
          if (wr == 0) { nzero++; zeroat = r; }
          if (wr < 0) neg = true;
          if (r > 0) for (int d = 0; d < ndim; d++) p[d] += wr * (c.T(d, r) - c.T(d, 0));
        }
        for (int d = 0; d < ndim; d++) p[d] += c.T(d, 0);  // p = a_0 + sum_r w_r (a_r - a_0): the weights sum to 1
        int must = 0;
        if (!neg && nzero == 0) must = 1;
        if (!neg && nzero == 1)
        {
          std::vector<int> f;
          for (int r = 0; r <= ndim; r++) if (r != zeroat) f.push_back(c.ap[r]);
          std::sort(f.begin(), f.end());
          if (facecount[f] >= 2) must = 1;
        }
        pts.push_back(p); must_in.push_back(must);
      }
  { EV p(ndim); for (int d = 0; d < ndim; d++) p[d] = cmax + 100.; pts.push_back(p); must_in.push_back(0); }
}

VF_PART(projection)
{
  auto meshes = mesh_menu(C.thorough(), 0);
  Space sp;
  // order: 0 = inside points first, boundary points next, outside points last; 1 = generation order (outside points interleaved, two first)
  // filter: 0 = all samples, 1 = a selection and undefined Z values with rankZ=0
  // frame: 0 = the mesh as in the menu; 1..6 = scaled and / or shifted (see to_frame)
  sp.axis("mesh", (int)meshes.size()).axis("order", 2).axis("filter", 2).axis("frame", NFRAME);
  for_each_case(C, sp, [&](uint64_t id, const std::vector<int>& idx) {
    int ord = idx[1], filter = idx[2], frame = idx[3];
    if (frame > 0 && filter == 1 && !C.thorough()) return;  // (quick: the filtered layouts only in the original frame)
    const MeshSpec ms = to_frame(meshes[idx[0]], frame);
    int ndim = ms.ndim;
    std::string kase = std::to_string(id);
    std::string mk = std::string(ms.kind == 0 ? "turbo" : "std") + std::to_string(ndim) + "d";
    std::string lay = " order=" + std::to_string(ord) + " filter=" + std::to_string(filter);
    C.outcome("frame=" + std::to_string(frame));
    defineDefaultSpace(ESpaceType::RN, ndim);
    std::unique_ptr<AMesh> mesh(build_mesh(ms));
    if (!mesh) { C.violation("setup:null", "mesh not built: " + ms.desc, kase); return; }
    auto cells = cells_of(mesh.get(), ndim);
    int na = mesh->getNApices();
    // ---- query points
    std::vector<EV> pts;
    std::vector<int> must_in;  // 1: generated strictly inside a cell or strictly inside a face shared by two cells
    auto W = bary_menu(ndim, C.thorough());
    gen_query_points(mesh.get(), cells, ndim, W, pts, must_in);
    // Conditioning of the question itself: a coordinate of magnitude X is only known to ulp(X), i.e. a barycentric weight in a cell of size h to
    // ulp(X)/h. The tolerance on the weights follows that bound (16 ulp(Xmax)/hmin, at least 1e-12); an error growing like X*Y/h^2 is far above it.
    double xmax = 0, hmin = 1e300;
    for (auto& c : cells)
      for (int r1 = 0; r1 <= ndim; r1++) for (int r2 = r1 + 1; r2 <= ndim; r2++)
      { double l2 = 0; for (int d = 0; d < ndim; d++) { l2 += (c.T(d, r1) - c.T(d, r2)) * (c.T(d, r1) - c.T(d, r2)); xmax = std::max(xmax, std::fabs(c.T(d, r1))); } hmin = std::min(hmin, std::sqrt(l2)); }
    const double tolw_in = std::max(1e-12, 16. * 2.220446049250313e-16 * xmax / std::max(hmin, 1e-300));
    double hmesh = 0;  // extent of the mesh: the length scale of every tolerance (NOT the magnitude of the coordinates)
    for (int d = 0; d < ndim; d++) { double lo = 1e300, hi = -1e300; for (int ia = 0; ia < na; ia++) { double v = mesh->getApexCoor(ia, d); lo = std::min(lo, v); hi = std::max(hi, v); } hmesh = std::max(hmesh, hi - lo); }
    int np = (int)pts.size();
    // ---- reference classification: best margin over all cells
    std::vector<double> marg(np);
    std::vector<int> cls(np);  // 0 inside, 1 boundary band, 2 outside
    for (int i = 0; i < np; i++)
    {
      double m = -1e300;
      for (auto& c : cells) { EV b = c.bary(pts[i]); m = std::max(m, b.minCoeff()); }
      marg[i] = m;
      cls[i] = (m > 1e-7 || (must_in[i] && m > -1e-12)) ? 0 : (m < -1e-4 ? 2 : 1);
    }
    std::vector<int> sorted(np), gen(np);
    for (int i = 0; i < np; i++) gen[i] = sorted[i] = i;
    std::stable_sort(sorted.begin(), sorted.end(), [&](int a2, int b2) { return cls[a2] < cls[b2]; });
    // ---- run the library on one layout
    struct Run { bool ok = false; int nrows = 0, ncols = 0; EM A; std::vector<int> kept; /* point index per expected row */ };
    auto run = [&](const std::vector<int>& order, int filt) -> Run {
      Run r;
      std::vector<std::vector<double>> X(ndim, std::vector<double>(np)), Z(1, std::vector<double>(np, 1.));
      for (int i = 0; i < np; i++) for (int d = 0; d < ndim; d++) X[d][i] = pts[order[i]][d];
      std::unique_ptr<Db> db;
      if (filt == 1)
      {
        std::vector<double> sel(np, 1.);
        for (int i = 0; i < np; i++) { if (i % 5 == 1) sel[i] = 0.; if (i % 7 == 3) Z[0][i] = TEST; }
        std::vector<std::vector<double>> cols; std::vector<std::string> names, locs;
        for (int d = 0; d < ndim; d++) { cols.push_back(X[d]); names.push_back("x" + std::to_string(d + 1)); locs.push_back("x" + std::to_string(d + 1)); }
        cols.push_back(Z[0]); names.push_back("z1"); locs.push_back("z1");
        cols.push_back(sel); names.push_back("sel"); locs.push_back("sel");
        db.reset(make_db(cols, names, locs));
        for (int i = 0; i < np; i++) if (sel[i] != 0. && !FFFF(Z[0][i])) r.kept.push_back(order[i]);
      }
      else
      {
        db.reset(make_db_xz(X, Z));
        for (int i = 0; i < np; i++) r.kept.push_back(order[i]);
      }
      if (!db) return r;
      ProjMatrix proj(db.get(), mesh.get(), filt == 1 ? 0 : -1, false);
      r.nrows = proj.getNRows(); r.ncols = proj.getNCols();
      r.A = EM::Zero(std::max<int>(r.nrows, (int)r.kept.size()), na);
      if (r.ncols == na || r.nrows == 0)
        for (int i = 0; i < r.nrows; i++) for (int j = 0; j < std::min(na, r.ncols); j++) r.A(i, j) = proj.getValue(i, j);
      r.ok = true;
      return r;
    };
    Run R = run(ord == 0 ? sorted : gen, filter);
    C.eval();
    if (!R.ok) { C.violation("setup:null", "db not built", kase); return; }
    int nexp = (int)R.kept.size();
    std::vector<std::pair<std::string, std::string>> pend;  // violations of this case (flushed at the end, see the shift diagnosis)
    if (R.ncols != na || R.nrows > nexp)
    {
      C.violation("proj:shape:" + mk, "ProjMatrix is " + std::to_string(R.nrows) + "x" + std::to_string(R.ncols) + ", expected " + std::to_string(nexp) + "x" + std::to_string(na) + " : " + ms.desc + lay, kase);
      return;
    }
    if (R.nrows < nexp)
    {
      // rows are missing: one mechanism is known (no row at all for trailing samples outside the mesh); anything else is generic
      bool trailing_outside = true;
      for (int row = R.nrows; row < nexp; row++) if (cls[R.kept[row]] == 0) trailing_outside = false;
      std::string t = "ProjMatrix has " + std::to_string(R.nrows) + " rows for " + std::to_string(nexp) + " active samples (the last " + std::to_string(nexp - R.nrows) + " samples lie outside the mesh): " + ms.desc + lay;
      if (trailing_outside) C.violation("proj:rows-missing-for-trailing-outside-samples:" + std::string(ms.kind == 0 ? "turbo" : "std"), t, kase);
      else { C.violation("proj:shape:" + mk, t, kase); return; }
      C.outcome("rows-missing-at-end");
    }
    EM XA(na, ndim);
    for (int ia = 0; ia < na; ia++) for (int d = 0; d < ndim; d++) XA(ia, d) = mesh->getApexCoor(ia, d);
    uint64_t nin = 0, nout = 0, nband = 0;
    for (int row = 0; row < nexp; row++)
    {
      int ip = R.kept[row];
      const EV& p = pts[ip];
      EV w = R.A.row(row).transpose();
      double sum = w.sum(), wmin = w.minCoeff();
      bool empty = (w.cwiseAbs().maxCoeff() == 0.);
      std::string pstr = "point " + vstr(std::vector<double>(p.data(), p.data() + ndim)) + " (row " + std::to_string(row) + ") " + ms.desc + lay;
      auto judge_row = [&](double tolw) {
        if (!(wmin >= -tolw)) pend.push_back({"proj:negative-weight:" + mk, "weight " + fmt(wmin) + " at " + pstr});
        if (!(std::fabs(sum - 1.) <= std::max(tolw, 1e-12) * (ndim + 1))) pend.push_back({"proj:sum-not-one:" + mk, "weights sum to " + fmt(sum) + " at " + pstr});
        // affine reproduction evaluated in coordinates local to the point: sum_k w_k (x_k - p) = 0 (translation invariant, no cancellation)
        EV rep = EV::Zero(ndim);
        for (int k = 0; k < na; k++) if (w[k] != 0) for (int d = 0; d < ndim; d++) rep[d] += w[k] * (XA(k, d) - p[d]);
        double dev = rep.cwiseAbs().maxCoeff();
        if (!(dev <= std::max(tolw * 10, 1e-9) * hmesh))
          pend.push_back({"proj:affine-not-reproduced:" + mk, "sum w_k x_k differs from the point by " + fmt(dev) + " at " + pstr + " weights " + vstr(std::vector<double>(w.data(), w.data() + na))});
        int nnz = 0; for (int k = 0; k < na; k++) if (w[k] != 0) nnz++;
        if (nnz > ndim + 1) pend.push_back({"proj:too-many-weights:" + mk, std::to_string(nnz) + " non zero weights at " + pstr});
      };
      if (cls[ip] == 0)
      {
        nin++;
        if (empty) pend.push_back({"proj:empty-row-inside:" + mk, "empty row for a point inside the mesh (margin " + fmt(marg[ip]) + "): " + pstr});
        else judge_row(tolw_in);
        C.outcome(marg[ip] > 1e-7 ? "inside-cell" : "inside-on-shared-face");
      }
      else if (cls[ip] == 2)
      {
        nout++;
        if (!empty) pend.push_back({"proj:row-not-empty-outside:" + mk, "non empty row (sum " + fmt(sum) + ") for a point outside every cell (best margin " + fmt(marg[ip]) + "): " + pstr});
        C.outcome("outside");
      }
      else
      {  // on the boundary of the mesh: the property leaves latitude on emptiness; a non empty row must still be a valid one
        nband++; C.skip();
        if (!empty) { judge_row(1e-5); C.outcome("boundary-nonempty-judged"); }
        else C.outcome("boundary-empty-excluded");
      }
    }
    if (!pend.empty() && ord == 1)
    {
      // Diagnosis of ONE known mechanism: samples outside the grid are skipped without consuming a row, so that all the following rows move up.
      // Per-sample rows come from the sorted layout (outside samples last) of the same filter, which is judged on its own as a separate case.
      Run S = run(sorted, 0);
      std::map<int, EV> wref;
      if (S.ok && S.ncols == na) for (int row = 0; row < (int)S.kept.size(); row++) wref[S.kept[row]] = S.A.row(row).transpose();
      std::vector<EV> got, want;
      for (int row = 0; row < nexp; row++)
      {
        EV w = R.A.row(row).transpose();
        if (w.cwiseAbs().maxCoeff() != 0.) got.push_back(w);
        auto it = wref.find(R.kept[row]);
        if (it != wref.end() && it->second.cwiseAbs().maxCoeff() != 0.) want.push_back(it->second);
      }
      bool displaced = false;  // at least one sample whose row does not hold its own weights
      for (int row = 0; row < nexp; row++) { auto it = wref.find(R.kept[row]); if (it != wref.end() && it->second != EV(R.A.row(row).transpose())) displaced = true; }
      bool shifted = displaced && got.size() == want.size() && !got.empty();
      for (size_t k = 0; shifted && k < got.size(); k++) if (got[k] != want[k]) shifted = false;
      if (shifted)
      {
        std::string first = pend[0].second;
        pend.clear();
        pend.push_back({"proj:rows-shifted-after-sample-outside-grid:" + std::string(ms.kind == 0 ? "turbo" : "std"),
                        "the non empty rows are the right ones but stored at earlier row indices: rows no longer correspond to samples (first symptom: " + first + ")"});
        C.outcome("rows-shifted");
      }
    }
    // ---- invariance under the change of frame: the weights of the points strictly inside one cell are those of the same point of the same mesh
    // in the original frame (they are ratios of volumes)
    if (frame > 0 && filter == 0 && R.nrows == nexp)
    {
      std::unique_ptr<AMesh> mesh0(build_mesh(meshes[idx[0]]));
      auto cells0 = cells_of(mesh0.get(), ndim);
      std::vector<EV> pts0; std::vector<int> must0;
      gen_query_points(mesh0.get(), cells0, ndim, W, pts0, must0);
      if ((int)pts0.size() == np && mesh0->getNApices() == na)
      {
        std::vector<std::vector<double>> X0(ndim, std::vector<double>(np)), Z0(1, std::vector<double>(np, 1.));
        for (int i = 0; i < np; i++) for (int d = 0; d < ndim; d++) X0[d][i] = pts0[R.kept[i]][d];
        std::unique_ptr<Db> db0(make_db_xz(X0, Z0));
        ProjMatrix proj0(db0.get(), mesh0.get(), -1, false);
        double worst = 0; int wrow = -1;
        if (proj0.getNRows() == np && proj0.getNCols() == na)
          for (int row = 0; row < np; row++)
          {
            int ip = R.kept[row];
            if (!(cls[ip] == 0 && marg[ip] > 1e-7)) continue;
            for (int k = 0; k < na; k++) { double dlt = std::fabs(proj0.getValue(row, k) - R.A(row, k)); if (dlt > worst) { worst = dlt; wrow = row; } }
          }
        if (!(worst <= std::max(1e-9, 4 * tolw_in)))
          pend.push_back({"proj:weights-depend-on-the-frame:" + mk, "weights of the same point of the same mesh change by " + fmt(worst) + " when the mesh is scaled/shifted (row " + std::to_string(wrow) +
                          ", point " + vstr(std::vector<double>(pts[R.kept[std::max(wrow, 0)]].data(), pts[R.kept[std::max(wrow, 0)]].data() + ndim)) + ") " + ms.desc + lay});
        C.outcome(worst == 0 ? "frame-invariance:bitwise" : worst <= 1e-12 ? "frame-invariance:<1e-12" : worst <= 1e-9 ? "frame-invariance:<1e-9" : worst <= 4 * tolw_in ? "frame-invariance:within-ulp(X)/h" : "frame-invariance:BROKEN");
      }
    }
    for (auto& pv : pend) C.violation(pv.first, pv.second, kase);
    if (nin > 0 && nout > 0) C.nontrivial(id);
    if (id % 97 == 0) C.sample("{\"id\":" + std::to_string(id) + ",\"mesh\":" + jstr(ms.desc) + ",\"order\":" + std::to_string(ord) + ",\"filter\":" + std::to_string(filter) + ",\"inside\":" + std::to_string(nin) + ",\"outside\":" + std::to_string(nout) + ",\"boundary\":" + std::to_string(nband) + "}");
  });
}

// ================================================================================================
// solvers: SPDE kriging / likelihood through sparse Cholesky and through the matrix free conjugate gradient
struct KrigRun
{
  bool ok = false;
  int rc = 0;
  std::vector<double> est;                // kriging estimate at the targets
  EV x, b;                                // solution and right-hand side of the linear system (all structures, flattened)
  std::vector<double> var, zc;            // data variances, centred data
  std::vector<EM> proj;                   // projection matrices per structure (ndat x napices)
  double quad = NAN, logdetTotal = NAN, logdetOp = NAN, loglik = NAN;
};
static KrigRun run_spde(Model* model, Db* data, Db* target, const AMesh* mesh, int useChol, int withLik)
{
  KrigRun r;
  SPDE spde(model, target, data, ESPDECalcMode::KRIGING, mesh, useChol, SPDEParam(), false, false);
  if (spde._precisionsKrig == nullptr || spde._precisionsKrig->sizes() == 0) return r;
  int iptr = spde.compute(target, 1, NamingConvention("k"));
  if (iptr <= 0) { r.rc = iptr; return r; }
  VectorDouble e = target->getColumnByUID(iptr);
  r.est.assign(e.begin(), e.end());
  std::vector<double> xf;
  for (auto& v : spde._workingKrig) xf.insert(xf.end(), v.begin(), v.end());
  r.x = Eigen::Map<EV>(xf.data(), xf.size());
  auto rhs = spde._precisionsKrig->computeRhs(spde._workingData);
  std::vector<double> bf;
  for (auto& v : rhs) bf.insert(bf.end(), v.begin(), v.end());
  r.b = Eigen::Map<EV>(bf.data(), bf.size());
  VectorDouble vv = spde._precisionsKrig->getAllVarianceData();
  r.var.assign(vv.begin(), vv.end());
  r.zc = spde._workingData;
  for (int i = 0; i < spde._precisionsKrig->sizes(); i++) r.proj.push_back(dense(spde._precisionsKrig->getProjMatrix(i)));
  // likelihood pieces. In matrix free mode every log-determinant call fits Chebyshev polynomials through a 2^20 point FFT (~0.3 s):
  // lik = 2 -> everything, lik = 1 -> quadratic term only
  if (withLik >= 1) r.quad = spde.computeQuad();
  if (withLik >= 2)
  {
    law_set_random_seed(13579);
    r.logdetOp = spde._precisionsKrig->computeLogDetOp(1);
    if (useChol == 1)
    {
      r.logdetTotal = spde.computeLogDet(1);
      r.loglik = spde.computeLogLikelihood(1, false);
    }
  }
  target->deleteColumnByUID(iptr);
  r.ok = true;
  return r;
}

VF_PART(solvers)
{
  auto meshes = mesh_menu(C.thorough(), 1);
  Space sp;
  // structure: 0 one Matern, 1 Matern + nugget, 2 two Matern + nugget
  // layout = 4 crossed bits: 1 selection masking samples in the middle, 2 undefined Z values in the middle, 4 measurement error variances (locator V,
  // all values distinct), 8 samples stored in reverse order
  sp.axis("mesh", (int)meshes.size()).axis("model", C.thorough() ? 10 : 3).axis("structure", 3).axis("layout", 16);
  for_each_case(C, sp, [&](uint64_t id, const std::vector<int>& idx) {
    const MeshSpec& ms = meshes[idx[0]];
    int ndim = ms.ndim, imod = idx[1], istr = idx[2], layout = idx[3];
    std::string kase = std::to_string(id);
    std::string mk = std::string(ms.kind == 0 ? "turbo" : "std") + std::to_string(ndim) + "d";
    defineDefaultSpace(ESpaceType::RN, ndim);
    std::unique_ptr<AMesh> mesh(build_mesh(ms));
    // models: a sub menu of the Matern menu
    auto mm = model_menu(ndim, true);
    std::vector<ModelSpec> sub;
    for (auto& m : mm) if (m.type == 0 && m.sill == 1. && ((m.aniso == 0 && m.range == 1.5) || (m.aniso == 2 && m.range == 4.) || (ndim == 1 && m.range == 4.))) sub.push_back(m);
    if (imod >= (int)sub.size()) return;
    const ModelSpec& mo = sub[imod];
    std::unique_ptr<Model> model(build_model(mo, ndim));
    if (!mesh || !model) { C.violation("setup:null", "mesh or model not built", kase); return; }
    if (istr == 2)
    {
      VectorDouble ranges(ndim, 3.);
      model->addCovFromParam(ECov::MATERN, 3., 0.5, ndim == 2 ? 1. : 0.5, ranges, VectorDouble(), VectorDouble(), true);
    }
    if (istr >= 1) model->addCovFromParam(ECov::NUGGET, 0., 0.25);
    std::string what0 = ms.desc + " | " + mo.desc + " structure=" + std::to_string(istr) + " layout=" + std::to_string(layout);
    if (C.verbose) fprintf(stderr, "case %s: %s\n", kase.c_str(), what0.c_str());
    // data: points strictly inside cells; targets: centroids
    auto cells = cells_of(mesh.get(), ndim);
    std::vector<std::vector<double>> X(ndim), Z(1), T(ndim);
    int nd = 0;
    for (size_t ic = 0; ic < cells.size(); ic += std::max<size_t>(1, cells.size() / 7))
      for (int rep = 0; rep < 2; rep++)
      {  // two points per chosen cell
        EV w(ndim + 1);
        for (int r = 0; r <= ndim; r++) w[r] = r == 0 ? 0.5 : 0.5 / ndim;
        if (rep == 1) { w[0] = 0.125; w[ndim] = 0.625; for (int r = 1; r < ndim; r++) w[r] = 0.25 / (ndim - 1); if (ndim == 1) w[1] = 0.875; }
        else if ((nd / 2) % 2 == 1 && ndim >= 2) { w[0] = 0.25; w[1] = 0.5; for (int r = 2; r <= ndim; r++) w[r] = 0.25 / (ndim - 1); }
        for (int d = 0; d < ndim; d++) { double v = 0; for (int r = 0; r <= ndim; r++) v += w[r] * cells[ic].T(d, r); X[d].push_back(v); }
        Z[0].push_back((double)((nd * 5) % 7 - 3) / 2.);
        nd++;
      }
    for (auto& c : cells) for (int d = 0; d < ndim; d++) { double v = 0; for (int r = 0; r <= ndim; r++) v += c.T(d, r) / (ndim + 1.); T[d].push_back(v); }
    bool bsel = layout & 1, bundef = layout & 2, bverr = layout & 4, brev = layout & 8;
    if ((bsel || bundef) && nd < 6) return;  // not enough samples to mask some in the middle (not a case)
    std::vector<double> selv(nd, 1.), verr(nd), zval = Z[0];
    for (int i = 0; i < nd; i++) verr[i] = 0.0625 + 0.03125 * i;  // all distinct, all above the epsNugget floor
    if (bsel) { selv[1] = 0.; if (nd >= 8) selv[nd / 2] = 0.; }
    if (bundef) { zval[2] = TEST; if (nd >= 8) zval[nd - 2] = TEST; }
    std::vector<int> order(nd);
    for (int i = 0; i < nd; i++) order[i] = brev ? nd - 1 - i : i;
    // reference: the samples that count (active and defined), in storage order, with their value and noise variance
    std::vector<int> keep;
    for (int k = 0; k < nd; k++) { int i = order[k]; if (selv[i] != 0. && !FFFF(zval[i])) keep.push_back(i); }
    auto build_db = [&](const std::vector<int>& which, bool withsel) -> Db* {
      std::vector<std::vector<double>> cols(ndim); std::vector<std::string> names, locs;
      for (int d = 0; d < ndim; d++) { for (int i : which) cols[d].push_back(X[d][i]); names.push_back("x" + std::to_string(d + 1)); locs.push_back("x" + std::to_string(d + 1)); }
      std::vector<double> c; for (int i : which) c.push_back(zval[i]);
      cols.push_back(c); names.push_back("z1"); locs.push_back("z1");
      if (withsel) { c.clear(); for (int i : which) c.push_back(selv[i]); cols.push_back(c); names.push_back("sel"); locs.push_back("sel"); }
      if (bverr) { c.clear(); for (int i : which) c.push_back(verr[i]); cols.push_back(c); names.push_back("v1"); locs.push_back("v1"); }
      return make_db(cols, names, locs);
    };
    std::unique_ptr<Db> data(build_db(order, bsel));
    std::unique_ptr<Db> target(make_db_xz(T, {}));
    if (!data || !target) { C.violation("setup:null", "db not built", kase); return; }
    bool cgdet = (layout == 0 && imod == 0) || (C.thorough() && (layout == 0 || layout == 7));
    KrigRun ch = run_spde(model.get(), data.get(), target.get(), mesh.get(), 1, 2);
    KrigRun cg = run_spde(model.get(), data.get(), target.get(), mesh.get(), 0, cgdet ? 2 : 1);
    C.eval();
    if (!ch.ok || !cg.ok) { C.violation("solve:spde-failed:" + mk, "SPDE kriging failed (cholesky ok=" + std::to_string(ch.ok) + ", cg ok=" + std::to_string(cg.ok) + ") " + what0, kase); return; }
    // ---- independent reference of the data vector and of the noise variances D (from the Db content, active and defined samples only):
    // measurement error variance of the sample when a V locator exists, else max(nugget, epsNugget * total sill of the Matern structures)
    std::vector<double> dref, zref;
    {
      double totsill = 0, nug = 0;
      for (int ic = 0; ic < model->getCovaNumber(); ic++) { if (model->getCova(ic)->getType() == ECov::NUGGET) nug = model->getCova(ic)->getSill(0, 0); else totsill += model->getCova(ic)->getSill(0, 0); }
      double floorv = SPDEParam().getEpsNugget() * totsill;
      for (int i : keep) { zref.push_back(zval[i]); dref.push_back(bverr ? std::max(verr[i], floorv) : std::max(nug, floorv)); }
    }
    auto same_vec = [](const std::vector<double>& a, const std::vector<double>& b) { if (a.size() != b.size()) return false; for (size_t i = 0; i < a.size(); i++) if (!close(a[i], b[i], 1e-12, 1e-12)) return false; return true; };
    for (const KrigRun* kr : {&ch, &cg})
    {
      std::string mode = kr == &ch ? "cholesky" : "cg";
      if (!same_vec(kr->var, dref))
      { C.violation("solve:data-variances-not-those-of-the-active-samples:" + mode, "noise variances used " + vstr(kr->var) + " but the active, defined samples have " + vstr(dref) + " : " + what0, kase); }
      if (!same_vec(kr->zc, zref))
      { C.violation("solve:data-values-not-those-of-the-active-samples:" + mode, "data vector used " + vstr(kr->zc) + " but the active, defined samples have " + vstr(zref) + " : " + what0, kase); }
    }
    if (ch.var.size() != dref.size()) return;
    ch.var = dref;  // everything below is judged against the reference D
    // ---- the system assembled by the harness
    int ncov = (int)ch.proj.size();
    std::vector<EM> Qs;
    int ntot = 0;
    for (int ic = 0, k = 0; ic < model->getCovaNumber(); ic++)
    {
      if (model->getCova(ic)->getType() == ECov::NUGGET) continue;
      PrecisionOpCs q(mesh.get(), model->getCova(ic));
      Qs.push_back(dense(q.getQ())); ntot += q.getSize(); k++;
    }
    if ((int)Qs.size() != ncov || ch.x.size() != ntot || cg.x.size() != ntot || ch.b.size() != ntot || cg.b.size() != ntot || cg.proj.size() != ch.proj.size())
    { C.violation("solve:size:" + mk, "sizes do not match the model: " + what0, kase); return; }
    int ndat = (int)ch.var.size();
    EM Aall(ndat, ntot), Qb = EM::Zero(ntot, ntot);
    for (int ic = 0, off = 0; ic < ncov; ic++)
    {
      int n = (int)Qs[ic].rows();
      if (ch.proj[ic].rows() != ndat || ch.proj[ic].cols() != n) { C.violation("solve:size:" + mk, "projection matrix of the data has the wrong shape: " + what0, kase); return; }
      Aall.block(0, off, ndat, n) = ch.proj[ic];
      Qb.block(off, off, n, n) = Qs[ic];
      off += n;
    }
    EV dinv(ndat); for (int i = 0; i < ndat; i++) dinv[i] = 1. / ch.var[i];
    EM Ac = Qb + Aall.transpose() * dinv.asDiagonal() * Aall;
    Ac = 0.5 * (Ac + Ac.transpose());
    Eigen::SelfAdjointEigenSolver<EM> es(Ac);
    double lmin = es.eigenvalues().minCoeff(), lmax = es.eigenvalues().maxCoeff();
    if (!(lmin > 0) || lmax / lmin > 1e10) { C.skip(); C.outcome("excluded-ill-conditioned"); return; }
    // same data, same rhs in both modes
    if ((cg.b - ch.b).cwiseAbs().maxCoeff() > 1e-12 * std::max(1., ch.b.cwiseAbs().maxCoeff()))
      C.violation("solve:rhs-differs-between-modes:" + mk, "right-hand side or data variances differ between Cholesky and CG modes: " + what0, kase);
    {
      EV zr = Eigen::Map<const EV>(zref.data(), zref.size());
      EV bref = Aall.transpose() * (dinv.asDiagonal() * zr);
      double db = (bref - ch.b).cwiseAbs().maxCoeff();
      if (!(db <= 1e-10 * std::max(1., bref.cwiseAbs().maxCoeff())))
        C.violation("solve:rhs-not-that-of-the-active-samples:" + mk, "right-hand side differs from A' D^-1 z of the active samples by " + fmt(db) + " : " + what0, kase);
    }
    EV xs = Ac.ldlt().solve(ch.b);
    // ---- residuals
    double nb = 0;  // the library's normalisation: sum of the Euclidean norms of the blocks of b
    for (int ic = 0, off = 0; ic < ncov; ic++) { int n = (int)Qs[ic].rows(); nb += ch.b.segment(off, n).norm(); off += n; }
    double bscale = Ac.cwiseAbs().rowwise().sum().maxCoeff() * std::max(ch.x.cwiseAbs().maxCoeff(), xs.cwiseAbs().maxCoeff()) + ch.b.cwiseAbs().maxCoeff();
    EV rch = ch.b - Ac * ch.x, rcg = cg.b - Ac * cg.x;
    if (!(rch.cwiseAbs().maxCoeff() <= 1e-11 * bscale))
      C.violation("solve:residual:cholesky:" + mk, "Cholesky solution leaves residual " + fmt(rch.cwiseAbs().maxCoeff()) + " (scale " + fmt(bscale) + ") " + what0, kase);
    const double eps = 1e-8;  // ALinearOpMulti default: stop when r'r / sum_i ||b_i|| <= eps
    double crit = nb > 0 ? rcg.squaredNorm() / nb : rcg.squaredNorm();
    if (!(crit <= eps * 1.001 + 1e-24 * bscale * bscale))
      C.violation("solve:residual:cg:" + mk, "conjugate gradient stopped with r'r/sum||b_i|| = " + fmt(crit) + " > eps = 1e-8 (||r|| = " + fmt(rcg.norm()) + ") " + what0, kase);
    // ---- Cholesky vs CG on the estimates: |est_cg - est_ch| <= ncov * (||x_cg - x*|| + ||x_ch - x*||), ||x - x*|| <= ||r|| / lambda_min
    double bound = ncov * (rcg.norm() + rch.norm()) / lmin * 1.001 + 1e-12 * std::max(1., xs.cwiseAbs().maxCoeff());
    double bound_tol = ncov * std::sqrt(eps * std::max(nb, 1e-300)) / lmin * 1.001 + 1e-12 * std::max(1., xs.cwiseAbs().maxCoeff());
    double dmax = 0;
    if (ch.est.size() != cg.est.size() || ch.est.size() != T[0].size()) { C.violation("solve:size:" + mk, "number of estimates " + std::to_string(ch.est.size()) + " / " + std::to_string(cg.est.size()) + " for " + std::to_string(T[0].size()) + " targets: " + what0, kase); return; }
    for (size_t i = 0; i < ch.est.size(); i++) dmax = std::max(dmax, std::fabs(ch.est[i] - cg.est[i]));
    bool estfinite = true; for (double v : ch.est) if (!std::isfinite(v)) estfinite = false; for (double v : cg.est) if (!std::isfinite(v)) estfinite = false;
    if (!estfinite || !(dmax <= std::min(bound, bound_tol)))
      C.violation("solve:cholesky-vs-cg:estimate:" + mk, "kriging estimates differ by " + fmt(dmax) + " > bound " + fmt(std::min(bound, bound_tol)) + " (solver tolerance / smallest eigenvalue " + fmt(lmin) + ") " + what0, kase);
    // the estimate is the projection of the solution (targets are centroids): est = sum_structures P_target x
    {
      ProjMatrix pt(target.get(), mesh.get());
      EM PT = dense(&pt);
      EV e = EV::Zero(PT.rows());
      for (int ic = 0, off = 0; ic < ncov; ic++) { int n = (int)Qs[ic].rows(); e += PT * xs.segment(off, n); off += n; }
      double de = 0; for (size_t i = 0; i < ch.est.size(); i++) de = std::max(de, std::fabs(ch.est[i] - e[i]));
      if (!(de <= 1e-9 * std::max(1., e.cwiseAbs().maxCoeff()) * (1. + lmax / lmin * 1e-3)))
        C.violation("solve:estimate-vs-dense-reference:" + mk, "Cholesky kriging estimate differs from the dense solve of the same system by " + fmt(de) + " " + what0, kase);
    }
    // ---- likelihood pieces
    EV z = Eigen::Map<const EV>(ch.zc.data(), ch.zc.size());
    if ((int)z.size() == ndat)
    {
      double quadref = z.dot(dinv.asDiagonal() * z) - ch.b.dot(xs);
      double qtolch = 1e-9 * std::max(1., std::fabs(quadref)) * (1. + lmax / lmin * 1e-4);
      double qtolcg = ch.b.norm() * std::sqrt(eps * std::max(nb, 1e-300)) / lmin * 1.001 + qtolch;
      if (!(std::fabs(ch.quad - quadref) <= qtolch)) C.violation("loglik:quad:cholesky:" + mk, "quadratic term " + fmt(ch.quad) + " vs dense reference " + fmt(quadref) + " " + what0, kase);
      if (!(std::fabs(cg.quad - quadref) <= qtolcg)) C.violation("loglik:quad:cg:" + mk, "quadratic term " + fmt(cg.quad) + " vs dense reference " + fmt(quadref) + " (tolerance " + fmt(qtolcg) + ") " + what0, kase);
      // log|Sigma| with Sigma = A Q^-1 A' + D
      EM Sigma = Aall * Qb.ldlt().solve(Aall.transpose());
      for (int i = 0; i < ndat; i++) Sigma(i, i) += ch.var[i];
      Sigma = 0.5 * (Sigma + Sigma.transpose());
      Eigen::SelfAdjointEigenSolver<EM> e2(Sigma);
      double ldref = 0; for (int i = 0; i < ndat; i++) ldref += std::log(e2.eigenvalues()[i]);
      double ldop = 0; for (int i = 0; i < ntot; i++) ldop += std::log(es.eigenvalues()[i]);
      if (!(std::fabs(ch.logdetTotal - ldref) <= 1e-8 * std::max(1., std::fabs(ldref)) * (1. + std::log10(lmax / lmin))))
        C.violation("loglik:logdet:cholesky:" + mk, "log-determinant " + fmt(ch.logdetTotal) + " vs dense reference log|A Q^-1 A' + D| = " + fmt(ldref) + " " + what0, kase);
      double llref = -0.5 * (ldref + quadref + ndat * std::log(2. * M_PI));
      if (!(std::fabs(ch.loglik - llref) <= 1e-8 * std::max(1., std::fabs(llref)) * (1. + std::log10(lmax / lmin)) + qtolch))
        C.violation("loglik:value:cholesky:" + mk, "log-likelihood " + fmt(ch.loglik) + " vs dense reference " + fmt(llref) + " " + what0, kase);
      // matrix free mode: the log-determinant of the conditional operator Q + A' D^-1 A is a Monte-Carlo (Hutchinson) estimate z' log(Op) z.
      // It cannot agree "to the solver tolerance" with the exact value; what is judged is the one thing that does not depend on the draw:
      // an estimate that is EXACTLY zero although log(Op) != 0 means that nothing was computed.
      double lognorm = 0; for (int i = 0; i < ntot; i++) lognorm = std::max(lognorm, std::fabs(std::log(es.eigenvalues()[i])));
      if (!(std::fabs(ch.logdetOp - ldop) <= 1e-8 * std::max(1., std::fabs(ldop)) * (1. + std::log10(lmax / lmin))))
        C.violation("loglik:logdet-op:cholesky:" + mk, "log|Q + A'D^-1A| = " + fmt(ch.logdetOp) + " vs dense reference " + fmt(ldop) + " " + what0, kase);
      if (cgdet)
      {
        if (cg.logdetOp == 0. && lognorm > 1e-6 && std::fabs(ldop) > 1e-6)
          C.violation("loglik:cg:logdet-of-conditional-operator-is-zero", "matrix free computeLogDetOp returns exactly 0 for log|Q + A'D^-1A| (Cholesky mode and dense reference: " + fmt(ch.logdetOp) + " / " + fmt(ldop) + ") so that logLikelihoodSPDE(useCholesky=0) is off by half of it: " + what0, kase);
        C.outcome(cg.logdetOp == 0. ? "cg-logdetop-zero" : "cg-logdetop-nonzero");
      }
      double dq = std::fabs(cg.quad - ch.quad);
      C.outcome(dq == 0 ? "quad-equal" : dq < 1e-10 ? "quad-diff<1e-10" : dq < 1e-6 ? "quad-diff<1e-6" : "quad-diff>=1e-6");
    }
    else C.violation("solve:size:" + mk, "centred data vector has " + std::to_string(z.size()) + " values for " + std::to_string(ndat) + " variances: " + what0, kase);
    // ---- differential: masked / undefined samples vs the same samples physically removed from the Db (both solver paths)
    if (bsel || bundef)
    {
      std::unique_ptr<Db> red(build_db(keep, false));
      KrigRun ch2 = run_spde(model.get(), red.get(), target.get(), mesh.get(), 1, 2);
      KrigRun cg2 = run_spde(model.get(), red.get(), target.get(), mesh.get(), 0, 1);
      if (!ch2.ok || !cg2.ok || ch2.est.size() != ch.est.size() || cg2.est.size() != cg.est.size())
        C.violation("masked-vs-removed:run-failed:" + mk, "SPDE kriging on the physically reduced Db failed: " + what0, kase);
      else
      {
        double d1 = 0, d2 = 0, sc = 1;
        for (size_t i = 0; i < ch.est.size(); i++) { d1 = std::max(d1, std::fabs(ch.est[i] - ch2.est[i])); d2 = std::max(d2, std::fabs(cg.est[i] - cg2.est[i])); sc = std::max(sc, std::fabs(ch.est[i])); }
        double tol1 = 1e-9 * sc * (1. + lmax / lmin * 1e-3);
        if (!(d1 <= tol1)) C.violation("masked-vs-removed:estimate:cholesky:" + mk, "kriging with masked/undefined samples differs from kriging on the reduced Db by " + fmt(d1) + " : " + what0, kase);
        if (!(d2 <= 2 * bound_tol + tol1)) C.violation("masked-vs-removed:estimate:cg:" + mk, "CG kriging with masked/undefined samples differs from CG kriging on the reduced Db by " + fmt(d2) + " : " + what0, kase);
        auto rel = [](double a, double b) { return std::fabs(a - b) / std::max({1., std::fabs(a), std::fabs(b)}); };
        double tl = 1e-9 * (1. + std::log10(lmax / lmin)) * (1. + lmax / lmin * 1e-4);
        if (!(rel(ch.quad, ch2.quad) <= tl)) C.violation("masked-vs-removed:quad:cholesky:" + mk, "quadratic term " + fmt(ch.quad) + " (masked) vs " + fmt(ch2.quad) + " (removed) : " + what0, kase);
        if (!(rel(ch.logdetTotal, ch2.logdetTotal) <= tl)) C.violation("masked-vs-removed:logdet:cholesky:" + mk, "log-determinant " + fmt(ch.logdetTotal) + " (masked) vs " + fmt(ch2.logdetTotal) + " (removed) : " + what0, kase);
        if (!(rel(ch.loglik, ch2.loglik) <= tl)) C.violation("masked-vs-removed:loglik:cholesky:" + mk, "log-likelihood " + fmt(ch.loglik) + " (masked) vs " + fmt(ch2.loglik) + " (removed) : " + what0, kase);
        double qscale = std::max({1., std::fabs(cg.quad), std::fabs(cg2.quad)});
        if (!(std::fabs(cg.quad - cg2.quad) <= 2 * (ch.b.norm() * std::sqrt(eps * std::max(nb, 1e-300)) / lmin * 1.001) + 1e-9 * qscale * (1. + lmax / lmin * 1e-4)))
          C.violation("masked-vs-removed:quad:cg:" + mk, "CG quadratic term " + fmt(cg.quad) + " (masked) vs " + fmt(cg2.quad) + " (removed) : " + what0, kase);
        C.outcome(d1 == 0 ? "masked-vs-removed:bitwise" : "masked-vs-removed:within-tolerance");
      }
    }
    C.outcome(std::string("layout:") + (bsel ? "sel" : "-") + (bundef ? "+undef" : "") + (bverr ? "+V" : "") + (brev ? "+rev" : ""));
    C.outcome(dmax == 0 ? "est-equal" : dmax < 1e-10 ? "est-diff<1e-10" : dmax < 1e-7 ? "est-diff<1e-7" : dmax < 1e-4 ? "est-diff<1e-4" : "est-diff>=1e-4");
    C.outcome("ncov=" + std::to_string(ncov) + ",ndat=" + std::to_string(ndat));
    double rr = rcg.norm();
    C.outcome(rr == 0 ? "cg-residual=0" : rr < 1e-10 ? "cg-residual<1e-10" : rr < 1e-6 ? "cg-residual<1e-6" : "cg-residual>=1e-6");
    if (ndat >= 2 && ntot >= 3) C.nontrivial(id);
    if (id % 53 == 0) C.sample("{\"id\":" + std::to_string(id) + ",\"case\":" + jstr(what0) + ",\"ndat\":" + std::to_string(ndat) + ",\"n\":" + std::to_string(ntot) + ",\"est_diff\":" + fmt(dmax) + ",\"bound\":" + fmt(std::min(bound, bound_tol)) + ",\"cg_residual\":" + fmt(rr) + ",\"lambda_min\":" + fmt(lmin) + "}");
  });
}

int main(int argc, char** argv)
{
  return run_main(argc, argv, [](Ctx&) { silence(); });
}
