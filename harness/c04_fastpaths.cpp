// C04 — accelerated code paths give the same answers as the plain ones.
// One part per pair (fast path, reference path) named in the property statement; every part enumerates a
// product of small menus completely (engine E1), the history dependent ones enumerate call sequences (E2).
// Oracle = the two REAL paths agree (numerical policy of DESIGN 2.9).
#include "vf/c0405_menu.hpp"
#include "vf/bfs.hpp"
#include "vf/fork.hpp"

#include "Covariances/ACovAnisoList.hpp"
#include "Covariances/CovAniso.hpp"
#include "Matrix/MatrixRectangular.hpp"
#include "Matrix/MatrixSquareSymmetric.hpp"
#include "Estimation/CalcKriging.hpp"
#include "Neigh/NeighMoving.hpp"
#include "Calculators/CalcMigrate.hpp"
#include "Estimation/KrigingCalcul.hpp"
#include "Neigh/NeighUnique.hpp"

#include <Eigen/Dense>
using namespace vf;
using namespace vfm;

// =====================================================================================================
// Part 1: evalCovMatrixOptim / evalCovMatrixSymmetricOptim  vs  evalCovMatrix / evalCovMatrixSymmetric
// =====================================================================================================
namespace p1
{
struct Setup
{
  int ndim, ilay, n, nvar, im, selpat, upat, verr, db2kind;
  DbP db1, db2;
  ModelP model;
  std::string desc;
};
static const int NSEL = 5, NUPAT = 4, NDB2 = 3;
static VD selmask(int pat, int n)
{
  VD s(n, 1.);
  switch (pat)
  {
    case 0: return VD();
    case 1: for (int i = 0; i < n; i++) s[i] = (i % 2 == 0); break;          // 1,0,1,0..
    case 2: for (int i = 0; i < n; i++) s[i] = (i == 0 || i == n - 1) ? 0 : 1; break;  // first and last masked
    case 3: for (int i = 0; i < n; i++) s[i] = (i == n - 1); break;          // a single active sample
    case 4: for (int i = 0; i < n; i++) s[i] = 0; break;                     // nothing active
  }
  return s;
}
static void upattern(Raw& r, int pat)
{
  switch (pat)
  {
    case 0: break;
    case 1: r.z[0][1] = TEST; break;
    case 2: r.z[r.nvar - 1][0] = TEST; r.z[0][2] = TEST; break;
    case 3: for (int iv = 0; iv < r.nvar; iv++) r.z[iv][1] = TEST; break;
  }
}
static bool build(Setup& S)
{
  Raw r = make_raw(S.ndim, S.nvar, S.ilay, S.n);
  upattern(r, S.upat);
  if (S.verr) for (int iv = 0; iv < S.nvar; iv++) r.v.push_back(verr(iv, S.n));
  r.sel = selmask(S.selpat, S.n);
  S.db1.reset(raw_to_db(r));
  S.db2.reset();
  if (S.db2kind == 1)
  {  // target points without any variable, with a selection masking the second one
    Raw t;
    t.ndim = S.ndim; t.nvar = 0; t.n = 4; t.x = targets(S.ndim, S.ilay, 4);
    t.sel = {1, 0, 1, 1};
    S.db2.reset(raw_to_db(t));
  }
  else if (S.db2kind == 2)
  {  // a second data set with variables (other layout), heterotopic
    Raw t = make_raw(S.ndim, S.nvar, 1 - S.ilay, 5);
    t.z[0][3] = TEST;
    S.db2.reset(raw_to_db(t));
  }
  S.model.reset(make_model(S.ndim, S.nvar, S.im));
  S.desc = "ndim=" + std::to_string(S.ndim) + " layout=" + std::to_string(S.ilay) + " n=" + std::to_string(S.n) + " model=" + model_name(S.nvar, S.im) +
           " data=" + raw_str(r) + " db2kind=" + std::to_string(S.db2kind);
  return S.db1 && S.model;
}
static VectorInt nbghOf(int k, int n)
{
  switch (k)
  {
    case 0: return VectorInt();
    case 1: return VectorInt({0, 2});
    case 2: return VectorInt({n - 1, 0, 1});  // not sorted
  }
  return VectorInt();
}
static const int NMODE = 5;
static CovCalcMode* modeOf(int k, int ncov)
{
  switch (k)
  {
    case 0: return nullptr;
    case 1: return new CovCalcMode();
    case 2: return new CovCalcMode(ECalcMember::LHS, true);
    case 3: return new CovCalcMode(ECalcMember::LHS, false, true);
    case 4: { auto* m = new CovCalcMode(); m->setActiveCovListFromOne(ncov - 1); return m; }
  }
  return nullptr;
}
static const char* MODE_NAME[NMODE] = {"null", "default", "asVario", "unitary", "onlyLastStructure"};

// true when some structure of the model still holds projected points / the pre-processed flag
static bool staleState(const Model* m)
{
  const ACovAnisoList* l = m->getCovAnisoList();
  if (l->_isOptimPreProcessed) return true;
  for (int i = 0; i < l->getCovaNumber(); i++)
  {
    const CovAniso* c = l->getCova(i);
    if (c->_isOptimPreProcessed || !c->_p1As.empty()) return true;
  }
  return false;
}
// what a successful request does at its end (public call); used by the harness so that the history effect of a FAILED
// request (judged in part p1_history / property C10) does not leak into the next differential comparison
static void cleanState(const Model* m) { m->getCovAnisoList()->optimizationPostProcess(); }
// ACovAnisoList never clears its own (list level) copy of the sample points: Db::getSamplesAsSP appends, so every request
// on the same model makes the next one slower (k requests cost O(k^2)); results are not affected (the first n entries are
// rewritten). The harness drops that copy to keep the enumeration fast; it is reported as a note, not as a violation.
static size_t dropListCopy(const Model* m) { auto* l = m->getCovAnisoList(); size_t k = l->_p1As.size(); l->_p1As.clear(); l->_p1As.shrink_to_fit(); return k; }
static bool optimCapable(const Model* m)
{
  const ACovAnisoList* l = m->getCovAnisoList();
  for (int i = 0; i < l->getCovaNumber(); i++) if (l->getCova(i)->isOptimEnabled()) return true;
  return false;
}
}  // namespace p1

VF_PART(p1_covmat_optim)
{
  using namespace p1;
  Space sp;
  bool T = C.thorough();
  sp.axis("ndim", 3).axis("layout", NLAYOUT).axis("n", T ? 4 : 1).axis("model", NMODEL1 + NMODEL2).axis("sel", NSEL).axis("upat", NUPAT).axis("verr", 2).axis("db2", NDB2);
  for_each_case(C, sp, [&](uint64_t id, const std::vector<int>& idx) {
    Setup S;
    S.ndim = idx[0] + 1; S.ilay = idx[1]; S.n = T ? 3 + idx[2] : 5;
    S.nvar = idx[3] < NMODEL1 ? 1 : 2; S.im = idx[3] < NMODEL1 ? idx[3] : idx[3] - NMODEL1;
    S.selpat = idx[4]; S.upat = idx[5]; S.verr = idx[6]; S.db2kind = idx[7];
    if (!build(S)) { C.skip(); C.outcome("build-failed"); return; }
    int ncov = S.model->getCovaNumber();
    bool capable = optimCapable(S.model.get());
    std::string kase = std::to_string(id);
    if (id % 4001 == 5) C.sample("{\"id\":" + kase + ",\"setup\":" + jstr(S.desc) + "}");
    for (int km = 0; km < NMODE; km++)
    {
      if (km == 4 && ncov < 2) continue;
      std::unique_ptr<CovCalcMode> mode(modeOf(km, ncov));
      for (int ivar0 = -1; ivar0 <= 1; ivar0++)
        for (int k1 = 0; k1 < 3; k1++)
        {
          // monovariate model: variable rank 1 is invalid (both paths must refuse); judged once per setup, not 45 times
          if (S.nvar == 1 && ivar0 == 1 && (k1 != 0 || km != 0)) continue;
          VectorInt nb1 = nbghOf(k1, S.n);
          // ---- symmetric pair (does not read db2)
          if (S.db2kind == 0)
          {
            MatrixSquareSymmetric a = S.model->evalCovMatrixSymmetric(S.db1.get(), ivar0, nb1, mode.get());
            MatrixSquareSymmetric b = S.model->evalCovMatrixSymmetricOptim(S.db1.get(), ivar0, nb1, mode.get());
            C.eval();
            std::string d = mat_diff(a, b, 1e-10, 1.);
            bool empty = b.getNRows() == 0;
            C.outcome(std::string("sym:") + (empty ? "empty" : "matrix") + (d.empty() ? ":equal" : ":DIFFERENT"));
            if (!empty && capable) C.nontrivial(Hash().u(id).i(km).i(ivar0).i(k1).i(99).h);
            if (!d.empty())
              C.violation(km == 4 ? std::string("optim:active-cov-list-ignored:symmetric") : std::string("optim:symmetric:mode=") + MODE_NAME[km], "evalCovMatrixSymmetricOptim != evalCovMatrixSymmetric at " + d + " ; " + S.desc + " ivar0=" + std::to_string(ivar0) +
                          " nbgh1=" + vstr(nb1) + " mode=" + MODE_NAME[km], kase);
            dropListCopy(S.model.get());
            if (staleState(S.model.get()))
            {  // a failed request leaves projected points behind (C10's subject): do not let it leak into the next comparison
              C.outcome(empty ? "sym:stale-state-after-empty-result" : "sym:stale-state-after-success");
              if (!empty) C.violation("optim:stale-cache-after-success", "projected points left behind after a successful evalCovMatrixSymmetricOptim; " + S.desc, kase);
              cleanState(S.model.get());
            }
          }
          // ---- rectangular pair (does not read V)
          if (S.verr == 0)
          for (int jvar0 = -1; jvar0 <= 1; jvar0++)
            for (int k2 = 0; k2 < 3; k2++)
            {
              if (S.nvar == 1 && jvar0 == 1 && (k2 != 0 || km != 0)) continue;
              const Db* d2 = S.db2.get();
              int n2 = d2 ? d2->getSampleNumber() : S.n;
              VectorInt nb2 = nbghOf(k2, n2);
              MatrixRectangular a = S.model->evalCovMatrix(S.db1.get(), S.db2.get(), ivar0, jvar0, nb1, nb2, mode.get());
              MatrixRectangular b = S.model->evalCovMatrixOptim(S.db1.get(), S.db2.get(), ivar0, jvar0, nb1, nb2, mode.get());
              C.eval();
              std::string d = mat_diff(a, b, 1e-10, 1.);
              bool empty = b.getNRows() == 0;
              C.outcome(std::string("rect:") + (empty ? "empty" : "matrix") + (d.empty() ? ":equal" : ":DIFFERENT"));
              if (!empty && capable) C.nontrivial(Hash().u(id).i(km).i(ivar0).i(k1).i(jvar0).i(k2).h);
              if (!d.empty())
                C.violation(km == 4 ? std::string("optim:active-cov-list-ignored:rect") : std::string("optim:rect:mode=") + MODE_NAME[km], "evalCovMatrixOptim != evalCovMatrix at " + d + " ; " + S.desc + " ivar0=" + std::to_string(ivar0) + " jvar0=" +
                            std::to_string(jvar0) + " nbgh1=" + vstr(nb1) + " nbgh2=" + vstr(nb2) + " mode=" + MODE_NAME[km], kase);
              dropListCopy(S.model.get());
              if (staleState(S.model.get()))
              {
                C.outcome(empty ? "rect:stale-state-after-empty-result" : "rect:stale-state-after-success");
                if (!empty) C.violation("optim:stale-cache-after-success", "projected points left behind after a successful evalCovMatrixOptim; " + S.desc, kase);
                cleanState(S.model.get());
              }
            }
        }
    }
  });
}


// =====================================================================================================
// shared kriging helpers
// =====================================================================================================
namespace kk
{
// values of the column called `name` (TEST-filled vector when the column does not exist)
static VD col(const Db* db, const std::string& name)
{
  int ic = db->getColIdx(name);
  VD v(db->getSampleNumber(), std::nan(""));
  if (ic < 0) return v;
  for (int i = 0; i < db->getSampleNumber(); i++) v[i] = db->getValueByColIdx(i, ic);
  return v;
}
static std::string decade(double d)
{
  if (d == 0) return "diff=0";
  int e = (int)std::floor(std::log10(d));
  if (e < -16) e = -16;
  char b[32]; snprintf(b, 32, "diff~1e%+03d", e);
  return b;
}
// mean / drift options
static const int NMEAN = 4;
static const char* MEAN_NAME[NMEAN] = {"SK mean 0", "SK mean 1.5", "ordinary", "linear drift"};
// returns false when the combination is documented as invalid
static bool applyMean(Model* m, int kmean, bool intrinsic)
{
  switch (kmean)
  {
    case 0: if (intrinsic) return false; break;
    case 1: if (intrinsic) return false; for (int iv = 0; iv < m->getVariableNumber(); iv++) m->setMean(1.5 - iv, iv); break;
    case 2: m->setDriftIRF(0); break;
    case 3: m->setDriftIRF(1); break;
  }
  return true;
}
}  // namespace kk

// =====================================================================================================
// Part 3: xvalid in unique neighbourhood (shortcut through the inverse LHS)  vs  explicit leave-one-out
// =====================================================================================================
VF_PART(p3_xvalid_unique)
{
  using namespace kk;
  bool T = C.thorough();
  Space sp;
  // sel: 0 none, 1..: sample (sel-1) masked ; undef: 0 none, 1..: value of sample (undef-1) undefined
  sp.axis("ndim", 3).axis("layout", NLAYOUT).axis("n", T ? 3 : 2).axis("model", NMODEL1).axis("mean", NMEAN).axis("sel", T ? 4 : 3).axis("undef", T ? 4 : 3).axis("verr", 2).axis("flags", 4);
  for_each_case(C, sp, [&](uint64_t id, const std::vector<int>& idx) {
    int ndim = idx[0] + 1, ilay = idx[1], n = T ? 4 + idx[2] : (idx[2] ? 6 : 4), im = idx[3], kmean = idx[4], ksel = idx[5], kund = idx[6], kv = idx[7];
    int fest = (idx[8] & 1) ? -1 : 1, fstd = (idx[8] & 2) ? -1 : 1;
    std::string kase = std::to_string(id);
    Raw r = make_raw(ndim, 1, ilay, n);
    if (ksel > 0) { r.sel = VD(n, 1.); r.sel[(ksel * 2 - 1) % n] = 0; }
    if (kund > 0) r.z[0][(kund * 3 - 3) % n] = TEST;
    if (kv) r.v.push_back(verr(0, n));
    ModelP model(make_model(ndim, 1, im));
    if (!applyMean(model.get(), kmean, im == 7)) { C.skip(); C.outcome("excluded:intrinsic-model-without-drift"); return; }
    // more drift equations than data left after removing one sample: excluded (system undefined)
    int nact = 0;
    for (int i = 0; i < n; i++) if ((r.sel.empty() || r.sel[i] > 0) && !FFFF(r.z[0][i])) nact++;
    int nfeq = kmean == 2 ? 1 : kmean == 3 ? 1 + ndim : 0;
    if (nact - 1 <= nfeq) { C.skip(); C.outcome("excluded:not-more-data-than-drift-equations"); return; }
    // on the regular layouts the linear drift functions are collinear on some leave-one-out subsets: decided by the LOO kriging itself
    DbP db(raw_to_db(r));
    std::unique_ptr<NeighUnique> neigh(NeighUnique::create());
    int err = xvalid(db.get(), model.get(), neigh.get(), false, fest, fstd, 0);
    C.eval();
    if (err) { C.outcome("xvalid-refused"); C.violation("xvalid-unique:refused", "xvalid in unique neighbourhood returned an error; data=" + raw_str(r) + " model=" + model_name(1, im) + " " + MEAN_NAME[kmean], kase); return; }
    VD e1 = col(db.get(), fest > 0 ? "Xvalid.z1.esterr" : "Xvalid.z1.estim");
    VD s1 = col(db.get(), fstd > 0 ? "Xvalid.z1.stderr" : "Xvalid.z1.stdev");
    // the same cross-validation through a MOVING neighbourhood wide enough to hold every sample: the neighbourhood changes with
    // every target (the target is excluded), so the LHS memo of ANeigh must be invalidated each time
    VD e3, s3;
    {
      DbP db3(raw_to_db(r));
      ModelP m3(make_model(ndim, 1, im)); applyMean(m3.get(), kmean, im == 7);
      std::unique_ptr<NeighMoving> nm(NeighMoving::create(false, 100, 1024.));
      if (xvalid(db3.get(), m3.get(), nm.get(), false, fest, fstd, 0) == 0)
      { e3 = col(db3.get(), fest > 0 ? "Xvalid.z1.esterr" : "Xvalid.z1.estim"); s3 = col(db3.get(), fstd > 0 ? "Xvalid.z1.stderr" : "Xvalid.z1.stdev"); }
    }
    bool any = false;
    double worst = 0;
    for (int i = 0; i < n; i++)
    {
      bool active = (r.sel.empty() || r.sel[i] > 0);
      bool defined = !FFFF(r.z[0][i]);
      // explicit leave-one-out: physically reduced data (sample i, masked and undefined samples removed), target = sample i
      std::vector<int> keep(n);
      for (int j = 0; j < n; j++) keep[j] = (j != i) && (r.sel.empty() || r.sel[j] > 0) && !FFFF(r.z[0][j]);
      if (!active || !defined)
      {
        // not a cross-validation site: nothing may be written there
        bool untouched = FFFF(e1[i]) && FFFF(s1[i]);
        C.outcome(untouched ? "inactive-site:left-undefined" : "inactive-site:WRITTEN");
        if (!untouched) C.violation("xvalid-unique:inactive-site-written", "masked/undefined sample " + std::to_string(i) + " received a cross-validation result; data=" + raw_str(r), kase);
        continue;
      }
      Raw rr = reduce_raw(r, keep);
      DbP dred(raw_to_db(rr));
      Raw rt; rt.ndim = ndim; rt.nvar = 0; rt.n = 1; rt.x = VVD(ndim, VD(1)); for (int d = 0; d < ndim; d++) rt.x[d][0] = r.x[d][i];
      DbP dtar(raw_to_db(rt));
      ModelP m2(make_model(ndim, 1, im)); applyMean(m2.get(), kmean, im == 7);
      std::unique_ptr<NeighUnique> nu(NeighUnique::create());
      int e2 = kriging(dred.get(), dtar.get(), m2.get(), nu.get(), EKrigOpt::POINT, true, true, false);
      double zs = col(dtar.get(), "Kriging.z1.estim")[0], sd = col(dtar.get(), "Kriging.z1.stdev")[0];
      if (e2 || FFFF(zs) || FFFF(sd) || std::isnan(zs))
      {  // reference system not solvable (e.g. collinear drift on the remaining samples): outcome is implementation defined
        C.skip(); C.outcome("excluded:leave-one-out-system-singular"); continue;
      }
      double z = r.z[0][i];
      double refE = fest > 0 ? zs - z : zs;
      double refS = fstd > 0 ? (sd > 0 ? (zs - z) / sd : TEST) : sd;
      if (sd <= 1e-7) { C.skip(); C.outcome("excluded:zero-variance-site"); continue; }
      any = true;
      double scale = std::max(1., std::fabs(z));
      double dE = std::fabs(e1[i] - refE) / std::max(scale, std::fabs(refE)), dS = std::fabs(s1[i] - refS) / std::max(1., std::fabs(refS));
      if (FFFF(e1[i]) || FFFF(s1[i])) { dE = dS = 1e30; }
      worst = std::max({worst, dE, dS});
      if (!e3.empty())
      {
        double dE3 = std::fabs(e3[i] - refE) / std::max(scale, std::fabs(refE)), dS3 = std::fabs(s3[i] - refS) / std::max(1., std::fabs(refS));
        if (FFFF(e3[i]) || FFFF(s3[i])) dE3 = dS3 = 1e30;
        C.outcome(dE3 > 1e-8 || dS3 > 1e-8 ? "xvalid-moving-wide:DIFFERENT" : "xvalid-moving-wide:equal");
        if (dE3 > 1e-8 || dS3 > 1e-8)
          C.violation("xvalid-moving-wide:differs-from-leave-one-out", "sample " + std::to_string(i) + ": xvalid(moving neighbourhood holding all samples) est=" + fmt(e3[i]) + " std=" + fmt(s3[i]) + " ; explicit leave-one-out est=" +
                      fmt(refE) + " std=" + fmt(refS) + " data=" + raw_str(r) + " model=" + model_name(1, im) + " " + MEAN_NAME[kmean], kase);
      }
      if (dE > 1e-8 || dS > 1e-8)
      {
        // mechanism: the shortcut's variance 1/inv(LHS)_ii is the error variance of the NOISY datum (it contains V_i), explicit
        // re-kriging estimates the point value: S_shortcut^2 = S_loo^2 + V_i, same estimate
        std::string key = "xvalid-unique:differs-from-leave-one-out";
        std::string arb;
        if (kv && dE <= 1e-8 && !FFFF(s1[i]))
        {
          double Vi = r.v[0][i];
          double sshort = fstd < 0 ? s1[i] : (s1[i] != 0 ? (zs - z) / s1[i] : TEST);
          if (!FFFF(sshort) && std::fabs(sshort * sshort - (sd * sd + Vi)) <= 1e-8 * std::max(1., sd * sd + Vi)) key = "xvalid-unique:stdev-includes-measurement-error-of-left-out-sample";
        }
        {  // third answer, for the report only: xvalid through a moving neighbourhood that contains every sample
          DbP db3(raw_to_db(r));
          ModelP m3(make_model(ndim, 1, im)); applyMean(m3.get(), kmean, im == 7);
          std::unique_ptr<NeighMoving> nm(NeighMoving::create(false, 100, 1000.));
          if (xvalid(db3.get(), m3.get(), nm.get(), false, fest, fstd, 0) == 0)
            arb = " ; xvalid(moving, all samples) est=" + fmt(col(db3.get(), fest > 0 ? "Xvalid.z1.esterr" : "Xvalid.z1.estim")[i]) + " std=" + fmt(col(db3.get(), fstd > 0 ? "Xvalid.z1.stderr" : "Xvalid.z1.stdev")[i]);
        }
        C.violation(key,
                    "sample " + std::to_string(i) + ": xvalid(unique) est=" + fmt(e1[i]) + " std=" + fmt(s1[i]) + " ; explicit leave-one-out est=" + fmt(refE) + " std=" + fmt(refS) + arb + " (flags est=" +
                    std::to_string(fest) + " std=" + std::to_string(fstd) + ") data=" + raw_str(r) + " model=" + model_name(1, im) + " " + MEAN_NAME[kmean], kase);
      }
    }
    if (any) { C.nontrivial(id); C.outcome(std::string(kv ? "judged:with-V:" : "judged:no-V:") + decade(worst)); }
    if (id % 2503 == 11) C.sample("{\"id\":" + kase + ",\"data\":" + raw_str(r) + ",\"model\":" + jstr(model_name(1, im)) + ",\"mean\":" + jstr(MEAN_NAME[kmean]) + "}");
  });
}

// =====================================================================================================
// Part 2: unique neighbourhood  vs  moving neighbourhood wide enough to contain all samples,
//         for every visiting order (with repetitions) of up to 3 (thorough: 4) targets out of 4.
//         The moving path re-uses the inverted LHS while the neighbourhood is unchanged (ANeigh memo) -> history dependent.
// =====================================================================================================
namespace p2
{
struct Out { VD est[2], std[2], varz[2]; int err = 0; };
static Out runKrig(const Raw& r, const VVD& tx, int ndim, int nvar, int im, int kmean, ANeigh* neigh, bool varz, const EKrigOpt& opt = EKrigOpt::POINT, const VectorInt& ndisc = VectorInt())
{
  using namespace kk;
  Out o;
  DbP din(raw_to_db(r));
  Raw rt; rt.ndim = ndim; rt.nvar = 0; rt.n = (int)tx[0].size(); rt.x = tx;
  DbP dout(raw_to_db(rt));
  ModelP m(make_model(ndim, nvar, im)); applyMean(m.get(), kmean, nvar == 1 && im == 7);
  o.err = kriging(din.get(), dout.get(), m.get(), neigh, opt, true, true, varz, ndisc);
  for (int iv = 0; iv < nvar; iv++)
  {
    std::string z = "Kriging.z" + std::to_string(iv + 1);
    o.est[iv] = col(dout.get(), z + ".estim"); o.std[iv] = col(dout.get(), z + ".stdev"); o.varz[iv] = col(dout.get(), z + ".varz");
  }
  return o;
}
// compares two outputs target by target; returns "" or a description; sets `worst`
static std::string cmpOut(const Out& a, const Out& b, int nvar, int nt, bool varz, double& worst)
{
  if (a.err != b.err) return "error codes " + std::to_string(a.err) + " vs " + std::to_string(b.err);
  std::string d;
  for (int iv = 0; iv < nvar; iv++)
    for (int t = 0; t < nt; t++)
    {
      auto one = [&](const char* what, double x, double y, bool square) {
        bool ux = FFFF(x) || std::isnan(x), uy = FFFF(y) || std::isnan(y);
        if (ux || uy) { if (ux != uy && d.empty()) d = std::string(what) + " of variable " + std::to_string(iv + 1) + " at target " + std::to_string(t) + ": " + fmt(x) + " vs " + fmt(y) + " (defined/undefined)"; return; }
        double xx = square ? x * x : x, yy = square ? y * y : y;
        double e = std::fabs(xx - yy) / std::max({1., std::fabs(xx), std::fabs(yy)});
        worst = std::max(worst, e);
        if (e > 1e-9 && d.empty()) d = std::string(what) + " of variable " + std::to_string(iv + 1) + " at target " + std::to_string(t) + ": " + fmt(x) + " vs " + fmt(y);
      };
      one("estim", a.est[iv][t], b.est[iv][t], false);
      one("stdev", a.std[iv][t], b.std[iv][t], true);   // judged on the variance scale (DESIGN 2.9 / C02 note)
      if (varz) one("varz", a.varz[iv][t], b.varz[iv][t], false);
    }
  return d;
}
}  // namespace p2

VF_PART(p2_unique_vs_moving)
{
  using namespace kk;
  using namespace p2;
  bool T = C.thorough();
  int maxlen = T ? 4 : 3;
  // all sequences over 4 targets with length 1..maxlen
  std::vector<std::vector<int>> seqs;
  for (int len = 1; len <= maxlen; len++)
  {
    int tot = 1; for (int k = 0; k < len; k++) tot *= 4;
    for (int c = 0; c < tot; c++) { std::vector<int> q; int v = c; for (int k = 0; k < len; k++) { q.push_back(v % 4); v /= 4; } seqs.push_back(q); }
  }
  Space sp;
  sp.axis("ndim", 3).axis("layout", NLAYOUT).axis("n", T ? 2 : 1).axis("model", NMODEL1 + NMODEL2).axis("mean", NMEAN).axis("upat", 3).axis("radius", T ? 2 : 1).axis("seq", (int)seqs.size());
  for_each_case(C, sp, [&](uint64_t id, const std::vector<int>& idx) {
    int ndim = idx[0] + 1, ilay = idx[1], n = T ? (idx[2] ? 6 : 4) : 5;
    int nvar = idx[3] < NMODEL1 ? 1 : 2, im = idx[3] < NMODEL1 ? idx[3] : idx[3] - NMODEL1, kmean = idx[4], upat = idx[5];
    const std::vector<int>& seq = seqs[idx[7]];
    bool intrinsic = nvar == 1 && im == 7;
    std::string kase = std::to_string(id);
    if (intrinsic && kmean < 2) { C.skip(); C.outcome("excluded:intrinsic-model-without-drift"); return; }
    int nfeq = kmean == 2 ? 1 : kmean == 3 ? 1 + ndim : 0;
    Raw r = make_raw(ndim, nvar, ilay, n);
    if (upat == 1) r.z[0][1] = TEST;
    if (upat == 2) { r.z[nvar - 1][0] = TEST; r.z[0][2] = TEST; }
    if (n - 2 <= nfeq) { C.skip(); C.outcome("excluded:not-more-data-than-drift-equations"); return; }
    VVD t4 = targets(ndim, ilay, 4), tx(ndim);
    for (int d = 0; d < ndim; d++) for (int k : seq) tx[d].push_back(t4[d][k]);
    bool varz = !intrinsic && kmean < 3;
    set_ndim(ndim);
    std::unique_ptr<NeighUnique> nu(NeighUnique::create());
    std::unique_ptr<NeighMoving> nm(NeighMoving::create(false, 100, idx[6] ? 1024. : TEST));
    Out a = runKrig(r, tx, ndim, nvar, im, kmean, nu.get(), varz);
    Out b = runKrig(r, tx, ndim, nvar, im, kmean, nm.get(), varz);
    C.eval();
    bool defined = false;
    for (size_t t = 0; t < seq.size(); t++) if (!FFFF(a.est[0][t]) && !std::isnan(a.est[0][t])) defined = true;
    if (a.err && b.err) { C.skip(); C.outcome("both-refused"); return; }
    if (!defined && !a.err) C.outcome("unique:system-singular(undefined results)");
    double worst = 0;
    std::string d = cmpOut(a, b, nvar, (int)seq.size(), varz, worst);
    bool reused = nm->_flagIsUnchanged;  // the last target of the moving run found its neighbourhood unchanged (LHS re-used)
    C.outcome(std::string(reused ? "lhs-reused:" : "lhs-not-reused:") + (d.empty() ? decade(worst) : "DIFFERENT"));
    if (reused && seq.size() > 1 && defined) C.nontrivial(id);
    if (!d.empty())
    {
      std::string sq; for (int k : seq) sq += std::to_string(k);
      C.violation(seq.size() == 1 ? "unique-vs-moving:single-target" : "unique-vs-moving:target-sequence", "kriging unique vs moving(all samples): " + d + " ; target sequence=" + sq + " data=" + raw_str(r) + " model=" +
                  model_name(nvar, im) + " " + MEAN_NAME[kmean] + " radius=" + (idx[6] ? "1024" : "undefined"), kase);
    }
    if (id % 30011 == 3) C.sample("{\"id\":" + kase + ",\"data\":" + raw_str(r) + ",\"model\":" + jstr(model_name(nvar, im)) + ",\"mean\":" + jstr(MEAN_NAME[kmean]) + "}");
  });
}

// =====================================================================================================
// Part 4a: migrate(..., flag_ball=true)  vs  flag_ball=false  (nearest-point migration), brute force arbitrates
// =====================================================================================================
namespace p4
{
static double sq(double v) { return v * v; }
// exact squared Euclidean distance (dyadic coordinates)
static double d2(const VVD& a, int i, const VVD& b, int j) { double s = 0; for (size_t d = 0; d < a.size(); d++) s += sq(a[d][i] - b[d][j]); return s; }
static bool beyond(const VVD& a, int i, const VVD& b, int j, int distType, const VD& dmax)
{
  if (dmax.empty()) return false;
  int nd = (int)a.size();
  if (distType == 1) { for (int d = 0; d < nd; d++) if (std::fabs(a[d][i] - b[d][j]) > dmax[d]) return true; return false; }
  double r = 0; for (int d = 0; d < nd; d++) r += sq((a[d][i] - b[d][j]) / dmax[d]);
  return r > 1;
}
static const int NDMAX = 5;
static VD dmaxOf(int k, int ndim)
{
  VD d;
  switch (k)
  {
    case 0: return d;
    case 1: d = {1.5, 1.5, 1.5}; break;
    case 2: d = {4, 0.75, 2}; break;
    case 3: d = {0.5, 8, 0.5}; break;
    case 4: d = {64, 64, 64}; break;
  }
  d.resize(ndim);
  return d;
}
}  // namespace p4

VF_PART(p4_migrate_ball)
{
  using namespace p4;
  bool T = C.thorough();
  Space sp;
  sp.axis("ndim", 3).axis("layout", NLAYOUT).axis("n", T ? 4 : 2).axis("sel", 4).axis("undef", 2).axis("target", 3).axis("dmax", NDMAX).axis("distType", 2);
  for_each_case(C, sp, [&](uint64_t id, const std::vector<int>& idx) {
    int ndim = idx[0] + 1, ilay = idx[1], n = T ? 3 + idx[2] : (idx[2] ? 6 : 4), ksel = idx[3], kund = idx[4], ktar = idx[5], kd = idx[6], distType = idx[7] + 1;
    std::string kase = std::to_string(id);
    set_ndim(ndim);   // the ball tree measures distances in the default space
    Raw r = make_raw(ndim, 1, ilay, n);
    r.sel = p1::selmask(ksel, n);   // none / alternate / first+last masked / only last active
    if (kund) r.z[0][1] = TEST;
    VD dmax = dmaxOf(kd, ndim);
    // target: 0 = 5 points, 1 = 5 points with a selection, 2 = grid (flag_fill) -- 1-D/2-D/3-D 3^ndim nodes
    VVD tx; VD tsel;
    auto mkTarget = [&]() -> Db* {
      if (ktar < 2)
      {
        Raw t; t.ndim = ndim; t.nvar = 0; t.n = 5; t.x = targets(ndim, ilay, 5); tx = t.x;
        if (ktar == 1) { t.sel = {1, 1, 0, 1, 1}; tsel = t.sel; }
        return raw_to_db(t);
      }
      VectorInt nx(ndim, 3); VectorDouble dx(ndim), x0(ndim);
      for (int d = 0; d < ndim; d++) { dx[d] = 1.375 + 0.25 * d; x0[d] = -0.3125 + 0.125 * d; }
      DbGrid* g = DbGrid::create(nx, dx, x0);
      tx = VVD(ndim);
      for (int i = 0; i < g->getSampleNumber(); i++) for (int d = 0; d < ndim; d++) tx[d].push_back(g->getCoordinate(i, d));
      return g;
    };
    VD res[2];
    int err[2];
    for (int ball = 0; ball < 2; ball++)
    {
      DbP din(raw_to_db(r));
      DbP dout(mkTarget());
      err[ball] = migrate(din.get(), dout.get(), "z1", distType, VectorDouble(dmax.begin(), dmax.end()), ktar == 2, false, ball == 1);
      res[ball] = kk::col(dout.get(), "Migrate.z1");
      if (err[ball] == 0 && dout->getColIdx("Migrate.z1") < 0) { int nc = dout->getColumnNumber(); res[ball].clear(); for (int i = 0; i < dout->getSampleNumber(); i++) res[ball].push_back(dout->getValueByColIdx(i, nc - 1)); }
    }
    C.eval();
    if (err[0] != err[1]) { C.outcome("error-codes-differ"); C.violation("migrate-ball:error-code", "migrate returns " + std::to_string(err[0]) + " without and " + std::to_string(err[1]) + " with flag_ball; data=" + raw_str(r), kase); return; }
    if (err[0]) { C.skip(); C.outcome("both-refused"); return; }
    int nt = (int)tx[0].size();
    bool nontriv = false;
    for (int t = 0; t < nt; t++)
    {
      bool tactive = tsel.empty() || tsel[t] > 0;
      // brute force: nearest active sample / nearest sample regardless of selection / nearest admissible (within dmax) active sample
      int iAll = -1, iAct = -1, iAdm = -1; double bAll = 1e300, bAct = 1e300, bAdm = 1e300; bool tie = false;
      for (int i = 0; i < n; i++)
      {
        double dd = d2(r.x, i, tx, t);
        if (dd == bAll || dd == bAct || dd == bAdm) tie = true;
        if (dd < bAll) { bAll = dd; iAll = i; }
        bool act = r.sel.empty() || r.sel[i] > 0;
        if (act && dd < bAct) { bAct = dd; iAct = i; }
        if (act && !beyond(r.x, i, tx, t, distType, dmax) && dd < bAdm) { bAdm = dd; iAdm = i; }
      }
      if (tie) { C.skip(); C.outcome("excluded:equidistant-samples"); continue; }
      double a = res[0][t], b = res[1][t];
      bool same = (FFFF(a) && FFFF(b)) || a == b;
      if (!tactive)
      {
        C.outcome((FFFF(a) && FFFF(b)) ? "masked-target:left-undefined" : "masked-target:WRITTEN");
        if (!(FFFF(a) && FFFF(b))) C.violation("migrate:masked-target-written", "masked target " + std::to_string(t) + " received " + fmt(a) + " / " + fmt(b), kase);
        continue;
      }
      nontriv = true;
      double vAdm = iAdm >= 0 ? r.z[0][iAdm] : TEST;
      std::string cls = same ? "equal" : "DIFFERENT";
      C.outcome(std::string("target:") + cls + (kd ? ":dmax" : ":no-dmax") + (r.sel.empty() ? "" : ":input-selection"));
      if (!same)
      {
        double vAll = r.z[0][iAll];
        bool exhOK = (FFFF(a) && FFFF(vAdm)) || a == vAdm;
        bool ballOK = (FFFF(b) && FFFF(vAdm)) || b == vAdm;
        std::string tk = ktar == 2 ? "point-to-grid-fill" : "point-to-point";
        // mechanism keys. Point-to-point: the two paths are the ball tree and the plain double loop. Point-to-grid with flag_fill:
        // flag_ball switches between the ball tree and expandPointToGrid (a sorted sweep), three answers can differ.
        std::string key = "migrate-ball:" + tk + ":differs" + (kd ? ":with-dmax" : "");
        bool inputFiltered = !r.sel.empty() || kund;
        if (ktar == 2) key = "migrate-ball:point-to-grid-fill:" + std::string(inputFiltered ? "with-masked-or-undefined-input" : kd ? "with-dmax" : "plain");
        else if (exhOK && iAll != iAct && ((FFFF(b) && FFFF(vAll)) || b == vAll || FFFF(b))) key = "migrate-ball:point-to-point:input-selection-ignored-by-ball";
        else if (exhOK && iAdm != iAct && FFFF(b)) key = "migrate-ball:point-to-point:nearest-beyond-dmax-not-replaced";
        C.outcome("DIFFERENT:" + key.substr(13) + ":" + (exhOK ? "ball-wrong" : ballOK ? "exhaustive-wrong" : "both-differ-from-brute-force"));
        C.violation(key, "target " + std::to_string(t) + " (" + [&] { std::string q; for (int d = 0; d < ndim; d++) q += (d ? "," : "") + fmt(tx[d][t]); return q; }() + "): exhaustive=" + fmt(a) + " ball=" + fmt(b) +
                    " brute-force(nearest admissible active sample #" + std::to_string(iAdm) + ")=" + fmt(vAdm) + " ; nearest of all samples #" + std::to_string(iAll) + " nearest active #" + std::to_string(iAct) +
                    " data=" + raw_str(r) + " dmax=" + vstr(dmax) + " distType=" + std::to_string(distType) + " targetkind=" + std::to_string(ktar), kase);
      }
    }
    if (nontriv) C.nontrivial(id);
  });
}

// =====================================================================================================
// Part 4b: NeighMoving with ball-tree search  vs  plain scan, restricted (as the property says) to targets whose
//          nmaxi Euclidean-nearest samples are all admissible (active, defined, within the radius); isotropic search.
// =====================================================================================================
VF_PART(p4_neigh_ball)
{
  using namespace p4;
  bool T = C.thorough();
  Space sp;
  sp.axis("ndim", 3).axis("layout", NLAYOUT).axis("n", T ? 3 : 2).axis("sel", 3).axis("undef", 2).axis("nmaxi", 5).axis("radius", 3).axis("leaf", 3).axis("xvalid", 2).axis("coeffs", 2);
  static const int LEAF[3] = {1, 2, 10};
  for_each_case(C, sp, [&](uint64_t id, const std::vector<int>& idx) {
    int ndim = idx[0] + 1, ilay = idx[1], n = T ? 4 + idx[2] : (idx[2] ? 6 : 4), ksel = idx[3], kund = idx[4];
    int nmaxi = idx[5] < 3 ? idx[5] + 1 : idx[5] == 3 ? n : n + 2;
    double radius = idx[6] == 0 ? TEST : idx[6] == 1 ? 2.5 : 64.;
    int leaf = LEAF[idx[7]];
    bool xv = idx[8];
    // isotropic search either without anisotropy coefficients or with coefficients all equal to 1 (same definition)
    VectorDouble coeffs = idx[9] ? VectorDouble(ndim, 1.) : VectorDouble();
    std::string kase = std::to_string(id);
    set_ndim(ndim);
    Raw r = make_raw(ndim, 1, ilay, n);
    r.sel = p1::selmask(ksel, n);
    if (kund) r.z[0][1] = TEST;
    DbP din(raw_to_db(r));
    Raw t; t.ndim = ndim; t.nvar = 0; t.n = 5; t.x = targets(ndim, ilay, 5);
    DbP dtar(raw_to_db(t));
    Db* dout = xv ? din.get() : dtar.get();
    const VVD& tx = xv ? r.x : t.x;
    int nt = xv ? n : 5;
    std::unique_ptr<NeighMoving> plain(NeighMoving::create(xv, nmaxi, radius, 1, 1, ITEST, coeffs)), ball(NeighMoving::create(xv, nmaxi, radius, 1, 1, ITEST, coeffs));
    ball->setBallSearch(true, leaf);
    if (plain->attach(din.get(), dout) || ball->attach(din.get(), dout)) { C.skip(); C.outcome("attach-refused"); return; }
    for (int it = 0; it < nt; it++)
    {
      if (!dout->isActive(it)) continue;
      // admissibility decided by the harness
      std::vector<std::pair<double, int>> byd;
      for (int i = 0; i < n; i++) byd.push_back({d2(r.x, i, tx, it), i});
      std::sort(byd.begin(), byd.end());
      int k = std::min(nmaxi, n);
      bool ok = true, tie = false;
      for (int j = 0; j < k; j++)
      {
        int i = byd[j].second;
        bool act = r.sel.empty() || r.sel[i] > 0;
        bool def = !FFFF(r.z[0][i]);
        bool within = FFFF(radius) || byd[j].first <= radius * radius;
        bool self = xv && i == it;
        if (!act || !def || !within || self) ok = false;
      }
      if (k < n && byd[k - 1].first == byd[k].first) tie = true;
      if (!ok) { C.skip(); C.outcome("excluded:some-of-the-nmaxi-nearest-not-admissible"); continue; }
      if (tie) { C.skip(); C.outcome("excluded:tie-at-the-nmaxi-th-distance"); continue; }
      VectorInt ra, rb;
      plain->select(it, ra);
      ball->select(it, rb);
      C.eval();
      std::vector<int> exp; for (int j = 0; j < k; j++) exp.push_back(byd[j].second);
      std::sort(exp.begin(), exp.end());
      std::vector<int> va(ra.begin(), ra.end()), vb(rb.begin(), rb.end());
      std::sort(va.begin(), va.end()); std::sort(vb.begin(), vb.end());
      bool same = va == vb;
      C.outcome(std::string(same ? "same-neighbours" : "DIFFERENT-neighbours") + (nmaxi < n ? ":truncating" : ":all-samples"));
      bool ballEffective = ball->_useBallSearch && !ball->getFlagSector() && !ball->getFlagAniso();
      C.outcome(ballEffective ? "ball-branch:taken" : "ball-branch:disabled-by-the-library(anisotropy coefficients given)");
      if (nmaxi < n && ballEffective) C.nontrivial(Hash().u(id).i(it).h);
      // mechanism seen on the unchanged tree: without coefficients BiTargetCheckDistance works in 2 dimensions whatever the space
      bool plain2d = false;
      if (!same && ndim == 3 && coeffs.empty())
      {
        std::vector<std::pair<double, int>> b2;
        for (int i = 0; i < n; i++) b2.push_back({sq(r.x[0][i] - tx[0][it]) + sq(r.x[1][i] - tx[1][it]), i});
        std::sort(b2.begin(), b2.end());
        std::vector<int> e2; for (int j = 0; j < k; j++) e2.push_back(b2[j].second);
        std::sort(e2.begin(), e2.end());
        plain2d = (e2 == va) && vb == exp;
      }
      if (!same)
        C.violation(plain2d ? "neigh-ball:plain-scan-ignores-third-coordinate-without-coeffs" : std::string("neigh-ball:differs") + (nmaxi > n ? ":nmaxi-exceeds-sample-count" : ""), "target " + std::to_string(it) + ": plain scan selects " + vstr(va) + ", ball search selects " + vstr(vb) + ", the nmaxi Euclidean-nearest (all admissible) are " + vstr(exp) +
                    " ; nmaxi=" + std::to_string(nmaxi) + " radius=" + fmt(radius) + " leaf=" + std::to_string(leaf) + " xvalid=" + std::to_string(xv) + " coeffs=" + vstr(coeffs) + " data=" + raw_str(r), kase);
      else if (va != exp)
        C.violation("neigh-ball:both-differ-from-definition", "target " + std::to_string(it) + ": both searches select " + vstr(va) + " but the nmaxi nearest admissible samples are " + vstr(exp) + " data=" + raw_str(r), kase);
    }
  });
}

// =====================================================================================================
// Part 5: block kriging with a single discretisation point per block  vs  point kriging (grid targets)
// =====================================================================================================
VF_PART(p5_block_ndisc1)
{
  using namespace kk;
  using namespace p2;
  bool T = C.thorough();
  Space sp;
  sp.axis("ndim", 3).axis("layout", NLAYOUT).axis("n", T ? 3 : 1).axis("model", NMODEL1 + NMODEL2).axis("mean", NMEAN).axis("upat", 3).axis("neigh", 3).axis("grid", 2);
  for_each_case(C, sp, [&](uint64_t id, const std::vector<int>& idx) {
    int ndim = idx[0] + 1, ilay = idx[1], n = T ? 4 + idx[2] : 5;
    int nvar = idx[3] < NMODEL1 ? 1 : 2, im = idx[3] < NMODEL1 ? idx[3] : idx[3] - NMODEL1, kmean = idx[4], upat = idx[5], kn = idx[6];
    bool intrinsic = nvar == 1 && im == 7;
    std::string kase = std::to_string(id);
    if (intrinsic && kmean < 2) { C.skip(); C.outcome("excluded:intrinsic-model-without-drift"); return; }
    int nfeq = kmean == 2 ? 1 : kmean == 3 ? 1 + ndim : 0;
    if (n - 2 <= nfeq) { C.skip(); C.outcome("excluded:not-more-data-than-drift-equations"); return; }
    if (kn > 0 && 3 <= nfeq) { C.skip(); C.outcome("excluded:not-more-data-than-drift-equations"); return; }
    Raw r = make_raw(ndim, nvar, ilay, n);
    if (upat == 1) r.z[0][1] = TEST;
    if (upat == 2) { r.z[nvar - 1][0] = TEST; r.z[0][2] = TEST; }
    set_ndim(ndim);
    auto mkNeigh = [&]() -> ANeigh* {
      if (kn == 0) return NeighUnique::create();
      return NeighMoving::create(false, kn == 1 ? 3 : 4, TEST, 1, 1, ITEST, VectorDouble(ndim, 1.));
    };
    Out o[2];
    int nt = 0;
    for (int blk = 0; blk < 2; blk++)
    {
      DbP din(raw_to_db(r));
      VectorInt nx(ndim, idx[7] ? 2 : 3); VectorDouble dx(ndim), x0(ndim);
      for (int d = 0; d < ndim; d++) { dx[d] = idx[7] ? 2.25 - 0.5 * d : 1.375 + 0.25 * d; x0[d] = -0.3125 + 0.125 * d; }
      std::unique_ptr<DbGrid> g(DbGrid::create(nx, dx, x0));
      nt = g->getSampleNumber();
      ModelP m(make_model(ndim, nvar, im)); applyMean(m.get(), kmean, intrinsic);
      std::unique_ptr<ANeigh> ng(mkNeigh());
      o[blk].err = kriging(din.get(), g.get(), m.get(), ng.get(), blk ? EKrigOpt::BLOCK : EKrigOpt::POINT, true, true, false, blk ? VectorInt(ndim, 1) : VectorInt());
      for (int iv = 0; iv < nvar; iv++)
      {
        std::string z = "Kriging.z" + std::to_string(iv + 1);
        o[blk].est[iv] = col(g.get(), z + ".estim"); o[blk].std[iv] = col(g.get(), z + ".stdev"); o[blk].varz[iv] = col(g.get(), z + ".varz");
      }
    }
    C.eval();
    if (o[0].err && o[1].err) { C.skip(); C.outcome("both-refused"); return; }
    double worst = 0;
    std::string d = cmpOut(o[0], o[1], nvar, nt, false, worst);
    C.outcome(d.empty() ? "equal:" + decade(worst) : "DIFFERENT");
    bool defined = false;
    for (int t = 0; t < nt; t++) if (!FFFF(o[0].est[0][t]) && !std::isnan(o[0].est[0][t])) defined = true;
    if (defined) C.nontrivial(id);
    if (!d.empty())
    {
      // mechanism seen on the unchanged tree: the weights / estimates agree, the block variance uses Cvv evaluated between the
      // discretisation point and a randomly shifted copy of it instead of C(0): var_point - var_block is the same at every target
      std::string key = "block-ndisc1:differs";
      if (d.find("stdev") == 0)
      {
        bool constant = true, estSame = true; double off = std::nan(""); std::string offs;
        for (int iv = 0; iv < nvar && constant; iv++)
        {
          off = std::nan("");
          for (int t = 0; t < nt; t++)
          {
            double e0 = o[0].est[iv][t], e1 = o[1].est[iv][t], s0 = o[0].std[iv][t], s1 = o[1].std[iv][t];
            if (FFFF(e0) || FFFF(e1) || FFFF(s0) || FFFF(s1)) continue;
            if (std::fabs(e0 - e1) > 1e-9 * std::max(1., std::fabs(e0))) estSame = false;
            double dv = s0 * s0 - s1 * s1;
            offs += " " + fmt(dv) + "(est " + fmt(e0 - e1) + ")";
            if (std::isnan(off)) off = dv;
            else if (std::fabs(dv - off) > 1e-8 * std::max(1., std::fabs(off))) constant = false;
          }
        }
        if (estSame) { key = "block-ndisc1:estimates-equal-variance-differs(Cvv-of-shifted-point-instead-of-C0)"; C.outcome(constant ? "variance-offset:constant-over-targets" : "variance-offset:varies-over-targets"); }
        d += " [var_point-var_block per target:" + offs + "]";
      }
      C.violation(key, "point kriging vs block kriging with ndisc=1: " + d + " ; data=" + raw_str(r) + " model=" + model_name(nvar, im) + " " + MEAN_NAME[kmean] + " neigh=" + std::to_string(kn) + " grid=" + std::to_string(idx[7]), kase);
    }
  });
}

// =====================================================================================================
// Part 7: KrigingCalcul (primal, dual, Bayes, collocated-unique, xvalid-unique forms)  vs  the standard kriging system
//         Sigma, X, Sigma0, X0, Sigma00, Z are obtained from the Model/Db through public calls, as test_Schur does.
// =====================================================================================================
namespace p7
{
using namespace kk;
struct Sys
{
  MatrixSquareSymmetric Sigma, Sigma00;
  MatrixRectangular X, Sigma0, X0;
  VectorDouble Z, means;
  bool hasDrift = false;
};
static MatrixSquareSymmetric toSym(const MatrixRectangular& m)
{
  MatrixSquareSymmetric s(m.getNRows());
  for (int i = 0; i < m.getNRows(); i++) for (int j = 0; j <= i; j++) s.setValue(i, j, m.getValue(i, j));
  return s;
}
// system of `din` for the single target Db `dtar` (1 sample, no variable)
static void build(Sys& S, Model* m, Db* din, Db* dtar, const VectorInt& nbghTarget = VectorInt())
{
  int nvar = m->getVariableNumber();
  S.means.resize(nvar);
  S.hasDrift = m->getDriftNumber() > 0;
  for (int iv = 0; iv < nvar; iv++) S.means[iv] = S.hasDrift ? 0. : m->getMean(iv);
  S.Sigma = m->evalCovMatrixSymmetric(din);
  S.Sigma0 = m->evalCovMatrix(din, dtar, -1, -1, VectorInt(), nbghTarget);
  // C(0) between the variables: the target against itself (a target Db has no variable: every sample is kept)
  S.Sigma00 = toSym(m->evalCovMatrix(dtar, dtar, -1, -1, nbghTarget, nbghTarget));
  if (S.hasDrift) { S.X = m->evalDriftMatrix(din); S.X0 = m->evalDriftMatrix(dtar, -1, nbghTarget); }
  S.Z = din->getMultipleValuesActive(VectorInt(), VectorInt(), S.means);
}
static void feed(KrigingCalcul& K, Sys& S, bool withRHS = true)
{
  K.setData(&S.Z, &S.means);
  K.setLHS(&S.Sigma, S.hasDrift ? &S.X : nullptr);
  if (withRHS) K.setRHS(&S.Sigma0, S.hasDrift ? &S.X0 : nullptr);
  K.setVar(&S.Sigma00);
}
struct Res { VD est, std, varz; };
static Res fromCalc(KrigingCalcul& K, bool varz = true)
{
  Res r;
  VectorDouble e = K.getEstimation(), s = K.getStdv(), v = varz ? K.getVarianceZstar() : VectorDouble();
  r.est.assign(e.begin(), e.end()); r.std.assign(s.begin(), s.end()); r.varz.assign(v.begin(), v.end());
  return r;
}
// a/b: "" or description; sets worst. Undefined on one side only is a difference.
static std::string cmp(const char* what, const VD& a, const VD& b, bool square, double& worst)
{
  if (a.size() != b.size()) return std::string(what) + ": " + std::to_string(a.size()) + " value(s) vs " + std::to_string(b.size());
  for (size_t i = 0; i < a.size(); i++)
  {
    bool ua = FFFF(a[i]) || std::isnan(a[i]), ub = FFFF(b[i]) || std::isnan(b[i]);
    if (ua || ub) { if (ua != ub) return std::string(what) + " of variable " + std::to_string(i + 1) + ": " + fmt(a[i]) + " vs " + fmt(b[i]); continue; }
    double x = square ? a[i] * a[i] : a[i], y = square ? b[i] * b[i] : b[i];
    double e = std::fabs(x - y) / std::max({1., std::fabs(x), std::fabs(y)});
    worst = std::max(worst, e);
    if (e > 1e-8) return std::string(what) + " of variable " + std::to_string(i + 1) + ": " + fmt(a[i]) + " (KrigingCalcul) vs " + fmt(b[i]) + " (kriging)";
  }
  return "";
}

// third answer (arbitration only): the documented formulas solved with Eigen (full-pivot LU) on the matrices of the Sys
// prior (pm, pc) optional: Bayesian kriging = simple kriging of Z - X pm with covariance Sigma + X pc X'
static Res brute(const Sys& S, const VectorDouble* pm = nullptr, const MatrixSquareSymmetric* pc = nullptr)
{
  using namespace Eigen;
  int N = S.Sigma.getNRows(), nv = S.Sigma00.getNRows(), p = S.hasDrift ? S.X.getNCols() : 0;
  MatrixXd Sg(N, N), s0(N, nv), C00(nv, nv), X(N, p), X0(nv, p);
  VectorXd Z(N);
  for (int i = 0; i < N; i++) { Z(i) = S.Z[i]; for (int j = 0; j < N; j++) Sg(i, j) = S.Sigma.getValue(i, j); for (int v = 0; v < nv; v++) s0(i, v) = S.Sigma0.getValue(i, v); for (int k = 0; k < p; k++) X(i, k) = S.X.getValue(i, k); }
  for (int v = 0; v < nv; v++) { for (int w = 0; w < nv; w++) C00(v, w) = S.Sigma00.getValue(v, w); for (int k = 0; k < p; k++) X0(v, k) = S.X0.getValue(v, k); }
  Res r;
  if (pm != nullptr)
  {
    MatrixXd P(p, p); VectorXd m(p);
    for (int k = 0; k < p; k++) { m(k) = (*pm)[k]; for (int l = 0; l < p; l++) P(k, l) = pc->getValue(k, l); }
    MatrixXd Sb = Sg + X * P * X.transpose(), s0b = s0 + X * P * X0.transpose(), Cb = C00 + X0 * P * X0.transpose();
    MatrixXd lam = Sb.fullPivLu().solve(s0b);
    VectorXd e = X0 * m + lam.transpose() * (Z - X * m);
    MatrixXd var = Cb - s0b.transpose() * lam;
    for (int v = 0; v < nv; v++) { r.est.push_back(e(v)); r.std.push_back(std::sqrt(std::max(0., var(v, v)))); }
    return r;
  }
  if (p == 0)
  {
    MatrixXd lam = Sg.fullPivLu().solve(s0);
    VectorXd e = lam.transpose() * Z;
    MatrixXd var = C00 - s0.transpose() * lam;
    for (int v = 0; v < nv; v++) { r.est.push_back(e(v) + S.means[v]); r.std.push_back(std::sqrt(std::max(0., var(v, v)))); }
    return r;
  }
  MatrixXd A = MatrixXd::Zero(N + p, N + p), B(N + p, nv);
  A.topLeftCorner(N, N) = Sg; A.topRightCorner(N, p) = X; A.bottomLeftCorner(p, N) = X.transpose();
  B.topRows(N) = s0; B.bottomRows(p) = X0.transpose();
  MatrixXd W = A.fullPivLu().solve(B);
  VectorXd e = W.topRows(N).transpose() * Z;
  MatrixXd var = C00 - W.transpose() * B;
  for (int v = 0; v < nv; v++) { r.est.push_back(e(v)); r.std.push_back(std::sqrt(std::max(0., var(v, v)))); }
  return r;
}
// mechanism seen on the unchanged tree: simple kriging with non-zero means, the mean is not added back to the estimate
static bool meanMissing(const Res& calc, const Res& ref, const VectorDouble& means, const VectorInt* vars = nullptr)
{
  if (calc.est.size() != ref.est.size()) return false;
  bool any = false;
  for (size_t i = 0; i < calc.est.size(); i++)
  {
    double m = means[vars ? (*vars)[i] : (int)i];
    if (m != 0) any = true;
    if (FFFF(calc.est[i]) || !close(calc.est[i] + m, ref.est[i], 1e-8, 1.)) return false;
    if (!calc.std.empty() && !ref.std.empty() && !close(calc.std[i] * calc.std[i], ref.std[i] * ref.std[i], 1e-8, 1.)) return false;
  }
  return any;
}
static std::string resStr(const Res& r) { return "est=" + vstr(r.est) + " std=" + vstr(r.std); }
// which side agrees with the third answer (first variable)
static std::string blame(const Res& calc, const Res& krig, const Res& bf)
{
  auto same = [](const Res& a, const Res& b) { return !a.est.empty() && !b.est.empty() && close(a.est[0], b.est[0], 1e-8, 1.) && close(a.std[0] * a.std[0], b.std[0] * b.std[0], 1e-8, 1.); };
  return same(calc, bf) ? "standard-path-wrong" : same(krig, bf) ? "calcul-wrong" : "both-differ-from-formulas";
}
static Db* oneTarget(int ndim, const VVD& t4, int kt)
{
  Raw t; t.ndim = ndim; t.nvar = 0; t.n = 1; t.x = VVD(ndim, VD(1));
  for (int d = 0; d < ndim; d++) t.x[d][0] = t4[d][kt];
  return raw_to_db(t);
}
static Res fromKriging(Db* din, Db* dtar, Model* m, bool varz, int nvar, int* err, const char* prefix = "Kriging")
{
  Res r;
  std::unique_ptr<NeighUnique> nu(NeighUnique::create());
  *err = kriging(din, dtar, m, nu.get(), EKrigOpt::POINT, true, true, varz);
  for (int iv = 0; iv < nvar; iv++)
  {
    std::string z = std::string(prefix) + ".z" + std::to_string(iv + 1);
    r.est.push_back(col(dtar, z + ".estim")[0]); r.std.push_back(col(dtar, z + ".stdev")[0]);
    if (varz) r.varz.push_back(col(dtar, z + ".varz")[0]);
  }
  return r;
}
}  // namespace p7

VF_PART(p7_krigingcalcul)
{
  using namespace p7;
  bool T = C.thorough();
  Space sp;
  sp.axis("ndim", 3).axis("layout", NLAYOUT).axis("n", T ? 3 : 2).axis("model", NMODEL1 + NMODEL2).axis("mean", NMEAN).axis("upat", 3).axis("verr", 2).axis("target", 4);
  for_each_case(C, sp, [&](uint64_t id, const std::vector<int>& idx) {
    int ndim = idx[0] + 1, ilay = idx[1], n = T ? 4 + idx[2] : (idx[2] ? 6 : 4);
    int nvar = idx[3] < NMODEL1 ? 1 : 2, im = idx[3] < NMODEL1 ? idx[3] : idx[3] - NMODEL1, kmean = idx[4], upat = idx[5], kv = idx[6], kt = idx[7];
    bool intrinsic = nvar == 1 && im == 7;
    std::string kase = std::to_string(id);
    if (intrinsic && kmean < 2) { C.skip(); C.outcome("excluded:intrinsic-model-without-drift"); return; }
    int nfeq = kmean == 2 ? 1 : kmean == 3 ? 1 + ndim : 0;
    if (n - 2 <= nfeq) { C.skip(); C.outcome("excluded:not-more-data-than-drift-equations"); return; }
    set_ndim(ndim);
    Raw r = make_raw(ndim, nvar, ilay, n);
    if (upat == 1) r.z[0][1] = TEST;
    if (upat == 2) { r.z[nvar - 1][0] = TEST; r.z[0][2] = TEST; }
    if (kv) for (int iv = 0; iv < nvar; iv++) r.v.push_back(verr(iv, n));
    VVD t4 = targets(ndim, ilay, 4);
    bool varz = !intrinsic && kmean < 2;   // variance of the estimator: stationary, known mean (where both sides define it)
    std::string what = " ; data=" + raw_str(r) + " target#" + std::to_string(kt) + " model=" + model_name(nvar, im) + " " + MEAN_NAME[kmean];
    if (id % 20011 == 7) C.sample("{\"id\":" + kase + ",\"data\":" + raw_str(r) + ",\"model\":" + jstr(model_name(nvar, im)) + ",\"mean\":" + jstr(MEAN_NAME[kmean]) + "}");

    // ---------------- standard system
    DbP din(raw_to_db(r)), dtar(oneTarget(ndim, t4, kt));
    ModelP m(make_model(ndim, nvar, im)); applyMean(m.get(), kmean, intrinsic);
    int err = 0;
    Res ref = fromKriging(din.get(), dtar.get(), m.get(), varz, nvar, &err);
    if (err || FFFF(ref.est[0]) || std::isnan(ref.est[0])) { C.skip(); C.outcome("excluded:standard-system-refused-or-singular"); return; }

    // ---------------- primal form
    {
      DbP d1(raw_to_db(r)), t1(oneTarget(ndim, t4, kt));
      ModelP m1(make_model(ndim, nvar, im)); applyMean(m1.get(), kmean, intrinsic);
      Sys S; build(S, m1.get(), d1.get(), t1.get());
      KrigingCalcul K(false); feed(K, S);
      Res a = fromCalc(K, varz);
      C.eval();
      double worst = 0;
      std::string d = cmp("estimation", a.est, ref.est, false, worst);
      if (d.empty()) d = cmp("stdev", a.std, ref.std, true, worst);
      if (d.empty() && varz) d = cmp("varz", a.varz, ref.varz, false, worst);
      C.outcome(std::string("primal:") + (S.hasDrift ? "UK:" : "SK:") + (d.empty() ? decade(worst) : "DIFFERENT"));
      C.nontrivial(Hash().u(id).i(1).h);
      if (!d.empty())
      {
        Res bf = brute(S);
        std::string key = (!S.hasDrift && meanMissing(a, ref, S.means)) ? "krigingcalcul:sk-mean-not-added:primal" : std::string("krigingcalcul:primal:") + (S.hasDrift ? "UK" : "SK") + ":" + d.substr(0, d.find(' ')) + ":" + blame(a, ref, bf);
        C.violation(key, "KrigingCalcul (primal) vs kriging: " + d + " ; formulas solved by the harness: " + resStr(bf) + what, kase);
      }
      // ---------------- dual form (estimation only)
      KrigingCalcul KD(true);
      KD.setData(&S.Z, &S.means); KD.setLHS(&S.Sigma, S.hasDrift ? &S.X : nullptr); KD.setRHS(&S.Sigma0, S.hasDrift ? &S.X0 : nullptr);
      VectorDouble ed = KD.getEstimation();
      C.eval();
      worst = 0;
      std::string dd = cmp("estimation", VD(ed.begin(), ed.end()), ref.est, false, worst);
      C.outcome(std::string("dual:") + (S.hasDrift ? "UK:" : "SK:") + (dd.empty() ? decade(worst) : "DIFFERENT"));
      if (!dd.empty()) C.violation(std::string("krigingcalcul:dual:") + (S.hasDrift ? "UK" : "SK"), "KrigingCalcul (dual) vs kriging: " + dd + what, kase);
    }

    // ---------------- Bayesian form (needs drift functions): kribayes is the standard path
    if (kmean >= 2 && !intrinsic)
    {
      int nbfl = nfeq * nvar;
      VectorDouble pm(nbfl); MatrixSquareSymmetric pc(nbfl);
      for (int k = 0; k < nbfl; k++) { pm[k] = 0.5 - 0.25 * k; pc.setValue(k, k, 0.5 + 0.125 * k); }
      if (nbfl > 1) pc.setValue(1, 0, 0.125);
      // kribayes runs in a forked child: on the unchanged tree it writes out of bounds when a sample is undefined / masked
      int eb = 0;
      Res rb;
      ChildResult cr = run_child([&](int wfd) {
        DbP d0(raw_to_db(r)), t0(oneTarget(ndim, t4, kt));
        ModelP m0(make_model(ndim, nvar, im)); applyMean(m0.get(), kmean, intrinsic);
        std::unique_ptr<NeighUnique> nu(NeighUnique::create());
        int e = kribayes(d0.get(), t0.get(), m0.get(), nu.get(), pm, pc, true, true);
        std::string o = std::to_string(e);
        for (int iv = 0; iv < nvar; iv++) { std::string z = "Bayes.z" + std::to_string(iv + 1); o += " " + fmt(col(t0.get(), z + ".estim")[0]) + " " + fmt(col(t0.get(), z + ".stdev")[0]); }
        child_write(wfd, o);
        return 0;
      }, 10.);
      if (!cr.clean() || cr.code != 0 || cr.data.empty())
      {
        C.eval(); C.outcome("bayes:kribayes-" + cr.describe());
        C.violation(std::string("kribayes:crash:") + (upat ? "undefined-values" : "complete-data"), "kribayes " + cr.describe() + " (standard path of the Bayesian form; KrigingCalcul is not involved)" + what, kase);
        eb = 1; rb.est = {TEST};
      }
      else
      {
        std::stringstream ss(cr.data); ss >> eb;
        for (int iv = 0; iv < nvar; iv++) { double e, sd; ss >> e >> sd; rb.est.push_back(e); rb.std.push_back(sd); }
      }
      if (eb || FFFF(rb.est[0]) || std::isnan(rb.est[0])) { C.outcome("bayes:standard-path-refused"); }
      else
      {
        DbP d1(raw_to_db(r)), t1(oneTarget(ndim, t4, kt));
        ModelP m1(make_model(ndim, nvar, im)); applyMean(m1.get(), kmean, intrinsic);
        Sys S; build(S, m1.get(), d1.get(), t1.get());
        KrigingCalcul K(false); feed(K, S); K.setBayes(&pm, &pc);
        Res a = fromCalc(K, false);
        C.eval();
        double worst = 0;
        std::string d = cmp("estimation", a.est, rb.est, false, worst);
        if (d.empty()) d = cmp("stdev", a.std, rb.std, true, worst);
        C.outcome(std::string("bayes:") + (d.empty() ? decade(worst) : "DIFFERENT"));
        C.nontrivial(Hash().u(id).i(2).h);
        if (!d.empty())
        {
          Res bf = brute(S, &pm, &pc);
          C.violation("krigingcalcul:bayes:nvar=" + std::to_string(nvar) + ":" + d.substr(0, d.find(' ')) + ":" + blame(a, rb, bf), "KrigingCalcul (Bayes) " + resStr(a) + " vs kribayes " + resStr(rb) + " ; formulas solved by the harness: " + resStr(bf) + " prior mean=" + vstr(pm) + what, kase);
        }
      }
    }

    // ---------------- cross-validation form: sample i0 left out in all its variables, vs kriging of the depleted data onto it
    if (kv == 0)
    {
      int i0 = (kt + 1) % n;
      DbP d1(raw_to_db(r));
      bool anydef = false; for (int iv = 0; iv < nvar; iv++) if (!FFFF(r.z[iv][i0])) anydef = true;
      std::vector<int> keep(n, 1); keep[i0] = 0;
      Raw rr = reduce_raw(r, keep);
      int ndefLeft = 0; for (int i = 0; i < rr.n; i++) if (!FFFF(rr.z[0][i])) ndefLeft++;
      if (anydef && ndefLeft > nfeq)
      {
        VectorInt xvars; for (int iv = 0; iv < nvar; iv++) if (!FFFF(r.z[iv][i0])) xvars.push_back(iv);
        const VectorVectorInt index = d1->getMultipleRanksActive();
        // position of sample i0 inside each variable's list
        VectorInt eqs, vars; int lec = 0;
        for (int iv = 0; iv < nvar; iv++) for (int k = 0; k < (int)index[iv].size(); k++) { if (index[iv][k] == i0) { eqs.push_back(lec); vars.push_back(iv); } lec++; }
        ModelP m1(make_model(ndim, nvar, im)); applyMean(m1.get(), kmean, intrinsic);
        Sys S;
        DbP tdummy(oneTarget(ndim, t4, kt));
        build(S, m1.get(), d1.get(), tdummy.get());
        KrigingCalcul K(false); feed(K, S, false); K.setXvalidUnique(&eqs, &vars);
        Res a = fromCalc(K, false);
        // standard path: depleted data, target = location of i0
        DbP dred(raw_to_db(rr));
        Raw rt; rt.ndim = ndim; rt.nvar = 0; rt.n = 1; rt.x = VVD(ndim, VD(1)); for (int d = 0; d < ndim; d++) rt.x[d][0] = r.x[d][i0];
        DbP tx(raw_to_db(rt));
        ModelP m2(make_model(ndim, nvar, im)); applyMean(m2.get(), kmean, intrinsic);
        int e2 = 0;
        Res rf = fromKriging(dred.get(), tx.get(), m2.get(), false, nvar, &e2);
        C.eval();
        if (e2 || FFFF(rf.est[0]) || std::isnan(rf.est[0])) { C.skip(); C.outcome("xvalid:excluded:depleted-system-singular"); }
        else
        {
          // KrigingCalcul returns one value per cross-validated equation
          VD re, rs; for (int k = 0; k < (int)vars.size(); k++) { re.push_back(rf.est[vars[k]]); rs.push_back(rf.std[vars[k]]); }
          double worst = 0;
          std::string d = cmp("estimation", a.est, re, false, worst);
          if (d.empty()) d = cmp("stdev", a.std, rs, true, worst);
          C.outcome(std::string("xvalid:") + (S.hasDrift ? "UK:" : "SK:") + (d.empty() ? decade(worst) : "DIFFERENT"));
          C.nontrivial(Hash().u(id).i(3).h);
          if (!d.empty())
          {
            Res rr2; rr2.est = re; rr2.std = rs;
            std::string key = (!S.hasDrift && meanMissing(a, rr2, S.means, &vars)) ? "krigingcalcul:sk-mean-not-added:xvalid" : std::string("krigingcalcul:xvalid:") + (S.hasDrift ? "UK" : "SK") + ":" + d.substr(0, d.find(' '));
            C.violation(key, "KrigingCalcul (xvalid-unique, sample " + std::to_string(i0) + ") vs kriging of the depleted data: " + d + what, kase);
          }
        }
      }
      else C.outcome("xvalid:excluded:nothing-to-cross-validate-or-too-few-data");
    }

    // ---------------- collocated form (2 variables): z2 known at the target, vs kriging of the data completed by that datum
    if (nvar == 2 && kt != 1)
    {
      double zc = 1.75;
      Raw rc = r;
      rc.n = n + 1;
      for (int d = 0; d < ndim; d++) rc.x[d].push_back(t4[d][kt]);
      rc.z[0].push_back(TEST); rc.z[1].push_back(zc);
      for (auto& v : rc.v) v.push_back(0.);
      DbP dc(raw_to_db(rc)), tc(oneTarget(ndim, t4, kt));
      ModelP mc(make_model(ndim, nvar, im)); applyMean(mc.get(), kmean, intrinsic);
      int ec = 0;
      Res rf = fromKriging(dc.get(), tc.get(), mc.get(), false, nvar, &ec);
      if (ec || FFFF(rf.est[0]) || std::isnan(rf.est[0])) { C.skip(); C.outcome("colcok:excluded:completed-system-singular"); }
      else
      {
        DbP d1(raw_to_db(r)), t1(oneTarget(ndim, t4, kt));
        ModelP m1(make_model(ndim, nvar, im)); applyMean(m1.get(), kmean, intrinsic);
        Sys S; build(S, m1.get(), d1.get(), t1.get());
        VectorDouble Zp = {TEST, zc - S.means[1]};
        VectorInt rk = {1};
        KrigingCalcul K(false); feed(K, S); K.setColCokUnique(&Zp, &rk);
        Res a = fromCalc(K, false);
        C.eval();
        double worst = 0;
        // the collocated variable itself is known at the target: only the other variable is compared
        std::string d = cmp("estimation", VD({a.est.empty() ? TEST : a.est[0]}), VD({rf.est[0]}), false, worst);
        if (d.empty()) d = cmp("stdev", VD({a.std.empty() ? TEST : a.std[0]}), VD({rf.std[0]}), true, worst);
        C.outcome(std::string("colcok:") + (S.hasDrift ? "UK:" : "SK:") + (d.empty() ? decade(worst) : "DIFFERENT"));
        C.nontrivial(Hash().u(id).i(4).h);
        if (!d.empty())
        {
          DbP dc2(raw_to_db(rc)), tc2(oneTarget(ndim, t4, kt));
          ModelP mc2(make_model(ndim, nvar, im)); applyMean(mc2.get(), kmean, intrinsic);
          Sys Sc; build(Sc, mc2.get(), dc2.get(), tc2.get());
          Res bf = brute(Sc);
          Res a1; a1.est = {a.est.empty() ? TEST : a.est[0]}; a1.std = {a.std.empty() ? TEST : a.std[0]};
          Res r1; r1.est = {rf.est[0]}; r1.std = {rf.std[0]};
          std::string key = (!S.hasDrift && meanMissing(a1, r1, S.means)) ? "krigingcalcul:sk-mean-not-added:colcok" : std::string("krigingcalcul:colcok:") + (S.hasDrift ? "UK" : "SK") + ":" + d.substr(0, d.find(' ')) + ":" + blame(a1, r1, bf);
          C.violation(key, "KrigingCalcul (collocated, z2=" + fmt(zc) + " at the target) " + resStr(a) + " vs kriging of the completed data " + resStr(rf) + " ; formulas solved by the harness on the completed data: " + resStr(bf) + what, kase);
        }
      }
    }
  });
}

// =====================================================================================================
// Part 6: collocated cokriging (rank_colcok)  vs  cokriging with the collocated datum appended to the data
// =====================================================================================================
VF_PART(p6_colcok)
{
  using namespace p7;
  bool T = C.thorough();
  Space sp;
  sp.axis("ndim", 3).axis("layout", NLAYOUT).axis("n", T ? 3 : 2).axis("model", NMODEL2).axis("mean", NMEAN).axis("upat", 3).axis("neigh", 3).axis("colvar", 2).axis("target", 4);
  for_each_case(C, sp, [&](uint64_t id, const std::vector<int>& idx) {
    int ndim = idx[0] + 1, ilay = idx[1], n = T ? 4 + idx[2] : (idx[2] ? 6 : 4), im = idx[3], kmean = idx[4], upat = idx[5], kn = idx[6], cvar = idx[7], kt = idx[8];
    int nvar = 2;
    std::string kase = std::to_string(id);
    int nfeq = kmean == 2 ? 1 : kmean == 3 ? 1 + ndim : 0;
    if (n - 2 <= nfeq) { C.skip(); C.outcome("excluded:not-more-data-than-drift-equations"); return; }
    set_ndim(ndim);
    Raw r = make_raw(ndim, nvar, ilay, n);
    if (upat == 1) r.z[0][1] = TEST;
    if (upat == 2) { r.z[1][0] = TEST; r.z[0][2] = TEST; }
    VVD t4 = targets(ndim, ilay, 4);
    if (kt == 1) { C.skip(); C.outcome("excluded:target-coincides-with-a-datum(collocated datum not added, by design)"); return; }
    double zc = cvar == 0 ? 1.75 : -0.5;
    auto mkNeigh = [&]() -> ANeigh* {
      if (kn == 0) return NeighUnique::create();
      // moving neighbourhoods wide enough to hold all samples (+ the collocated one in the reference run)
      return NeighMoving::create(false, kn == 1 ? 100 : n + 1, TEST, 1, 1, ITEST, VectorDouble(ndim, 1.));
    };
    std::string what = " ; data=" + raw_str(r) + " target#" + std::to_string(kt) + " collocated z" + std::to_string(cvar + 1) + "=" + fmt(zc) + " model=" + model_name(nvar, im) + " " + MEAN_NAME[kmean] + " neigh=" + std::to_string(kn);
    // ---- fast path: rank_colcok. In a forked child: on the unchanged tree the LHS is built from the projected point of rank -1
    //      (the collocated target is coded -1 in the neighbour list) = out-of-bounds read, crash or garbage
    Res a; int ea = 0;
    ChildResult cr = run_child([&](int wfd) {
      DbP din(raw_to_db(r));
      Raw t; t.ndim = ndim; t.nvar = 0; t.n = 1; t.x = VVD(ndim, VD(1)); for (int d = 0; d < ndim; d++) t.x[d][0] = t4[d][kt];
      t.f.push_back({zc});   // the collocated value lives in an ordinary column of the target Db
      DbP dtar(raw_to_db(t));
      dtar->setLocator("f1", ELoc::UNKNOWN, 0);
      ModelP m(make_model(ndim, nvar, im)); applyMean(m.get(), kmean, false);
      std::unique_ptr<ANeigh> ng(mkNeigh());
      VectorInt rank(nvar, -1); rank[cvar] = dtar->getUID("f1");
      int e = kriging(din.get(), dtar.get(), m.get(), ng.get(), EKrigOpt::POINT, true, true, false, VectorInt(), rank);
      std::string o = std::to_string(e);
      for (int iv = 0; iv < nvar; iv++) { std::string z = "Kriging.z" + std::to_string(iv + 1); o += " " + fmt(kk::col(dtar.get(), z + ".estim")[0]) + " " + fmt(kk::col(dtar.get(), z + ".stdev")[0]); }
      child_write(wfd, o);
      return 0;
    }, 10.);
    bool crashed = !cr.clean() || cr.code != 0 || cr.data.empty();
    if (!crashed)
    {
      std::stringstream ss(cr.data); ss >> ea;
      for (int iv = 0; iv < nvar; iv++) { double e, sd; ss >> e >> sd; a.est.push_back(e); a.std.push_back(sd); }
    }
    // ---- reference path: the datum appended
    Res b; int eb;
    {
      Raw rc = r; rc.n = n + 1;
      for (int d = 0; d < ndim; d++) rc.x[d].push_back(t4[d][kt]);
      rc.z[cvar].push_back(zc); rc.z[1 - cvar].push_back(TEST);
      DbP din(raw_to_db(rc)), dtar(oneTarget(ndim, t4, kt));
      ModelP m(make_model(ndim, nvar, im)); applyMean(m.get(), kmean, false);
      std::unique_ptr<ANeigh> ng(mkNeigh());
      eb = kriging(din.get(), dtar.get(), m.get(), ng.get(), EKrigOpt::POINT, true, true, false);
      for (int iv = 0; iv < nvar; iv++) { std::string z = "Kriging.z" + std::to_string(iv + 1); b.est.push_back(col(dtar.get(), z + ".estim")[0]); b.std.push_back(col(dtar.get(), z + ".stdev")[0]); }
    }
    C.eval();
    if (eb || FFFF(b.est[0]) || std::isnan(b.est[0])) { C.skip(); C.outcome("excluded:completed-system-refused-or-singular"); return; }
    // one key for the whole fast path: what an out-of-bounds read produces (crash / garbage / refusal) is not reproducible
    static const char* KEY = "colcok:rank_colcok-path-crashes-or-differs";
    if (crashed) { C.outcome("colcok-path:" + cr.describe()); C.nontrivial(id); C.violation(KEY, "kriging with rank_colcok: " + cr.describe() + " ; the completed data set is kriged normally: " + resStr(b) + what, kase); return; }
    if (ea) { C.outcome("colcok-path:refused"); C.violation(KEY, "kriging with rank_colcok returns an error where the completed data set is kriged normally" + what, kase); return; }
    double worst = 0;
    std::string d = cmp("estimation", a.est, b.est, false, worst);
    if (d.empty()) d = cmp("stdev", a.std, b.std, true, worst);
    C.outcome(std::string(kn == 0 ? "unique:" : "moving:") + (d.empty() ? decade(worst) : "DIFFERENT"));
    C.nontrivial(id);
    if (id % 5003 == 1) C.sample("{\"id\":" + kase + ",\"data\":" + raw_str(r) + ",\"model\":" + jstr(model_name(nvar, im)) + "}");
    if (!d.empty()) C.violation(KEY, "collocated cokriging (rank_colcok) " + resStr(a) + " vs cokriging with the datum appended " + resStr(b) + ": " + d + what, kase);
  });
}

// =====================================================================================================
// Part 4c (E2): ONE Db object and ONE NeighMoving with ball search re-used along a history of steps
//   0 attach(din, targets A)   1 attach(din, targets B)   2 move all samples in place to the other layout (same n)
//   3 toggle value z[2] defined/undefined   4 toggle the selection of sample 0 (edit of the selection column in place)
//   5 add a sample   6 delete the last sample   7 select(target 0)   8 select(target 2)
//   9 kriging(din, targets A, model, THE neigh)   10 migrate(din -> targets A, flag_ball) (a second call sees the edited Db)
// After every select / kriging / migrate the result is compared with the plain scan (fresh NeighMoving without ball, plain
// kriging, migrate without ball) on the CURRENT content, for the targets that satisfy the property's precondition (the nmaxi
// Euclidean-nearest samples all admissible, no tie). A bare select is judged only if the neighbourhood was (re)attached after
// the last edit of the Db (the tree and the memo are snapshots taken by attach(); kriging() always re-attaches).
// =====================================================================================================
namespace p4c
{
struct World
{
  int ndim = 2, lay = 0, n = 5;
  bool zundef = false, masked = false;
  int attached = 0;       // 0 none, 1 targets A, 2 targets B
  bool dirty = false;     // Db edited since the last attach
  int lastSel = -1;
  bool migrated = false;  // migrate(flag_ball) already called once on this Db object
  uint64_t snap = 0;      // hash of the coordinates seen by the last attach
  Raw raw() const
  {
    Raw r = make_raw(ndim, 1, lay, n);
    r.sel = VD(n, 1.);
    if (masked) r.sel[0] = 0;
    if (zundef) r.z[0][2] = TEST;
    return r;
  }
  uint64_t key() const { return Hash().i(lay).i(n).i(zundef).i(masked).i(attached).i(dirty).i(lastSel).i(migrated).u(snap).h; }
};
}  // namespace p4c

VF_PART(p4_ball_history)
{
  using namespace p4;
  using namespace p4c;
  bool T = C.thorough();
  static const char* OPN[11] = {"attach(A)", "attach(B)", "move-samples-in-place", "toggle z[2] undefined", "toggle mask of sample 0", "add sample", "delete last sample",
                                "select(0)", "select(2)", "kriging(reused neigh)", "migrate(ball)"};
  for (int cfg = 0; cfg < (T ? 6 : 3); cfg++)
  {
    int ndim = cfg % 3 + 1, nmaxi = 2 + cfg / 3, leaf = cfg % 2 ? 1 : 10;
    // no pruning on the model key: the hidden state under test (a stale tree, a stale memo) is precisely what the intended-state
    // key cannot see; every history up to the depth is executed
    bfs(C, 11, T ? 5 : 4, [&](const History& h) -> StepResult {
      set_ndim(ndim);
      World W; W.ndim = ndim;
      DbP din(raw_to_db(W.raw()));
      Raw ta; ta.ndim = ndim; ta.nvar = 0; ta.n = 4; ta.x = targets(ndim, 0, 4);
      Raw tb; tb.ndim = ndim; tb.nvar = 0; tb.n = 4; tb.x = targets(ndim, 1, 5); for (auto& c : tb.x) c.erase(c.begin());   // other points (targets 1..4 of layout 1)
      DbP dA(raw_to_db(ta)), dB(raw_to_db(tb));
      std::unique_ptr<NeighMoving> ball(NeighMoving::create(false, nmaxi, TEST));
      ball->setBallSearch(true, leaf);
      // the ball branch of NeighMoving::_moving is taken only for an isotropic search without sectors: check it (non-vacuity)
      if (!(ball->_useBallSearch && !ball->getFlagSector() && !ball->getFlagAniso())) { C.violation("harness:ball-branch-not-taken", "harness self-check: the ball search is disabled for this neighbourhood", hist_str(h)); }
      StepResult R;
      std::string hs; for (int op : h) hs += std::string(hs.empty() ? "" : " ; ") + OPN[op];
      auto admissibleTarget = [&](const Raw& cur, const VVD& tx, int it, std::vector<int>* expected) {
        std::vector<std::pair<double, int>> byd;
        for (int i = 0; i < cur.n; i++) byd.push_back({d2(cur.x, i, tx, it), i});
        std::sort(byd.begin(), byd.end());
        int k = std::min(nmaxi, cur.n);
        for (int j = 0; j < k; j++) { int i = byd[j].second; if (cur.sel[i] <= 0 || FFFF(cur.z[0][i])) return false; }
        if (k < cur.n && byd[k - 1].first == byd[k].first) return false;
        if (expected) { expected->clear(); for (int j = 0; j < k; j++) expected->push_back(byd[j].second); std::sort(expected->begin(), expected->end()); }
        return true;
      };
      for (size_t step = 0; step < h.size(); step++)
      {
        int op = h[step];
        bool last = step + 1 == h.size();
        Raw cur = W.raw();
        switch (op)
        {
          case 0: case 1:
            ball->attach(din.get(), op == 0 ? dA.get() : dB.get());
            W.attached = op + 1; W.dirty = false; W.lastSel = -1; W.snap = Hash().i(W.lay).i(W.n).h;
            break;
          case 2:
          {
            W.lay = 1 - W.lay;
            VVD x = layout(ndim, W.lay, W.n);
            for (int i = 0; i < W.n; i++) for (int d = 0; d < ndim; d++) din->setCoordinate(i, d, x[d][i]);
            W.dirty = true;
            break;
          }
          case 3: W.zundef = !W.zundef; din->setLocVariable(ELoc::Z, 2, 0, W.zundef ? TEST : values(0, 6)[2]); W.dirty = true; break;
          case 4: W.masked = !W.masked; din->setValue("sel", 0, W.masked ? 0. : 1.); W.dirty = true; break;
          case 5:
          {
            if (W.n >= 6) { R.enabled = false; R.expand = false; R.key = W.key(); return R; }
            int i = din->addSamples(1, 0.);
            VVD x = layout(ndim, W.lay, W.n + 1);
            for (int d = 0; d < ndim; d++) din->setCoordinate(W.n, d, x[d][W.n]);
            din->setLocVariable(ELoc::Z, W.n, 0, values(0, 6)[W.n]);
            din->setValue("sel", W.n, 1.);
            (void)i;
            W.n++; W.dirty = true;
            break;
          }
          case 6:
            if (W.n <= 4) { R.enabled = false; R.expand = false; R.key = W.key(); return R; }
            din->deleteSamples(VectorInt({W.n - 1}));
            W.n--; W.dirty = true;
            break;
          case 7: case 8:
          {
            if (W.attached == 0) { R.enabled = false; R.expand = false; R.key = W.key(); return R; }
            int it = op == 7 ? 0 : 2;
            VectorInt rb;
            if (W.dirty)
            {  // the object is in a state the library does not define (stale snapshot): do not call into it with a changed sample count
              if (last) C.outcome("select:not-judged(Db edited since attach)");
              R.enabled = false; R.expand = false; R.key = W.key(); return R;
            }
            ball->select(it, rb);
            W.lastSel = it;
            if (!last) break;
            const VVD& tx = W.attached == 1 ? ta.x : tb.x;
            std::vector<int> exp;
            if (!admissibleTarget(cur, tx, it, &exp)) { C.outcome("select:excluded(precondition: nearest not all admissible / tie)"); break; }
            std::unique_ptr<NeighMoving> plain(NeighMoving::create(false, nmaxi, TEST));
            plain->attach(din.get(), W.attached == 1 ? dA.get() : dB.get());
            VectorInt ra; plain->select(it, ra);
            std::vector<int> va(ra.begin(), ra.end()), vb(rb.begin(), rb.end());
            std::sort(va.begin(), va.end()); std::sort(vb.begin(), vb.end());
            bool same = va == vb;
            bool edited = false; for (size_t q = 0; q < step; q++) if (h[q] >= 2 && h[q] <= 6) edited = true;
            C.outcome(std::string("select:") + (same ? "same" : "DIFFERENT") + (edited ? ":after-in-place-edit+reattach" : ":pristine"));
            if (edited) C.nontrivial(Hash().i(cfg).vi(h).h);
            if (!same) C.violation(edited ? "ball-reuse:select-after-edit-and-reattach" : "ball-reuse:select", "history [" + hs + "] (ndim=" + std::to_string(ndim) + " nmaxi=" + std::to_string(nmaxi) + " leaf=" + std::to_string(leaf) +
                                   "): re-used ball search selects " + vstr(vb) + ", plain scan on the current Db " + vstr(va) + ", nearest admissible " + vstr(exp) + " ; current data=" + raw_str(cur), hist_str(h));
            break;
          }
          case 9:
          {
            ModelP m(make_model(ndim, 1, 1));
            int eb = kriging(din.get(), dA.get(), m.get(), ball.get(), EKrigOpt::POINT, true, true, false);
            VD e1 = kk::col(dA.get(), "Kriging.z1.estim"), s1 = kk::col(dA.get(), "Kriging.z1.stdev");
            dA->deleteColumns(VectorString({"Kriging.*"}));
            W.attached = 1; W.dirty = false; W.lastSel = 3; W.snap = Hash().i(W.lay).i(W.n).h;
            if (!last) break;
            std::unique_ptr<NeighMoving> plain(NeighMoving::create(false, nmaxi, TEST));
            ModelP m2(make_model(ndim, 1, 1));
            DbP dA2(raw_to_db(ta));
            int ep = kriging(din.get(), dA2.get(), m2.get(), plain.get(), EKrigOpt::POINT, true, true, false);
            VD e2 = kk::col(dA2.get(), "Kriging.z1.estim"), s2 = kk::col(dA2.get(), "Kriging.z1.stdev");
            bool edited = false; for (size_t q = 0; q < step; q++) if (h[q] >= 2 && h[q] <= 6) edited = true;
            std::string d;
            if (eb != ep) d = "return codes " + std::to_string(eb) + " vs " + std::to_string(ep);
            if (eb == 0 && ep == 0 && (std::isnan(e1[0]) || std::isnan(e2[0]))) { C.violation("harness:kriging-output-not-found", "harness self-check: kriging produced no Kriging.z1.estim column", hist_str(h)); break; }
            int judged = 0;
            for (int it = 0; it < 4 && d.empty(); it++)
            {
              if (!admissibleTarget(cur, ta.x, it, nullptr)) continue;
              judged++;
              bool u1 = FFFF(e1[it]) || std::isnan(e1[it]), u2 = FFFF(e2[it]) || std::isnan(e2[it]);
              if (u1 != u2 || (!u1 && (!close(e1[it], e2[it], 1e-9, 1.) || !close(s1[it] * s1[it], s2[it] * s2[it], 1e-9, 1.))))
                d = "target " + std::to_string(it) + ": est/std " + fmt(e1[it]) + "/" + fmt(s1[it]) + " (re-used ball neighbourhood) vs " + fmt(e2[it]) + "/" + fmt(s2[it]) + " (fresh plain neighbourhood)";
            }
            C.outcome(std::string("kriging:") + (d.empty() ? (judged ? "same" : "no-target-satisfies-precondition") : "DIFFERENT") + (edited ? ":after-in-place-edit" : ":pristine"));
            if (edited && judged) C.nontrivial(Hash().i(cfg).vi(h).h);
            if (!d.empty()) C.violation(edited ? "ball-reuse:kriging-after-edit" : "ball-reuse:kriging", "history [" + hs + "] (ndim=" + std::to_string(ndim) + " nmaxi=" + std::to_string(nmaxi) + " leaf=" + std::to_string(leaf) + "): " + d +
                                        " ; current data=" + raw_str(cur), hist_str(h));
            break;
          }
          case 10:
          {
            auto lastCol = [](Db* d, int ncolBefore) { VD v(d->getSampleNumber(), std::nan("")); int nc = d->getColumnNumber(); if (nc > ncolBefore) for (int i = 0; i < d->getSampleNumber(); i++) v[i] = d->getValueByColIdx(i, nc - 1); return v; };
            int nc0 = dA->getColumnNumber();
            int e1 = migrate(din.get(), dA.get(), "z1", 1, VectorDouble(), false, false, true);
            VD v1 = lastCol(dA.get(), nc0);
            while (dA->getColumnNumber() > nc0) dA->deleteColumnByColIdx(dA->getColumnNumber() - 1);
            W.migrated = true;
            if (!last) break;
            DbP dA2(raw_to_db(ta));
            int e2 = migrate(din.get(), dA2.get(), "z1", 1, VectorDouble(), false, false, false);
            VD v2 = lastCol(dA2.get(), nc0);
            if (e1 == 0 && e2 == 0 && (std::isnan(v1[0]) || std::isnan(v2[0]))) { C.violation("harness:migrate-output-not-found", "harness self-check: migrate produced no new column", hist_str(h)); break; }
            bool edited = false; for (size_t q = 0; q < step; q++) if (h[q] >= 2 && h[q] <= 6) edited = true;
            bool again = false; for (size_t q = 0; q < step; q++) if (h[q] == 10) again = true;
            std::string d;
            if (e1 != e2) d = "return codes " + std::to_string(e1) + " vs " + std::to_string(e2);
            for (int it = 0; it < 4 && d.empty(); it++)
            {
              // tie exclusion among all samples
              std::vector<double> ds; for (int i = 0; i < cur.n; i++) ds.push_back(d2(cur.x, i, ta.x, it));
              std::sort(ds.begin(), ds.end());
              bool tie = false; for (size_t q = 1; q < ds.size(); q++) if (ds[q] == ds[q - 1]) tie = true;
              if (tie) continue;
              bool same = (FFFF(v1[it]) && FFFF(v2[it])) || v1[it] == v2[it];
              if (!same) d = "target " + std::to_string(it) + ": " + fmt(v1[it]) + " (ball) vs " + fmt(v2[it]) + " (exhaustive)";
            }
            if (C.verbose) fprintf(stderr, "  [%s] migrate ball=%s exhaustive=%s data=%s\n", hs.c_str(), vstr(v1).c_str(), vstr(v2).c_str(), raw_str(cur).c_str());
            C.outcome(std::string("migrate:") + (d.empty() ? "same" : "DIFFERENT") + (edited && again ? ":second-call-after-edit" : edited ? ":after-edit" : ":pristine"));
            if (edited && again) C.nontrivial(Hash().i(cfg).vi(h).h);
            if (!d.empty()) C.violation(edited ? "ball-reuse:migrate-after-edit" : "ball-reuse:migrate", "history [" + hs + "] (ndim=" + std::to_string(ndim) + "): " + d + " ; current data=" + raw_str(cur), hist_str(h));
            break;
          }
        }
      }
      R.key = Hash().i(cfg).u(W.key()).h;
      return R;
    }, false);
  }
}

// ---- history: the same comparison when the model object has served other requests before (E2 over request sequences).
// The reference is the plain path on a FRESH model, so that a history effect on the plain path itself is seen too.
VF_PART(p1_history)
{
  using namespace p1;
  static const int NM = 3;
  int depth = C.thorough() ? 4 : 3;
  for (int km = 0; km < NM; km++)
  {
    int ndim = 2, nvar = km == 2 ? 2 : 1, im = km == 0 ? 1 : km == 1 ? 6 : 1;
    Raw ra = make_raw(ndim, nvar, 0, 4);
    Raw rm = make_raw(ndim, nvar, 0, 5); rm.sel = VD(5, 0.);
    Raw ru = make_raw(ndim, nvar, 1, 3); for (auto& z : ru.z) for (auto& v : z) v = TEST;
    Raw rb = make_raw(ndim, nvar, 1, 6);
    Raw rt; rt.ndim = ndim; rt.nvar = 0; rt.n = 4; rt.x = targets(ndim, 0, 4);
    DbP dbA(raw_to_db(ra)), dbM(raw_to_db(rm)), dbU(raw_to_db(ru)), dbB(raw_to_db(rb)), dbT(raw_to_db(rt));
    auto request = [&](Model* m, int op, bool optim) -> MatrixRectangular {
      switch (op)
      {
        case 0: return optim ? m->evalCovMatrixOptim(dbA.get()) : m->evalCovMatrix(dbA.get());
        case 1: return optim ? m->evalCovMatrixOptim(dbM.get()) : m->evalCovMatrix(dbM.get());
        case 2: return optim ? m->evalCovMatrixOptim(dbU.get()) : m->evalCovMatrix(dbU.get());
        case 3: { MatrixSquareSymmetric s = optim ? m->evalCovMatrixSymmetricOptim(dbB.get()) : m->evalCovMatrixSymmetric(dbB.get());
                  MatrixRectangular r(s.getNRows(), s.getNCols()); for (int i = 0; i < s.getNRows(); i++) for (int j = 0; j < s.getNCols(); j++) r.setValue(i, j, s.getValue(i, j)); return r; }
        case 4: return m->evalCovMatrix(dbA.get());   // plain path on the used model
        case 5: return optim ? m->evalCovMatrixOptim(dbA.get(), dbT.get()) : m->evalCovMatrix(dbA.get(), dbT.get());
      }
      return MatrixRectangular();
    };
    static const char* OPN[6] = {"optim(dbA)", "optim(db all masked)", "optim(db all undefined)", "symOptim(dbB)", "plain(dbA)", "optim(dbA,targets)"};
    C.cur_part = "p1_history";
    bfs(C, 6, depth, [&](const History& h) -> StepResult {
      ModelP m(make_model(ndim, nvar, im));
      MatrixRectangular last;
      bool failedBefore = false;
      for (size_t k = 0; k < h.size(); k++)
      {
        last = request(m.get(), h[k], true);
        if (k + 1 < h.size() && last.getNRows() == 0) failedBefore = true;
      }
      StepResult r;
      if (!h.empty())
      {
        ModelP fresh(make_model(ndim, nvar, im));
        MatrixRectangular ref = request(fresh.get(), h.back(), false);
        std::string d = mat_diff(ref, last, 1e-10, 1.);
        C.outcome(std::string(failedBefore ? "after-failed-request:" : "after-good-requests:") + (d.empty() ? "equal" : "DIFFERENT"));
        if (h.size() > 1) C.nontrivial(Hash().i(km).vi(h).h);
        if (!d.empty())
        {
          std::string hs; for (int op : h) hs += std::string(hs.empty() ? "" : " ; ") + OPN[op];
          C.violation(failedBefore ? (h.back() == 4 ? "optim:stale-cache-after-failure:plain-path" : "optim:stale-cache-after-failure") : "optim:history-after-success",
                      std::string("request sequence [") + hs + "] on one model (" + model_name(nvar, im) + "): last result differs from the plain path on a fresh model at " + d, hist_str(h));
        }
      }
      // hidden state = flags and cached point counts of every structure (+ the list)
      Hash k; k.i(km);
      const ACovAnisoList* l = m->getCovAnisoList();
      k.i(l->_isOptimPreProcessed);
      for (int i = 0; i < l->getCovaNumber(); i++) { k.i(l->getCova(i)->_isOptimPreProcessed).u(l->getCova(i)->_p1As.size()); }
      r.key = k.h;
      return r;
    }, false);
  }
}

int main(int argc, char** argv)
{
  return run_main(argc, argv, [](Ctx&) { silence(); }, [](Ctx& C) { write_states(C); });
}
