// C04 — accelerated code paths give the same answers as the plain ones.
// One part per pair (fast path, reference path) named in the property statement; every part enumerates a
// product of small menus completely (engine E1), the history dependent ones enumerate call sequences (E2).
// Oracle = the two REAL paths agree (numerical policy of DESIGN 2.9).
#include "vf/c0405_menu.hpp"
#include "vf/bfs.hpp"

#include "Covariances/ACovAnisoList.hpp"
#include "Covariances/CovAniso.hpp"
#include "Matrix/MatrixRectangular.hpp"
#include "Matrix/MatrixSquareSymmetric.hpp"

using namespace vf;
using namespace vfm;

// =====================================================================================================
// Part 1: evalCovMatrixOptim / evalCovMatrixSymmetricOptim  vs  evalCovMatrix / evalCovMatrixSymmetric
// =====================================================================================================
namespace p1
{
struct Setup
{
  int ndim, ilay, n, nvar, im, selpat, upat, verr, db2kind;
  DbP db1, db2;
  ModelP model;
  std::string desc;
};
static const int NSEL = 5, NUPAT = 4, NDB2 = 3;
static VD selmask(int pat, int n)
{
  VD s(n, 1.);
  switch (pat)
  {
    case 0: return VD();
    case 1: for (int i = 0; i < n; i++) s[i] = (i % 2 == 0); break;          // 1,0,1,0..
    case 2: for (int i = 0; i < n; i++) s[i] = (i == 0 || i == n - 1) ? 0 : 1; break;  // first and last masked
    case 3: for (int i = 0; i < n; i++) s[i] = (i == n - 1); break;          // a single active sample
    case 4: for (int i = 0; i < n; i++) s[i] = 0; break;                     // nothing active
  }
  return s;
}
static void upattern(Raw& r, int pat)
{
  switch (pat)
  {
    case 0: break;
    case 1: r.z[0][1] = TEST; break;
    case 2: r.z[r.nvar - 1][0] = TEST; r.z[0][2] = TEST; break;
    case 3: for (int iv = 0; iv < r.nvar; iv++) r.z[iv][1] = TEST; break;
  }
}
static bool build(Setup& S)
{
  Raw r = make_raw(S.ndim, S.nvar, S.ilay, S.n);
  upattern(r, S.upat);
  if (S.verr) for (int iv = 0; iv < S.nvar; iv++) r.v.push_back(verr(iv, S.n));
  r.sel = selmask(S.selpat, S.n);
  S.db1.reset(raw_to_db(r));
  S.db2.reset();
  if (S.db2kind == 1)
  {  // target points without any variable, with a selection masking the second one
    Raw t;
    t.ndim = S.ndim; t.nvar = 0; t.n = 4; t.x = targets(S.ndim, S.ilay, 4);
    t.sel = {1, 0, 1, 1};
    S.db2.reset(raw_to_db(t));
  }
  else if (S.db2kind == 2)
  {  // a second data set with variables (other layout), heterotopic
    Raw t = make_raw(S.ndim, S.nvar, 1 - S.ilay, 5);
    t.z[0][3] = TEST;
    S.db2.reset(raw_to_db(t));
  }
  S.model.reset(make_model(S.ndim, S.nvar, S.im));
  S.desc = "ndim=" + std::to_string(S.ndim) + " layout=" + std::to_string(S.ilay) + " n=" + std::to_string(S.n) + " model=" + model_name(S.nvar, S.im) +
           " data=" + raw_str(r) + " db2kind=" + std::to_string(S.db2kind);
  return S.db1 && S.model;
}
static VectorInt nbghOf(int k, int n)
{
  switch (k)
  {
    case 0: return VectorInt();
    case 1: return VectorInt({0, 2});
    case 2: return VectorInt({n - 1, 0, 1});  // not sorted
  }
  return VectorInt();
}
static const int NMODE = 5;
static CovCalcMode* modeOf(int k, int ncov)
{
  switch (k)
  {
    case 0: return nullptr;
    case 1: return new CovCalcMode();
    case 2: return new CovCalcMode(ECalcMember::LHS, true);
    case 3: return new CovCalcMode(ECalcMember::LHS, false, true);
    case 4: { auto* m = new CovCalcMode(); m->setActiveCovListFromOne(ncov - 1); return m; }
  }
  return nullptr;
}
static const char* MODE_NAME[NMODE] = {"null", "default", "asVario", "unitary", "onlyLastStructure"};

// true when some structure of the model still holds projected points / the pre-processed flag
static bool staleState(const Model* m)
{
  const ACovAnisoList* l = m->getCovAnisoList();
  if (l->_isOptimPreProcessed) return true;
  for (int i = 0; i < l->getCovaNumber(); i++)
  {
    const CovAniso* c = l->getCova(i);
    if (c->_isOptimPreProcessed || !c->_p1As.empty()) return true;
  }
  return false;
}
// what a successful request does at its end (public call); used by the harness so that the history effect of a FAILED
// request (judged in part p1_history / property C10) does not leak into the next differential comparison
static void cleanState(const Model* m) { m->getCovAnisoList()->optimizationPostProcess(); }
static bool optimCapable(const Model* m)
{
  const ACovAnisoList* l = m->getCovAnisoList();
  for (int i = 0; i < l->getCovaNumber(); i++) if (l->getCova(i)->isOptimEnabled()) return true;
  return false;
}
}  // namespace p1

VF_PART(p1_covmat_optim)
{
  using namespace p1;
  Space sp;
  bool T = C.thorough();
  sp.axis("ndim", 3).axis("layout", NLAYOUT).axis("n", T ? 3 : 1).axis("model", NMODEL1 + NMODEL2).axis("sel", NSEL).axis("upat", NUPAT).axis("verr", 2).axis("db2", NDB2);
  for_each_case(C, sp, [&](uint64_t id, const std::vector<int>& idx) {
    Setup S;
    S.ndim = idx[0] + 1; S.ilay = idx[1]; S.n = T ? 4 + idx[2] : 5;
    S.nvar = idx[3] < NMODEL1 ? 1 : 2; S.im = idx[3] < NMODEL1 ? idx[3] : idx[3] - NMODEL1;
    S.selpat = idx[4]; S.upat = idx[5]; S.verr = idx[6]; S.db2kind = idx[7];
    if (!build(S)) { C.skip(); C.outcome("build-failed"); return; }
    int ncov = S.model->getCovaNumber();
    bool capable = optimCapable(S.model.get());
    std::string kase = std::to_string(id);
    if (id % 4001 == 5) C.sample("{\"id\":" + kase + ",\"setup\":" + jstr(S.desc) + "}");
    for (int km = 0; km < NMODE; km++)
    {
      if (km == 4 && ncov < 2) continue;
      std::unique_ptr<CovCalcMode> mode(modeOf(km, ncov));
      for (int ivar0 = -1; ivar0 <= 1; ivar0++)
        for (int k1 = 0; k1 < 3; k1++)
        {
          VectorInt nb1 = nbghOf(k1, S.n);
          // ---- symmetric pair (does not read db2)
          if (S.db2kind == 0)
          {
            MatrixSquareSymmetric a = S.model->evalCovMatrixSymmetric(S.db1.get(), ivar0, nb1, mode.get());
            MatrixSquareSymmetric b = S.model->evalCovMatrixSymmetricOptim(S.db1.get(), ivar0, nb1, mode.get());
            C.eval();
            std::string d = mat_diff(a, b, 1e-10, 1.);
            bool empty = b.getNRows() == 0;
            C.outcome(std::string("sym:") + (empty ? "empty" : "matrix") + (d.empty() ? ":equal" : ":DIFFERENT"));
            if (!empty && capable) C.nontrivial(Hash().u(id).i(km).i(ivar0).i(k1).i(99).h);
            if (!d.empty())
              C.violation(km == 4 ? std::string("optim:active-cov-list-ignored:symmetric") : std::string("optim:symmetric:mode=") + MODE_NAME[km], "evalCovMatrixSymmetricOptim != evalCovMatrixSymmetric at " + d + " ; " + S.desc + " ivar0=" + std::to_string(ivar0) +
                          " nbgh1=" + vstr(nb1) + " mode=" + MODE_NAME[km], kase);
            if (staleState(S.model.get()))
            {  // a failed request leaves projected points behind (C10's subject): do not let it leak into the next comparison
              C.outcome(empty ? "sym:stale-state-after-empty-result" : "sym:stale-state-after-success");
              if (!empty) C.violation("optim:stale-cache-after-success", "projected points left behind after a successful evalCovMatrixSymmetricOptim; " + S.desc, kase);
              cleanState(S.model.get());
            }
          }
          // ---- rectangular pair (does not read V)
          if (S.verr == 0)
          for (int jvar0 = -1; jvar0 <= 1; jvar0++)
            for (int k2 = 0; k2 < 3; k2++)
            {
              const Db* d2 = S.db2.get();
              int n2 = d2 ? d2->getSampleNumber() : S.n;
              VectorInt nb2 = nbghOf(k2, n2);
              MatrixRectangular a = S.model->evalCovMatrix(S.db1.get(), S.db2.get(), ivar0, jvar0, nb1, nb2, mode.get());
              MatrixRectangular b = S.model->evalCovMatrixOptim(S.db1.get(), S.db2.get(), ivar0, jvar0, nb1, nb2, mode.get());
              C.eval();
              std::string d = mat_diff(a, b, 1e-10, 1.);
              bool empty = b.getNRows() == 0;
              C.outcome(std::string("rect:") + (empty ? "empty" : "matrix") + (d.empty() ? ":equal" : ":DIFFERENT"));
              if (!empty && capable) C.nontrivial(Hash().u(id).i(km).i(ivar0).i(k1).i(jvar0).i(k2).h);
              if (!d.empty())
                C.violation(km == 4 ? std::string("optim:active-cov-list-ignored:rect") : std::string("optim:rect:mode=") + MODE_NAME[km], "evalCovMatrixOptim != evalCovMatrix at " + d + " ; " + S.desc + " ivar0=" + std::to_string(ivar0) + " jvar0=" +
                            std::to_string(jvar0) + " nbgh1=" + vstr(nb1) + " nbgh2=" + vstr(nb2) + " mode=" + MODE_NAME[km], kase);
              if (staleState(S.model.get()))
              {
                C.outcome(empty ? "rect:stale-state-after-empty-result" : "rect:stale-state-after-success");
                if (!empty) C.violation("optim:stale-cache-after-success", "projected points left behind after a successful evalCovMatrixOptim; " + S.desc, kase);
                cleanState(S.model.get());
              }
            }
        }
    }
  });
}

int main(int argc, char** argv)
{
  return run_main(argc, argv, [](Ctx&) { silence(); }, [](Ctx& C) { write_states(C); });
}
