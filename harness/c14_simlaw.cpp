// C14 — non-conditional simulations follow the model they are given; the basic generators have the moments
// and ranges of the laws they claim to sample.
//
// Engine E4: the default ("old style") generator is a finite machine, x <- 105 x mod 20000159.  Everything the
// property says about "all seeds" is decided by walking its COMPLETE state graph on the real code:
//   lcg_graph   every state of [0,M): successor through the real law_uniform == reference model, the live states
//               form one cycle of length M-1, 0 is a fixed point (reported: lcg:fixed-point-seed)
//   seed_space  every admissible seed 1..2^31-1 (quick: 1..3M) through law_set_random_seed + law_uniform:
//               u in (0,1); seeds that land on the fixed point are counted
//   laws        for every law configuration x every live state: value finite and inside the support, number of
//               uniform draws consumed (exact, via the discrete log of the state) bounded, and the exact
//               population mean / variance / skewness over all M-1 states against theory
//   tb_grid_vs_points  exact equality of the DbGrid and point-Db code paths of turning bands, every structure type (E1)
//   fft_kernel  the covariance kernel simfft discretises (inverse transform of its stored spectrum) vs Model::eval at the lags
//               given by the grid geometry: rotated grids, non-square meshes, non-aligned anisotropy, 2-D and 3-D (E1)
//   popsim      FFT / Cholesky / spectral / SPDE / per-branch turning bands: exact population statistics over every seed
//   microsim    turning-bands micro-simulations: simtub() is run for EVERY seed 1..M-1 (map/reduce over forked
//               children); the exact population mean, variance, spatial and cross covariance of the simulated
//               values are compared with the model.
// Nothing is sampled: a population moment over the whole seed space has no sampling error; the tolerances only
// cover the lattice defect of a multiplier-105 generator and the band discretisation (DESIGN 3/C14).
#include "vf/gst.hpp"
#include "vf/lcg.hpp"

#include "Covariances/CovAniso.hpp"
#include "Model/Model.hpp"
#include "Simulation/CalcSimuTurningBands.hpp"
#include "Space/ASpaceObject.hpp"
#include "Space/SpacePoint.hpp"

using namespace vf;
static const int M = LCG_M;

static std::string f6(double v) { char b[48]; snprintf(b, 48, "%.6g", v); return b; }

// ---------------------------------------------------------------------------------------------------------
// lcg_graph : the state graph itself, on the real code
VF_PART(lcg_graph)
{
  if (!owns_part(C)) return;
  C.ps().space += (uint64_t)M;
  std::vector<bool> hit(M, false);
  uint64_t bad = 0;
  for (int s = 1; s < M; s++)
  {
    law_set_random_seed(s);
    double u = law_uniform(0., 1.);
    int nx = law_get_random_seed();
    int ref = lcg_next(s);
    if (nx != ref || nx <= 0 || nx >= M)
    {
      if (bad++ < 3) C.violation("lcg:successor", "state " + std::to_string(s) + ": law_uniform moved the generator to " + std::to_string(nx) + ", reference 105*s mod 20000159 = " + std::to_string(ref), "state=" + std::to_string(s));
      continue;
    }
    if (!(u > 0. && u < 1.) || u != (double)nx / (double)M)
      C.violation("range:uniform", "state " + std::to_string(s) + ": law_uniform() = " + fmt(u) + " is not the next state / M inside (0,1)", "state=" + std::to_string(s));
    if (hit[nx]) C.violation("lcg:not-a-permutation", "state " + std::to_string(nx) + " has two predecessors", "state=" + std::to_string(s));
    hit[nx] = true;
    if ((s & 4095) == 0) C.nontrivial((uint64_t)s);
  }
  C.eval((uint64_t)M - 1);
  // one cycle: walk the real generator M-1 steps from 1 without reseeding
  law_set_random_seed(1);
  uint64_t firstReturn = 0;
  for (uint64_t k = 1; k <= (uint64_t)M - 1; k++)
  {
    (void)law_uniform(0., 1.);
    if (law_get_random_seed() == 1) { firstReturn = k; break; }
  }
  C.outcome("cycle-length=" + std::to_string(firstReturn));
  if (firstReturn != (uint64_t)M - 1)
    C.violation("lcg:cycle-structure", "the walk from state 1 returns to 1 after " + std::to_string(firstReturn) + " draws instead of 20000158", "walk");
  C.ps().states += (uint64_t)M;
  C.ps().transitions += (uint64_t)M;
  C.ps().traces += 1;
  // the fixed point: only reachable through a seed = 0 (mod M); law_set_random_seed(0) is ignored by design
  {
    law_set_random_seed(M);
    double u1 = law_uniform(0., 1.);
    int s1 = law_get_random_seed();
    double u2 = law_uniform(0., 1.);
    double g = law_gaussian();
    double e = law_exponential();
    C.eval();
    C.outcome(s1 == 0 ? "seed=M:parks-on-fixed-point" : "seed=M:live");
    if (s1 == 0 || !(u1 > 0.) || !std::isfinite(g))
      C.violation("lcg:fixed-point-seed",
                  "law_set_random_seed(20000159) parks the generator on its fixed point 0: law_uniform() = " + fmt(u1) + ", " + fmt(u2) +
                    ", ... (always 0, outside (0,1)), law_gaussian() = " + fmt(g) + ", law_exponential() = " + fmt(e) +
                    " (not finite); every simulation seeded with a multiple of 20000159 is degenerate",
                  "seed=" + std::to_string(M));
    C.sample("{\"seed\":20000159,\"uniform\":" + f6(u1) + ",\"state_after\":" + std::to_string(s1) + "}");
    law_set_random_seed(1);
  }
}

// ---------------------------------------------------------------------------------------------------------
// seed_space : every admissible seed value
VF_PART(seed_space)
{
  uint64_t smax = C.thorough() ? 2147483647ULL : 3ULL * (uint64_t)M;
  C.ps().space += smax;
  auto one = [&](uint64_t seed, bool verbose) {
    law_set_random_seed((int)seed);
    double u = law_uniform(0., 1.);
    int nx = law_get_random_seed();
    bool fixed = (nx == 0);
    if (fixed)
      C.violation("lcg:fixed-point-seed", "law_set_random_seed(" + std::to_string(seed) + ") then law_uniform() = " + fmt(u) + ": generator parked on the fixed point 0 (all later uniforms 0, law_gaussian = inf)", "seed=" + std::to_string(seed));
    else if (!(u > 0. && u < 1.) || nx < 0 || nx >= M)
      C.violation("range:uniform:seed", "law_set_random_seed(" + std::to_string(seed) + ") then law_uniform() = " + fmt(u) + " state " + std::to_string(nx), "seed=" + std::to_string(seed));
    return nx;
  };
  if (!C.only_case.empty())
  {
    uint64_t seed = strtoull(C.only_case.c_str() + (C.only_case.rfind("seed=", 0) == 0 ? 5 : 0), nullptr, 10);
    int nx = one(seed, true);
    fprintf(stderr, "seed %llu -> state %d\n", (unsigned long long)seed, nx);
    C.eval();
    return;
  }
  uint64_t nfixed = 0, nwrap = 0, ncongr = 0, n = 0;
  // contiguous block per shard
  uint64_t lo = 1 + (smax * (uint64_t)C.shard) / (uint64_t)C.nshards, hi = (smax * (uint64_t)(C.shard + 1)) / (uint64_t)C.nshards;
  for (uint64_t seed = lo; seed <= hi; seed++)
  {
    if ((seed & 0xfffff) == 0 && C.expired()) break;
    int nx = one(seed, false);
    n++;
    if (nx == 0) nfixed++;
    // histogram: does the seed behave as its residue mod M (the pigeonhole congruence C13 relies on)?
    if (nx == lcg_next((int)(seed % (uint64_t)M))) ncongr++; else nwrap++;
    if ((seed & 0xffff) == 0) C.nontrivial(seed);
  }
  C.eval(n);
  C.ps().transitions += n;
  C.ps().traces += n;
  C.outcome("seeds-landing-on-fixed-point", nfixed);
  C.outcome("seeds-equivalent-to-residue-mod-M", ncongr);
  C.outcome("seeds-with-32bit-wrap-of-105*seed", nwrap);
  if (C.shard == 0) C.sample("{\"seed_range\":[1," + std::to_string(smax) + "],\"oracle\":\"first uniform in (0,1) and generator not on state 0\"}");
}

// ---------------------------------------------------------------------------------------------------------
// laws : ranges + exact population moments of every generator
struct LawCfg
{
  std::string name;
  std::function<double()> draw;
  std::function<bool(double)> support;
  double mean, var, skew;  // NAN = not judged (moment does not exist or is not claimed)
  std::string mkey;        // finding key of a moment mismatch
};
static const double NaN = std::numeric_limits<double>::quiet_NaN();
static bool isint(double x) { return x == std::floor(x); }

static std::vector<LawCfg> law_menu()
{
  std::vector<LawCfg> L;
  auto add = [&](const std::string& n, std::function<double()> d, std::function<bool(double)> s, double m, double v, double sk, const std::string& key = "") {
    L.push_back({n, d, s, m, v, sk, key.empty() ? "moments:" + n.substr(0, n.find('(')) : key});
  };
  add("uniform(0,1)", [] { return law_uniform(0., 1.); }, [](double x) { return x > 0 && x < 1; }, 0.5, 1. / 12, 0.);
  add("uniform(-2,3)", [] { return law_uniform(-2., 3.); }, [](double x) { return x > -2 && x < 3; }, 0.5, 25. / 12, 0.);
  add("int_uniform(1,6)", [] { return (double)law_int_uniform(1, 6); }, [](double x) { return isint(x) && x >= 1 && x <= 6; }, 3.5, 35. / 12, 0.);
  add("int_uniform(-3,3)", [] { return (double)law_int_uniform(-3, 3); }, [](double x) { return isint(x) && x >= -3 && x <= 3; }, 0., 4., 0.);
  add("int_uniform(0,0)", [] { return (double)law_int_uniform(0, 0); }, [](double x) { return x == 0; }, 0., NaN, NaN);
  add("gaussian(0,1)", [] { return law_gaussian(); }, [](double x) { return true; }, 0., 1., 0.);
  add("gaussian(5,2)", [] { return law_gaussian(5., 2.); }, [](double x) { return true; }, 5., 4., 0.);
  add("exponential(1)", [] { return law_exponential(1.); }, [](double x) { return x > 0; }, 1., 1., 2.);
  add("exponential(2.5)", [] { return law_exponential(2.5); }, [](double x) { return x > 0; }, 0.4, 0.16, 2.);
  for (double a : {0.25, 0.5, 1., 1.5, 2.5, 7., 30.})
    add("gamma(" + f6(a) + ")", [a] { return law_gamma(a); }, [](double x) { return x > 0; }, a, a, 2. / sqrt(a));
  add("beta1(2,3)", [] { return law_beta1(2., 3.); }, [](double x) { return x > 0 && x < 1; }, 0.4, 0.04, 2. * (3 - 2) * sqrt(6.) / (7. * sqrt(6.)));
  add("beta1(0.5,0.5)", [] { return law_beta1(0.5, 0.5); }, [](double x) { return x > 0 && x < 1; }, 0.5, 0.125, 0.);
  add("beta1(1.5,1)", [] { return law_beta1(1.5, 1.); }, [](double x) { return x > 0 && x < 1; }, 0.6, 1.5 / (2.5 * 2.5 * 3.5), NaN);
  add("beta2(2,5)", [] { return law_beta2(2., 5.); }, [](double x) { return x > 0; }, 0.5, 2. * 6. / (3. * 16.), NaN);
  add("beta2(0.5,0.5)", [] { return law_beta2(0.5, 0.5); }, [](double x) { return x > 0; }, NaN, NaN, NaN);
  for (double l : {0.5, 4., 15.5})
    add("poisson(" + f6(l) + ")", [l] { return (double)law_poisson(l); }, [](double x) { return isint(x) && x >= 0; }, l, l, 1. / sqrt(l));
  for (double l : {16., 20., 100.})
    add("poisson(" + f6(l) + ")", [l] { return (double)law_poisson(l); }, [](double x) { return isint(x) && x >= 0; }, l, l, 1. / sqrt(l), "moments:poisson:lambda>=16");
  struct BN { int n; double p; };
  for (BN b : {BN{10, 0.3}, BN{50, 0.5}, BN{100, 0.5}, BN{1000, 0.2}, BN{200, 0.9}})
  {
    int n = b.n; double p = b.p;
    add("binomial(" + std::to_string(n) + "," + f6(p) + ")", [n, p] { return (double)law_binomial(n, p); }, [n](double x) { return isint(x) && x >= 0 && x <= n; },
        n * p, n * p * (1 - p), (1 - 2 * p) / sqrt(n * p * (1 - p)), n * p < 30. ? "moments:binomial:BINV" : "moments:binomial:BTPE");
  }
  // stable laws: heavy tails, no moments claimed; only finiteness / sign of the support
  add("stable_abgd(0.5)", [] { return law_stable_standard_abgd(0.5); }, [](double x) { return x > 0; }, NaN, NaN, NaN);
  add("stable_abgd(0.9)", [] { return law_stable_standard_abgd(0.9); }, [](double x) { return x > 0; }, NaN, NaN, NaN);
  add("stable_abgd(1.5)", [] { return law_stable_standard_abgd(1.5); }, [](double x) { return true; }, NaN, NaN, NaN);
  add("stable_agd(1.5,0.5)", [] { return law_stable_standard_agd(1.5, 0.5); }, [](double x) { return true; }, NaN, NaN, NaN);
  add("stable_a1gd(0.5)", [] { return law_stable_standard_a1gd(0.5); }, [](double x) { return true; }, NaN, NaN, NaN);
  add("stable(1.7,0,2,1)", [] { return law_stable(1.7, 0., 2., 1.); }, [](double x) { return true; }, NaN, NaN, NaN);
  // random path: a permutation of 0..n-1; value returned = first element (uniform on 0..n-1), -1 if not a permutation
  add("random_path(5)", [] {
        VectorInt p = law_random_path(5);
        if ((int)p.size() != 5) return -1.;
        int seen = 0;
        for (int v : p) { if (v < 0 || v >= 5 || (seen >> v & 1)) return -1.; seen |= 1 << v; }
        return (double)p[0];
      }, [](double x) { return isint(x) && x >= 0 && x <= 4; }, 2., 2., 0.);
  return L;
}

// Tolerances = the lattice defect of the multiplier-105 LCG (DESIGN C14 item 2 planned 1e-2; measured on the unchanged
// tree: laws taking ONE uniform are exact to 1e-5, laws multiplying / rejecting over many consecutive uniforms are off by
// up to 0.6 % sigma on the mean and 2.5 % on the variance (poisson(15.5), product of 16 consecutive uniforms), which is a
// property of the generator, not of the sampling algorithm).  An algorithmic error (wrong count, wrong constant) moves the
// moments by 10 % or more (law_poisson for lambda >= 16: mean +6 % sigma, variance -12 %).
static const double TOL_MEAN = 2e-2;  // |mean - mu| <= TOL_MEAN * sigma
static const double TOL_VAR = 5e-2;   // |var - sigma^2| <= TOL_VAR * sigma^2
static const double TOL_SKEW = 6e-2;  // |skew - gamma1| <= TOL_SKEW * max(1,|gamma1|)
static const uint32_t DRAW_HORIZON = 100000;  // a single call consuming more uniforms than this = livelock finding

static void run_law(Ctx& C, int icfg, const LawCfg& L)
{
  (void)lcg_dlog();
  long double s1 = 0, s2 = 0, s3 = 0;
  double mn = 1e300, mx = -1e300;
  uint64_t nbad = 0, ndraw = 0;
  uint32_t maxdraw = 0;
  int argmax = 0;
  std::vector<double> keep;  // second pass for central moments would cost a second sweep; use raw sums in long double (values are O(1..1e3))
  bool heavy = std::isnan(L.mean) && std::isnan(L.var);
  for (int s = 1; s < M; s++)
  {
    if ((s & 0xfffff) == 0 && C.expired()) return;
    law_set_random_seed(s);
    double x = L.draw();
    int s1_ = law_get_random_seed();
    if (s1_ <= 0 || s1_ >= M)
    {
      C.violation("lcg:live-state-leaves-cycle", L.name + " from state " + std::to_string(s) + " left the generator on state " + std::to_string(s1_), std::to_string(icfg) + ":" + std::to_string(s));
      continue;
    }
    uint32_t nd = lcg_ndraws(s, s1_);
    ndraw += nd;
    if (nd > maxdraw) { maxdraw = nd; argmax = s; }
    if (!std::isfinite(x) || !L.support(x))
    {
      if (nbad++ < 3) C.violation("range:" + L.name.substr(0, L.name.find('(')), L.name + " from generator state " + std::to_string(s) + " returned " + fmt(x) + ", outside the support of the law", std::to_string(icfg) + ":" + std::to_string(s));
      continue;
    }
    if (!heavy) { s1 += x; s2 += (long double)x * x; s3 += (long double)x * x * x; }
    mn = std::min(mn, x); mx = std::max(mx, x);
    if ((s & 1023) == 0 && nd > 0) C.nontrivial(Hash().u(icfg).u(s).h);
  }
  C.eval((uint64_t)M - 1);
  C.ps().transitions += ndraw;
  C.ps().traces += (uint64_t)M - 1;
  C.outcome(L.name + ":out-of-support", nbad);
  C.outcome(L.name + ":in-support", (uint64_t)M - 1 - nbad);
  C.outcome("max-draws-per-call<=" + std::string(maxdraw <= 2 ? "2" : maxdraw <= 8 ? "8" : maxdraw <= 64 ? "64" : maxdraw <= 1024 ? "1024" : "100000+"));
  if (maxdraw > DRAW_HORIZON)
    C.violation("livelock:" + L.name.substr(0, L.name.find('(')), L.name + " from state " + std::to_string(argmax) + " consumed " + std::to_string(maxdraw) + " uniforms in one call", std::to_string(icfg) + ":" + std::to_string(argmax));
  long double n = (long double)(M - 1 - nbad);
  double mean = (double)(s1 / n);
  double var = (double)(s2 / n - (s1 / n) * (s1 / n));
  double m3 = (double)(s3 / n - 3 * (s1 / n) * (s2 / n) + 2 * (s1 / n) * (s1 / n) * (s1 / n));
  double skew = var > 0 ? m3 / pow(var, 1.5) : 0.;
  std::string rep = L.name + ": min " + f6(mn) + " max " + f6(mx) + " draws/call " + f6((double)ndraw / (M - 1)) + " max " + std::to_string(maxdraw);
  if (!heavy) rep += " | mean " + f6(mean) + " (" + f6(L.mean) + ") var " + f6(var) + " (" + f6(L.var) + ") skew " + f6(skew) + " (" + f6(L.skew) + ")";
  C.note(rep);
  C.sample("{\"law\":" + jstr(L.name) + ",\"states\":" + std::to_string(M - 1) + ",\"mean\":" + (heavy ? "null" : f6(mean)) + ",\"var\":" + (heavy ? "null" : f6(var)) + ",\"max_draws\":" + std::to_string(maxdraw) + "}");
  if (C.verbose) fprintf(stderr, "%s\n", rep.c_str());
  if (nbad) return;
  std::string kase = std::to_string(icfg);
  if (!std::isnan(L.mean))
  {
    double sig = std::isnan(L.var) ? 1. : sqrt(L.var);
    if (std::fabs(mean - L.mean) > TOL_MEAN * sig)
      C.violation(L.mkey, L.name + ": exact population mean over all 20000158 generator states = " + fmt(mean) + ", theory " + fmt(L.mean) + " (deviation " + f6((mean - L.mean) / sig) + " sigma; variance " + f6(var) + " vs " + f6(L.var) + ")", kase);
  }
  if (!std::isnan(L.var) && L.var > 0)
  {
    if (std::fabs(var - L.var) > TOL_VAR * L.var)
      C.violation(L.mkey, L.name + ": exact population variance over all 20000158 generator states = " + fmt(var) + ", theory " + fmt(L.var) + " (mean " + f6(mean) + " vs " + f6(L.mean) + ")", kase);
  }
  if (!std::isnan(L.skew))
  {
    if (std::fabs(skew - L.skew) > TOL_SKEW * std::max(1., std::fabs(L.skew)))
      C.violation(L.mkey, L.name + ": population skewness " + fmt(skew) + ", theory " + fmt(L.skew), kase);
  }
}

VF_PART(laws)
{
  std::vector<LawCfg> L = law_menu();
  C.ps().space += (uint64_t)L.size() * (uint64_t)(M - 1);
  if (!C.only_case.empty())
  {
    // "<cfg>" (moments) or "<cfg>:<state>" (one draw)
    int icfg = atoi(C.only_case.c_str());
    if (icfg < 0 || icfg >= (int)L.size()) return;
    size_t p = C.only_case.find(':');
    if (p == std::string::npos) { run_law(C, icfg, L[icfg]); return; }
    int s = atoi(C.only_case.c_str() + p + 1);
    law_set_random_seed(s);
    double x = L[icfg].draw();
    C.eval();
    fprintf(stderr, "%s from state %d -> %.17g (state after %d)\n", L[icfg].name.c_str(), s, x, law_get_random_seed());
    if (!std::isfinite(x) || !L[icfg].support(x)) C.violation("range:" + L[icfg].name.substr(0, L[icfg].name.find('(')), "out of support: " + fmt(x), C.only_case);
    return;
  }
  // heavy configs first in the round robin so that shards are balanced
  for (int i = 0; i < (int)L.size(); i++)
  {
    if (i % C.nshards != C.shard) continue;
    if (C.expired()) break;
    C.cur_case = std::to_string(i);
    run_law(C, i, L[i]);
  }
}

// ---------------------------------------------------------------------------------------------------------
// microsim : population statistics of simtub over every seed
struct MicroCfg
{
  std::string name;
  int ndim;
  std::function<Model*()> model;
  std::vector<std::vector<double>> pts;  // one coordinate vector per point
  bool grid;                             // support = DbGrid whose nodes are pts (given as nx, dx below)
  std::vector<int> nx;
  int nbtuba;
  bool quick;
};

static std::vector<MicroCfg> micro_menu()
{
  std::vector<MicroCfg> V;
  V.push_back({"exp1d", 1, [] { return Model::createFromParam(ECov::EXPONENTIAL, 2., 1.5); }, {{0.}, {1.}}, false, {}, 10, true});
  // anisotropic exponential (ranges 4 and 1) rotated by 30 degrees, observed along both coordinate axes: a swap of the
  // ranges, a rotation by the wrong sign or along the wrong axis moves C(1,0) / C(0,1) by 20-60 %
  V.push_back({"aniso2d-rot", 2, [] { return Model::createFromParam(ECov::EXPONENTIAL, 1., 2., 1., {4., 1.}, VectorDouble(), {30., 0.}); }, {{0., 0.}, {1., 0.}, {0., 1.}}, false, {}, 6, false});
  // linear model of coregionalisation, 2 variables, 2 structures, non-diagonal sill matrices, non-zero means
  V.push_back({"lmc2", 1, [] {
                 Model* m = Model::createFromParam(ECov::SPHERICAL, 3., 1., 1., VectorDouble(), {2., 1., 1., 1.5});
                 m->addCovFromParam(ECov::EXPONENTIAL, 2., 1., 1., VectorDouble(), {0.5, -0.3, -0.3, 1.});
                 m->setMeans({3., -1.});
                 return m;
               }, {{0.}, {1.}}, false, {}, 6, false});
  return V;
}

static const int NCHILD = 48;  // fixed (reduction order); more workers than cores so that the job keeps its share on a loaded machine
static const double TOL_MS_COV = 0.03;   // |emp - model| <= 3 % of sqrt(C_aa C_bb)   (DESIGN C14 item 3)
static const double TOL_MS_MEAN = 0.05;  // |mean - model mean| <= 5 % of sqrt(C_aa)

static void run_micro(Ctx& C, int icfg, const MicroCfg& Q)
{
  defineDefaultSpace(ESpaceType::RN, Q.ndim);
  Model* model = Q.model();
  if (model == nullptr) { C.violation("harness:model", "cannot build model " + Q.name, std::to_string(icfg)); return; }
  int nvar = model->getVariableNumber(), np = (int)Q.pts.size(), K = nvar * np;
  // support
  Db* proto;
  if (Q.grid) proto = DbGrid::create(VectorInt(Q.nx.begin(), Q.nx.end()));
  else
  {
    std::vector<std::vector<double>> cols(Q.ndim);
    std::vector<std::string> nm, lc;
    for (int d = 0; d < Q.ndim; d++) { for (auto& p : Q.pts) cols[d].push_back(p[d]); nm.push_back("x" + std::to_string(d + 1)); lc.push_back("x" + std::to_string(d + 1)); }
    proto = make_db(cols, nm, lc);
  }
  // expected moments from the model
  std::vector<double> Cm(K * K), mu(K);
  for (int a = 0; a < K; a++)
  {
    int va = a / np, pa = a % np;
    mu[a] = model->getMean(va);
    for (int b = 0; b < K; b++)
    {
      int vb = b / np, pb = b % np;
      Cm[a * K + b] = model->eval(SpacePoint(VectorDouble(Q.pts[pa].begin(), Q.pts[pa].end())), SpacePoint(VectorDouble(Q.pts[pb].begin(), Q.pts[pb].end())), va, vb);
    }
  }
  int ncol0 = proto->getColumnNumber();
  double t_left = std::max(30., C.deadline - C.elapsed());
  auto body = [&](int c, int wfd) -> int {
    std::vector<long double> s(K, 0), cc(K * K, 0);
    uint64_t n = 0, nonfinite = 0, errs = 0;
    int lo = 1 + (int)(((int64_t)(M - 1) * c) / NCHILD), hi = (int)(((int64_t)(M - 1) * (c + 1)) / NCHILD);
    std::vector<double> z(K);
    int rc = 0;
    for (int seed = lo; seed <= hi; seed++)
    {
      if ((seed & 0x3fff) == 0 && C.elapsed() > C.deadline) { rc = 3; break; }
      Db* db = proto->clone();
      int err = simtub(nullptr, db, model, nullptr, 1, seed, Q.nbtuba);
      if (err || db->getColumnNumber() != ncol0 + nvar) { errs++; delete db; continue; }
      bool fin = true;
      for (int v = 0; v < nvar; v++)
        for (int p = 0; p < np; p++) { z[v * np + p] = db->getValueByColIdx(p, ncol0 + v); if (!std::isfinite(z[v * np + p]) || FFFF(z[v * np + p])) fin = false; }
      delete db;
      if (!fin) { nonfinite++; continue; }
      for (int a = 0; a < K; a++) { s[a] += z[a]; for (int b = a; b < K; b++) cc[a * K + b] += (long double)z[a] * z[b]; }
      n++;
    }
    std::ostringstream o;
    char buf[64];
    o << n << " " << nonfinite << " " << errs;
    for (int a = 0; a < K; a++) { snprintf(buf, 64, " %La", s[a]); o << buf; }
    for (int a = 0; a < K; a++) for (int b = a; b < K; b++) { snprintf(buf, 64, " %La", cc[a * K + b]); o << buf; }
    child_write(wfd, o.str());
    return rc;
  };
  ParResult R = par_children(NCHILD, body, t_left + 60.);
  delete proto;
  bool complete = R.ok;
  std::vector<long double> s(K, 0), cc(K * K, 0);
  uint64_t n = 0, nonfinite = 0, errs = 0;
  for (int c = 0; c < NCHILD; c++)
  {
    if (R.data[c].empty()) { complete = false; C.note(Q.name + ": child " + std::to_string(c) + " " + R.status[c]); continue; }
    std::istringstream in(R.data[c]);
    uint64_t a1, a2, a3;
    in >> a1 >> a2 >> a3;
    n += a1; nonfinite += a2; errs += a3;
    std::string tok;
    for (int a = 0; a < K; a++) { in >> tok; s[a] += strtold(tok.c_str(), nullptr); }
    for (int a = 0; a < K; a++) for (int b = a; b < K; b++) { in >> tok; cc[a * K + b] += strtold(tok.c_str(), nullptr); }
  }
  C.eval(n + nonfinite + errs);
  C.ps().traces += n;
  C.outcome(Q.name + ":realisations", n);
  C.outcome(Q.name + ":non-finite", nonfinite);
  C.outcome(Q.name + ":simtub-error", errs);
  std::string kase = std::to_string(icfg);
  if (!complete || n + nonfinite + errs != (uint64_t)M - 1)
  {
    C.ps().exhaustive = false;
    C.note(Q.name + ": seed space not completed (" + std::to_string(n) + " of " + std::to_string(M - 1) + "), not judged");
    delete model;
    return;
  }
  if (errs) C.violation("microsim:" + Q.name + ":error", "simtub failed for " + std::to_string(errs) + " seeds", kase);
  if (nonfinite) C.violation("microsim:" + Q.name + ":non-finite", std::to_string(nonfinite) + " seeds of 1..20000158 give a non-finite simulated value", kase);
  // verdicts
  std::string rep = Q.name + " nbtuba=" + std::to_string(Q.nbtuba) + " n=" + std::to_string(n) + " :";
  double worst[4] = {0, 0, 0, 0};
  std::string worstTxt[4];
  for (int a = 0; a < K; a++)
  {
    double m = (double)(s[a] / n);
    double dev = std::fabs(m - mu[a]) / sqrt(Cm[a * K + a]);
    if (dev > worst[0]) { worst[0] = dev; worstTxt[0] = "mean of variable " + std::to_string(a / np + 1) + " at point " + std::to_string(a % np) + " = " + fmt(m) + ", model " + fmt(mu[a]); }
    for (int b = a; b < K; b++)
    {
      double e = (double)(cc[a * K + b] / n - (s[a] / n) * (s[b] / n));
      double d = std::fabs(e - Cm[a * K + b]) / sqrt(Cm[a * K + a] * Cm[b * K + b]);
      int kind = (a == b) ? 1 : (a / np == b / np) ? 2 : 3;
      if (d > worst[kind])
      {
        worst[kind] = d;
        worstTxt[kind] = std::string(kind == 1 ? "variance" : kind == 2 ? "spatial covariance" : "cross-covariance") + " of (var " + std::to_string(a / np + 1) + ", point " + std::to_string(a % np) + ") x (var " +
                         std::to_string(b / np + 1) + ", point " + std::to_string(b % np) + ") = " + fmt(e) + ", model " + fmt(Cm[a * K + b]);
      }
      char bb[96]; snprintf(bb, 96, " C[%d,%d]=%.4f(%.4f)", a, b, e, Cm[a * K + b]); rep += bb;
    }
    char bb[64]; snprintf(bb, 64, " m[%d]=%.4f(%.4f)", a, m, mu[a]); rep += bb;
  }
  C.note(rep);
  if (C.verbose) fprintf(stderr, "%s\nworst relative deviations: mean %.4f var %.4f spatial %.4f cross %.4f\n", rep.c_str(), worst[0], worst[1], worst[2], worst[3]);
  C.sample("{\"config\":" + jstr(Q.name) + ",\"seeds\":" + std::to_string(n) + ",\"worst_dev_mean\":" + f6(worst[0]) + ",\"worst_dev_var\":" + f6(worst[1]) + ",\"worst_dev_spatial\":" + f6(worst[2]) + ",\"worst_dev_cross\":" + f6(worst[3]) + "}");
  const char* kinds[4] = {"mean", "variance", "spatial-cov", "cross-cov"};
  for (int k = 0; k < 4; k++)
  {
    double tol = k == 0 ? TOL_MS_MEAN : TOL_MS_COV;
    C.outcome(std::string("microsim-") + kinds[k] + (worst[k] > tol ? ":outside-tolerance" : ":within-tolerance"));
    if (worst[k] > tol)
      C.violation("microsim:" + Q.name + ":" + kinds[k],
                  "turning bands (" + Q.name + ", nbtuba=" + std::to_string(Q.nbtuba) + "): exact population over ALL seeds 1..20000158: " + worstTxt[k] + " (deviation " + f6(100 * worst[k]) + " % of the sill scale, tolerance " + f6(100 * tol) + " %)",
                  kase);
  }
  // non-trivial: the configuration has a non-zero off-diagonal model covariance that was judged
  for (int a = 0; a < K; a++) for (int b = a + 1; b < K; b++) if (std::fabs(Cm[a * K + b]) > 1e-3) C.nontrivial(Hash().s(Q.name).u(a).u(b).h);
  delete model;
}

VF_PART(microsim)
{
  std::vector<MicroCfg> V = micro_menu();
  if (!C.only_case.empty())
  {
    int i = atoi(C.only_case.c_str());
    if (i >= 0 && i < (int)V.size()) run_micro(C, i, V[i]);
    return;
  }
  int k = 0;
  for (int i = 0; i < (int)V.size(); i++)
  {
    if (!C.thorough() && !V[i].quick) continue;
    C.ps().space += (uint64_t)M - 1;
    // spread the owners over the shards (each owner forks NCHILD workers)
    int owner = (3 + 5 * k++) % C.nshards;
    if (owner != C.shard) continue;
    if (C.expired()) break;
    C.cur_case = std::to_string(i);
    run_micro(C, i, V[i]);
  }
}

// ---------------------------------------------------------------------------------------------------------
// popsim : the other non-conditional simulators, exact population statistics over EVERY seed 1..M-1
//
//   fft       CalcSimuFFT (discrete spectral / circulant embedding) on a 1-D grid of 4 nodes (lags 1-3) and on 4x4 / 5x3
//             grids (5 nodes giving lags 1 and 2 along both axes).  The seed-independent preparation (_alloc, _prepar: dilation, periodic covariance, FFT, amplitude) is
//             executed ONCE on the real code; per seed the harness does exactly what CalcSimuFFT::_run/_simulate do:
//             law_set_random_seed(seed); _defineRandom(); _defineSymmetry(); _final().  The equality of this path with the
//             public simfft() is re-checked bit for bit on 64 seeds per configuration (key harness:fft-private-path).
//             Approximation documented by the method: the grid is dilated until the covariance is below `percent` (0.1 %)
//             of the variance, the covariance is periodised over the dilated grid (aliasing correction: 3^ndim images) and
//             negative spectral terms are zeroed with a rescaling that preserves the total variance.  The induced error is
//             therefore of the order (3^2-1) * 0.1 % = 0.8 % of the sill; it fits inside the 3 % used for all population
//             covariances (which otherwise covers the lattice defect of the generator).  Measured on the unchanged tree:
//             see the notes of the run (worst deviation printed per configuration).
//   chol      MatrixSquareSymmetricSim::evalSimulate(white noise) with a dense matrix (z = L u, covariance M), the same
//             with inverse=true (z = L^-T u, covariance M^-1) and with a sparse precision matrix (CholeskySparse).  The
//             draw is linear, so besides the population covariance the factor itself is checked EXACTLY: the images of the
//             basis vectors give S with S S^T = M (resp. M^-1) to 1e-10.
//   spectral  simuSpectral() on 3 points, ns = 10 harmonics.  E[Z(x)Z(y)] = C(x-y) holds exactly for any ns (omega is drawn
//             from the spectral measure, E[gamma^2] = 1, E[cos^2] = 1/2): no discretisation error, 3 % tolerance.
//   spde      SPDE(...SIMUNONCOND, Cholesky) on a 7x7 turbo mesh of step 1 (49 vertices), output on a 3x3 grid; the object
//             is prepared once, every seed calls the public SPDE::compute().  A finite element field is NOT the Matern
//             model exactly (mesh step 1 for a range of 2: 5-10 % by construction), so the judged reference is the
//             covariance the discretised model prescribes, A Q^-1 A^T (Q = getPrecisionOpCs()->getQ(), A = ProjMatrix),
//             inverted in long double by the harness; the distance to Model::eval is reported in the notes, not judged
//             (Q vs Matern is the business of C15).
#include "API/SPDE.hpp"
#include "LinearOp/MatrixSquareSymmetricSim.hpp"
#include "LinearOp/PrecisionOpCs.hpp"
#include "LinearOp/ProjMatrix.hpp"
#include "Matrix/MatrixSparse.hpp"
#include "Matrix/MatrixSquareSymmetric.hpp"
#include "Matrix/NF_Triplet.hpp"
#include "Mesh/MeshETurbo.hpp"
#include "Simulation/CalcSimuFFT.hpp"
#include "Core/fftn.hpp"
#include "Simulation/SimuFFTParam.hpp"
#include "Simulation/SimuSpectral.hpp"

static bool invert_ld(int n, std::vector<long double> a, std::vector<long double>& inv)
{
  inv.assign(n * n, 0);
  for (int i = 0; i < n; i++) inv[i * n + i] = 1;
  for (int c = 0; c < n; c++)
  {
    int p = c;
    for (int r = c + 1; r < n; r++) if (fabsl(a[r * n + c]) > fabsl(a[p * n + c])) p = r;
    if (fabsl(a[p * n + c]) < 1e-300L) return false;
    if (p != c) for (int k = 0; k < n; k++) { std::swap(a[p * n + k], a[c * n + k]); std::swap(inv[p * n + k], inv[c * n + k]); }
    long double d = a[c * n + c];
    for (int k = 0; k < n; k++) { a[c * n + k] /= d; inv[c * n + k] /= d; }
    for (int r = 0; r < n; r++)
    {
      if (r == c) continue;
      long double f = a[r * n + c];
      if (f == 0) continue;
      for (int k = 0; k < n; k++) { a[r * n + k] -= f * a[c * n + k]; inv[r * n + k] -= f * inv[c * n + k]; }
    }
  }
  return true;
}

struct PopSim
{
  std::string family, name;
  int K = 0;
  bool quick = false;
  double tolCov = 0.03, tolMean = 0.05;
  std::vector<double> mu, Cm;      // expected mean and covariance (K, K*K)
  std::string extraNote;
  virtual bool prepare(Ctx& C, const std::string& kase) = 0;  // builds the objects, fills K, mu, Cm; may report violations
  virtual bool draw(int seed, double* z) = 0;                 // one realisation from one seed; false = simulator error
  virtual ~PopSim() {}
};

// ---- FFT
struct FftSim : PopSim
{
  std::function<Model*()> mk;
  Model* model = nullptr;
  DbGrid* grid = nullptr;
  CalcSimuFFT* calc = nullptr;
  int iatt = -1;
  VectorInt nxy{4, 4};
  std::vector<int> nodes;  // (0,0) (1,0) (2,0) (0,1) (0,2): lags 1 and 2 along both axes
  FftSim(const std::string& n, std::function<Model*()> m, bool q, int nx = 4, int ny = 4)
  {
    family = "fft"; name = n; mk = m; quick = q;
    if (ny > 0) { nxy = {nx, ny}; nodes = {0, 1, 2, nx, 2 * nx}; }
    else        { nxy = {nx};     nodes = {0, 1, 2, 3}; }          // 1-D grid (ny = 0): lags 1, 2, 3
  }
  bool prepare(Ctx& C, const std::string& kase) override
  {
    int ndim = (int)nxy.size();
    defineDefaultSpace(ESpaceType::RN, ndim);
    model = mk();
    grid = DbGrid::create(nxy);
    SimuFFTParam param(true, 0.1);
    calc = new CalcSimuFFT(1, false, 1);
    calc->setDbout(grid);
    calc->setModel(model);
    calc->setParam(param);
    if (!calc->_check() || !calc->_preprocess()) return false;
    calc->_alloc();
    calc->_prepar(true);
    iatt = calc->_iattOut;
    K = (int)nodes.size();
    mu.assign(K, 0.);
    Cm.assign(K * K, 0.);
    for (int a = 0; a < K; a++)
      for (int b = 0; b < K; b++)
      {
        VectorDouble pa, pb;
        for (int d = 0; d < ndim; d++) { pa.push_back(grid->getCoordinate(nodes[a], d)); pb.push_back(grid->getCoordinate(nodes[b], d)); }
        Cm[a * K + b] = model->eval(SpacePoint(pa), SpacePoint(pb));
      }
    extraNote = "dilated grid " + std::to_string(calc->_dims[0]) + "x" + std::to_string(calc->_dims[1]) + " shift " + std::to_string(calc->_shift[0]) + "," + std::to_string(calc->_shift[1]);
    // the private per-seed path must be the public simfft(), bit for bit
    std::vector<double> z(K);
    int bad = 0;
    for (int k = 0; k < 64; k++)
    {
      int seed = 1 + (int)(((int64_t)(M - 2) * k) / 63);
      DbGrid* g2 = DbGrid::create(nxy);
      int n0 = g2->getColumnNumber();
      int err = simfft(g2, model, param, 1, seed, false);
      draw(seed, z.data());
      for (int a = 0; a < K; a++) { double v = g2->getValueByColIdx(nodes[a], n0); if (err || memcmp(&v, &z[a], 8) != 0) bad++; }
      delete g2;
    }
    C.outcome(bad ? "fft:private-path-differs-from-simfft" : "fft:private-path==simfft(64 seeds, bitwise)");
    if (bad) { C.violation("harness:fft-private-path", name + ": the per-seed path used by the harness differs from the public simfft() (" + std::to_string(bad) + " values)", kase); return false; }
    return true;
  }
  bool draw(int seed, double* z) override
  {
    law_set_random_seed(seed);
    calc->_defineRandom();
    calc->_defineSymmetry();
    calc->_final(grid, iatt);
    for (int a = 0; a < K; a++) z[a] = grid->getArray(nodes[a], iatt);
    return true;
  }
};

// ---- Cholesky
struct CholSim : PopSim
{
  int mode;  // 0 dense z = L u ; 1 dense inverse=true ; 2 sparse inverse=true (precision matrix)
  MatrixSquareSymmetric* Md = nullptr;
  MatrixSparse* Ms = nullptr;
  MatrixSquareSymmetricSim* S = nullptr;
  VectorDouble u, out;
  CholSim(const std::string& n, int m, bool q) { family = "chol"; name = n; mode = m; quick = q; }
  bool prepare(Ctx& C, const std::string& kase) override
  {
    int n = mode == 2 ? 5 : 4;
    std::vector<long double> Mv(n * n, 0);
    if (mode < 2)
    {
      // M = B B^T with a dyadic lower-triangular B: symmetric positive definite by construction, entries exact in binary
      const double B[16] = {1., 0., 0., 0., 0.5, 1.25, 0., 0., 0.25, -0.5, 1., 0., -0.125, 0.75, 0.5, 0.75};
      Md = new MatrixSquareSymmetric(n);
      for (int i = 0; i < n; i++)
        for (int j = 0; j < n; j++)
        {
          double v = 0.;
          for (int k = 0; k < n; k++) v += B[i * n + k] * B[j * n + k];
          Md->setValue(i, j, v);
          Mv[i * n + j] = v;
        }
      S = new MatrixSquareSymmetricSim(Md, mode == 1);
    }
    else
    {
      NF_Triplet T;
      const double dg[5] = {2., 2.5, 3., 2.5, 2.}, off1[4] = {-1., -0.75, -1.25, -0.5}, off2[3] = {0.25, -0.5, 0.375};
      for (int i = 0; i < n; i++) { T.add(i, i, dg[i]); Mv[i * n + i] = dg[i]; }
      for (int i = 0; i < 4; i++) { T.add(i, i + 1, off1[i]); T.add(i + 1, i, off1[i]); Mv[i * n + i + 1] = Mv[(i + 1) * n + i] = off1[i]; }
      for (int i = 0; i < 3; i++) { T.add(i, i + 2, off2[i]); T.add(i + 2, i, off2[i]); Mv[i * n + i + 2] = Mv[(i + 2) * n + i] = off2[i]; }
      Ms = MatrixSparse::createFromTriplet(T, n, n);
      S = new MatrixSquareSymmetricSim(Ms, true);
    }
    if (S->isEmpty() || S->getSize() != n) return false;
    K = n;
    mu.assign(K, 0.);
    std::vector<long double> E = Mv;
    if (mode >= 1 && !invert_ld(n, Mv, E)) return false;
    Cm.assign(K * K, 0.);
    for (int i = 0; i < K * K; i++) Cm[i] = (double)E[i];
    u.resize(n); out.resize(n);
    // exact: the images of the basis vectors
    std::vector<double> F(n * n);
    for (int j = 0; j < n; j++)
    {
      VectorDouble e(n, 0.), r;
      e[j] = 1.;
      if (S->evalSimulate(e, r) != 0 || (int)r.size() != n) return false;
      for (int i = 0; i < n; i++) F[i * n + j] = r[i];
    }
    double worst = 0;
    for (int i = 0; i < n; i++)
      for (int j = 0; j < n; j++)
      {
        long double s = 0;
        for (int k = 0; k < n; k++) s += (long double)F[i * n + k] * F[j * n + k];
        worst = std::max(worst, (double)fabsl(s - E[i * n + j]));
      }
    C.eval();
    C.outcome(worst <= 1e-10 ? "chol:factor-identity-exact" : "chol:factor-identity-VIOLATED");
    extraNote = "max |S S^T - expected| = " + f6(worst);
    if (worst > 1e-10)
      C.violation("chol:" + name + ":factor-identity", name + ": S = evalSimulate(basis vectors) gives max |S S^T - " + (mode >= 1 ? "M^-1" : "M") + "| = " + fmt(worst), kase);
    return true;
  }
  bool draw(int seed, double* z) override
  {
    law_set_random_seed(seed);
    VH::simulateGaussianInPlace(u);
    if (S->evalSimulate(u, out) != 0) return false;
    for (int a = 0; a < K; a++) z[a] = out[a];
    return true;
  }
};

// ---- spectral
struct SpecSim : PopSim
{
  std::function<Model*()> mk;
  Model* model = nullptr;
  Db* proto = nullptr;
  int ns;
  SpecSim(const std::string& n, std::function<Model*()> m, int ns_, bool q) { family = "spectral"; name = n; mk = m; ns = ns_; quick = q; }
  bool prepare(Ctx&, const std::string&) override
  {
    defineDefaultSpace(ESpaceType::RN, 2);
    model = mk();
    std::vector<double> x{0., 1., 0.}, y{0., 0., 1.};
    proto = make_db({x, y}, {"x1", "x2"}, {"x1", "x2"});
    K = 3;
    mu.assign(K, 0.);
    Cm.assign(K * K, 0.);
    for (int a = 0; a < K; a++) for (int b = 0; b < K; b++) Cm[a * K + b] = model->eval(SpacePoint(VectorDouble{x[a], y[a]}), SpacePoint(VectorDouble{x[b], y[b]}));
    extraNote = "ns=" + std::to_string(ns);
    return true;
  }
  bool draw(int seed, double* z) override
  {
    Db* db = proto->clone();
    int n0 = db->getColumnNumber();
    int err = simuSpectral(nullptr, db, model, 1, seed, ns);
    bool ok = err == 0 && db->getColumnNumber() == n0 + 1;
    if (ok) for (int a = 0; a < K; a++) z[a] = db->getValueByColIdx(a, n0);
    delete db;
    return ok;
  }
};

// ---- SPDE
struct SpdeSim : PopSim
{
  Model* model = nullptr;
  DbGrid* grid = nullptr;
  MeshETurbo* mesh = nullptr;
  SPDE* spde = nullptr;
  SpdeSim(const std::string& n, bool q) { family = "spde"; name = n; quick = q; }
  bool prepare(Ctx& C, const std::string&) override
  {
    defineDefaultSpace(ESpaceType::RN, 2);
    model = Model::createFromParam(ECov::MATERN, 2., 1.5, 1.);
    grid = DbGrid::create({3, 3});
    mesh = MeshETurbo::create({7, 7}, {1., 1.}, {-2., -2.});
    spde = new SPDE(model, grid, nullptr, ESPDECalcMode::SIMUNONCOND, mesh, 1);
    const PrecisionOpCs* pop = spde->getPrecisionOpCs(0);
    if (pop == nullptr || pop->getQ() == nullptr) return false;
    const MatrixSparse* Q = pop->getQ();
    int nv = Q->getNRows();
    if (nv != mesh->getNApices()) return false;
    std::vector<long double> Qd(nv * nv), Qi;
    for (int i = 0; i < nv; i++) for (int j = 0; j < nv; j++) Qd[i * nv + j] = Q->getValue(i, j);
    if (!invert_ld(nv, Qd, Qi)) return false;
    ProjMatrix A(grid, mesh);
    K = grid->getSampleNumber();
    if (A.getNRows() != K || A.getNCols() != nv) return false;
    std::vector<long double> Ad(K * nv);
    for (int a = 0; a < K; a++) for (int j = 0; j < nv; j++) Ad[a * nv + j] = A.getValue(a, j);
    mu.assign(K, 0.);
    Cm.assign(K * K, 0.);
    double worstModel = 0;
    for (int a = 0; a < K; a++)
      for (int b = 0; b < K; b++)
      {
        long double s = 0;
        for (int i = 0; i < nv; i++) { if (Ad[a * nv + i] == 0) continue; for (int j = 0; j < nv; j++) s += Ad[a * nv + i] * Qi[i * nv + j] * Ad[b * nv + j]; }
        Cm[a * K + b] = (double)s;
        VectorDouble pa{grid->getCoordinate(a, 0), grid->getCoordinate(a, 1)}, pb{grid->getCoordinate(b, 0), grid->getCoordinate(b, 1)};
        worstModel = std::max(worstModel, std::fabs((double)s - model->eval(SpacePoint(pa), SpacePoint(pb))) / 1.5);
      }
    extraNote = "mesh 7x7 (49 vertices); max |A Q^-1 A^T - Matern model| = " + f6(100 * worstModel) + " % of the sill (finite element discretisation, reported only); A Q^-1 A^T variance at the central node " + f6(Cm[4 * K + 4]);
    return true;
  }
  bool draw(int seed, double* z) override
  {
    // a fresh copy of the output grid per run: adding and deleting a column on the same Db makes its UID table grow
    // with every call (each run would get slower and slower)
    law_set_random_seed(seed);
    DbGrid* h = grid->clone();
    int n0 = h->getColumnNumber();
    (void)spde->compute(h, 1);
    bool ok = h->getColumnNumber() == n0 + 1;
    if (ok) for (int a = 0; a < K; a++) z[a] = h->getValueByColIdx(a, n0);
    delete h;
    return ok;
  }
};


// ---- turning bands, one configuration per algorithm branch of the band-generation switch (1-D, points 0 and 1, 4 bands).
// Stationary structures: population variance and C(1) against Model::eval.  Intrinsic structures (no covariance): the
// increment Z(1) - Z(0) is judged, its population variance against 2 gamma(1) (Model::eval in variogram mode).  The grid
// support is covered by part tb_grid_vs_points (exact equality of the grid and point code paths, seed by seed).
#include "Covariances/CovCalcMode.hpp"
struct TbSim : PopSim
{
  std::function<Model*()> mk;
  Model* model = nullptr;
  Db* proto = nullptr;
  bool incr;
  int nbtuba = 4;
  TbSim(const std::string& n, std::function<Model*()> m, bool increments, bool q) { family = "tb"; name = n; mk = m; incr = increments; quick = q; }
  bool prepare(Ctx&, const std::string&) override
  {
    defineDefaultSpace(ESpaceType::RN, 1);
    model = mk();
    if (model == nullptr) return false;
    proto = make_db({{0., 1.}}, {"x1"}, {"x1"});
    SpacePoint p0(VectorDouble{0.}), p1(VectorDouble{1.});
    if (!incr)
    {
      K = 2;
      mu.assign(K, model->getMean(0));
      Cm = {model->eval(p0, p0), model->eval(p0, p1), model->eval(p1, p0), model->eval(p1, p1)};
    }
    else
    {
      K = 1;
      CovCalcMode mode;
      mode.setAsVario(true);
      mu.assign(1, 0.);
      Cm = {2. * model->eval(p0, p1, 0, 0, &mode)};
    }
    extraNote = std::string(incr ? "increment Z(1)-Z(0), expected 2 gamma(1)" : "points 0 and 1") + ", nbtuba=" + std::to_string(nbtuba);
    return Cm[0] > 0.;
  }
  bool draw(int seed, double* z) override
  {
    Db* db = proto->clone();
    int n0 = db->getColumnNumber();
    int err = simtub(nullptr, db, model, nullptr, 1, seed, nbtuba);
    bool ok = err == 0 && db->getColumnNumber() == n0 + 1;
    if (ok)
    {
      double a = db->getValueByColIdx(0, n0), b = db->getValueByColIdx(1, n0);
      if (incr) z[0] = b - a; else { z[0] = a; z[1] = b; }
    }
    delete db;
    return ok;
  }
};

static std::vector<PopSim*> pop_menu()
{
  std::vector<PopSim*> V;
  V.push_back(new CholSim("dense-LU", 0, true));
  V.push_back(new CholSim("dense-inverse", 1, false));
  V.push_back(new CholSim("sparse-precision", 2, false));
  // spectral: unit sills isolate the correlation structure (the spectral measure omega is drawn from); one configuration
  // with a sill different from 1 checks that the sill is applied
  V.push_back(new SpecSim("gaussian", [] { return Model::createFromParam(ECov::GAUSSIAN, 2., 1.); }, 10, true));
  V.push_back(new SpecSim("exponential-aniso", [] { return Model::createFromParam(ECov::EXPONENTIAL, 1., 1., 1., {3., 1.}, VectorDouble(), {30., 0.}); }, 10, false));
  V.push_back(new SpecSim("matern1", [] { return Model::createFromParam(ECov::MATERN, 2., 1., 1.); }, 10, false));
  V.push_back(new SpecSim("exponential-sill2", [] { return Model::createFromParam(ECov::EXPONENTIAL, 2., 2.); }, 10, false));
  V.push_back(new FftSim("exponential", [] { return Model::createFromParam(ECov::EXPONENTIAL, 2., 1.5); }, false));
  V.push_back(new FftSim("gaussian-1d", [] { return Model::createFromParam(ECov::GAUSSIAN, 2., 0.75); }, false, 4, 0));
  V.push_back(new FftSim("spherical-aniso", [] { return Model::createFromParam(ECov::SPHERICAL, 1., 2., 1., {3., 1.5}); }, false));
  // a grid whose dilated dimensions differ along x and y (5x3 -> 8x6): exercises the storage order of the spectrum
  V.push_back(new FftSim("spherical-5x3", [] { return Model::createFromParam(ECov::SPHERICAL, 2.5, 1.5); }, false, 5, 3));
  V.push_back(new SpdeSim("matern1-turbo7x7", false));
  // the cheap FFT configuration of the quick tier: 1-D grid of 4 nodes (dilated to 8), lags 1-3
  V.push_back(new FftSim("spherical-1d", [] { return Model::createFromParam(ECov::SPHERICAL, 2.5, 1.5); }, true, 4, 0));
  // turning bands: one configuration per algorithm branch of the band-generation switch (thorough): dilution (spherical,
  // cubic), spectral (gaussian, Matern nu > 0.5, stable alpha > 1: three different laws of omega), migration
  // (Matern nu <= 0.5 through _computeScaleKB, stable alpha <= 1 through _computeScale; exponential = microsim exp1d),
  // IRF process (linear) and power (increments).  Cardinal sine, J-Bessel, Matern 0.45 / 0.75, spline and order-k GC are covered by
  // tb_grid_vs_points and by C13 only (time budget; order-k GC would need generalised increments).
  auto T1 = [](const ECov& t, double range, double sill, double param) { return [=] { return Model::createFromParam(t, range, sill, param); }; };
  V.push_back(new TbSim("spherical", T1(ECov::SPHERICAL, 2., 1.5, 1.), false, false));
  V.push_back(new TbSim("cubic+nugget-mean", [] { Model* m = Model::createFromParam(ECov::CUBIC, 2.5, 1.); m->addCovFromParam(ECov::NUGGET, 0., 0.5); m->setMeans({10.}); return m; }, false, false));
  V.push_back(new TbSim("gaussian", T1(ECov::GAUSSIAN, 2., 0.75, 1.), false, false));
  V.push_back(new TbSim("matern0.3", T1(ECov::MATERN, 2., 1.5, 0.3), false, false));
  V.push_back(new TbSim("matern1.5", T1(ECov::MATERN, 2., 2., 1.5), false, false));
  V.push_back(new TbSim("stable0.7", T1(ECov::STABLE, 2., 1.5, 0.7), false, false));
  V.push_back(new TbSim("stable1.5", T1(ECov::STABLE, 2., 1., 1.5), false, false));
  V.push_back(new TbSim("linear-incr", T1(ECov::LINEAR, 2., 1.5, 1.), true, false));
  V.push_back(new TbSim("power1.5-incr", T1(ECov::POWER, 2., 1.5, 1.5), true, false));
  return V;
}

static void run_pop(Ctx& C, int icfg, PopSim& Q)
{
  std::string kase = std::to_string(icfg);
  std::string full = Q.family + ":" + Q.name;
  if (!Q.prepare(C, kase))
  {
    C.outcome(full + ":prepare-failed");
    C.violation(Q.family + ":" + Q.name + ":setup", full + ": the simulator could not be set up", kase);
    return;
  }
  int K = Q.K;
  auto body = [&](int c, int wfd) -> int {
    std::vector<long double> s(K, 0), cc(K * K, 0);
    uint64_t n = 0, nonfinite = 0, errs = 0;
    int lo = 1 + (int)(((int64_t)(M - 1) * c) / NCHILD), hi = (int)(((int64_t)(M - 1) * (c + 1)) / NCHILD);
    std::vector<double> z(K);
    int rc = 0;
    for (int seed = lo; seed <= hi; seed++)
    {
      if ((seed & 0x3fff) == 0 && C.elapsed() > C.deadline) { rc = 3; break; }
      if (!Q.draw(seed, z.data())) { errs++; continue; }
      bool fin = true;
      for (int a = 0; a < K; a++) if (!std::isfinite(z[a]) || FFFF(z[a])) fin = false;
      if (!fin) { nonfinite++; continue; }
      for (int a = 0; a < K; a++) { s[a] += z[a]; for (int b = a; b < K; b++) cc[a * K + b] += (long double)z[a] * z[b]; }
      n++;
    }
    std::ostringstream o;
    char buf[64];
    o << n << " " << nonfinite << " " << errs;
    for (int a = 0; a < K; a++) { snprintf(buf, 64, " %La", s[a]); o << buf; }
    for (int a = 0; a < K; a++) for (int b = a; b < K; b++) { snprintf(buf, 64, " %La", cc[a * K + b]); o << buf; }
    child_write(wfd, o.str());
    return rc;
  };
  ParResult R = par_children(NCHILD, body, std::max(30., C.deadline - C.elapsed()) + 60.);
  bool complete = R.ok;
  std::vector<long double> s(K, 0), cc(K * K, 0);
  uint64_t n = 0, nonfinite = 0, errs = 0;
  for (int c = 0; c < NCHILD; c++)
  {
    if (R.data[c].empty()) { complete = false; C.note(full + ": child " + std::to_string(c) + " " + R.status[c]); continue; }
    std::istringstream in(R.data[c]);
    uint64_t a1, a2, a3;
    in >> a1 >> a2 >> a3;
    n += a1; nonfinite += a2; errs += a3;
    std::string tok;
    for (int a = 0; a < K; a++) { in >> tok; s[a] += strtold(tok.c_str(), nullptr); }
    for (int a = 0; a < K; a++) for (int b = a; b < K; b++) { in >> tok; cc[a * K + b] += strtold(tok.c_str(), nullptr); }
  }
  C.eval(n + nonfinite + errs);
  C.ps().traces += n;
  C.outcome(full + ":realisations", n);
  C.outcome(full + ":non-finite", nonfinite);
  C.outcome(full + ":simulator-error", errs);
  if (!complete || n + nonfinite + errs != (uint64_t)M - 1)
  {
    C.ps().exhaustive = false;
    C.note(full + ": seed space not completed (" + std::to_string(n) + " of " + std::to_string(M - 1) + "), not judged");
    return;
  }
  if (errs) C.violation(Q.family + ":" + Q.name + ":error", full + " failed for " + std::to_string(errs) + " seeds", kase);
  if (nonfinite) C.violation(Q.family + ":" + Q.name + ":non-finite", full + ": " + std::to_string(nonfinite) + " seeds give a non-finite value", kase);
  if (n == 0) return;
  std::string rep = full + " (" + Q.extraNote + ") n=" + std::to_string(n) + " :";
  double worst[3] = {0, 0, 0};
  std::string worstTxt[3];
  for (int a = 0; a < K; a++)
  {
    double m = (double)(s[a] / n);
    double dev = std::fabs(m - Q.mu[a]) / sqrt(Q.Cm[a * K + a]);
    if (dev > worst[0]) { worst[0] = dev; worstTxt[0] = "mean of component " + std::to_string(a) + " = " + fmt(m) + ", expected " + fmt(Q.mu[a]); }
    for (int b = a; b < K; b++)
    {
      double e = (double)(cc[a * K + b] / n - (s[a] / n) * (s[b] / n));
      double d = std::fabs(e - Q.Cm[a * K + b]) / sqrt(Q.Cm[a * K + a] * Q.Cm[b * K + b]);
      int kind = (a == b) ? 1 : 2;
      if (d > worst[kind]) { worst[kind] = d; worstTxt[kind] = std::string(kind == 1 ? "variance" : "covariance") + " of components (" + std::to_string(a) + "," + std::to_string(b) + ") = " + fmt(e) + ", expected " + fmt(Q.Cm[a * K + b]); }
      if (K <= 5) { char bb[96]; snprintf(bb, 96, " C[%d,%d]=%.4f(%.4f)", a, b, e, Q.Cm[a * K + b]); rep += bb; }
    }
  }
  char wb[160];
  snprintf(wb, 160, " | worst deviations: mean %.3f %% var %.3f %% cov %.3f %%", 100 * worst[0], 100 * worst[1], 100 * worst[2]);
  rep += wb;
  C.note(rep);
  if (C.verbose) fprintf(stderr, "%s\n", rep.c_str());
  C.sample("{\"simulator\":" + jstr(full) + ",\"seeds\":" + std::to_string(n) + ",\"worst_dev_mean\":" + f6(worst[0]) + ",\"worst_dev_var\":" + f6(worst[1]) + ",\"worst_dev_cov\":" + f6(worst[2]) + "}");
  const char* kinds[3] = {"mean", "variance", "covariance"};
  for (int k = 0; k < 3; k++)
  {
    double tol = k == 0 ? Q.tolMean : Q.tolCov;
    C.outcome(Q.family + "-" + kinds[k] + (worst[k] > tol ? ":outside-tolerance" : ":within-tolerance"));
    if (worst[k] > tol)
      C.violation(Q.family + ":" + Q.name + ":" + kinds[k], full + " (" + Q.extraNote + "): exact population over ALL seeds 1..20000158: " + worstTxt[k] + " (deviation " + f6(100 * worst[k]) + " % of the variance scale, tolerance " + f6(100 * tol) + " %)", kase);
  }
  for (int a = 0; a < K; a++) for (int b = a + 1; b < K; b++) if (std::fabs(Q.Cm[a * K + b]) > 1e-3) C.nontrivial(Hash().s(full).u(a).u(b).h);
}

VF_PART(popsim)
{
  std::vector<PopSim*> V = pop_menu();
  if (!C.only_case.empty())
  {
    int i = atoi(C.only_case.c_str());
    if (i >= 0 && i < (int)V.size()) run_pop(C, i, *V[i]);
    return;
  }
  int k = 0;
  for (int i = 0; i < (int)V.size(); i++)
  {
    if (!C.thorough() && !V[i]->quick) continue;
    C.ps().space += (uint64_t)M - 1;
    int owner = (1 + 3 * k++) % C.nshards;
    if (owner != C.shard) continue;
    if (C.expired()) break;
    C.cur_case = std::to_string(i);
    run_pop(C, i, *V[i]);
  }
}

// ---------------------------------------------------------------------------------------------------------
// tb_grid_vs_points (E1, exact differential): CalcSimuTurningBands has two separate code paths, _simulateGrid (+
// _spreadRegularOnGrid / _spreadSpectralOnGrid) for a DbGrid support and _simulatePoint (+ ...OnPoint) for a point Db, each
// with its own copy of the band-generation switch.  For the same model, seed and number of bands, and a point Db made of
// exactly the nodes of the grid, both paths draw the same directions, the same band seeds and the same 1-D processes:
// the two fields must be EQUAL up to round-off.  Together with the population statistics on point supports (popsim tb:*,
// microsim) this decides the grid support for every structure type without a second sweep of the seed space.
// Enumerated: every structure type / parameter branch x {single, nested behind a spherical structure} x 4 grids (4x3,
// anisotropic mesh with an offset origin, rotated 3x3, 3-D 3x2x2) x nbtuba {1, 6} x 4 seeds x 5 SELECTIONS on the grid (none, a hole
// in every row, first node of every row, checkerboard, a whole row): the ACTIVE nodes of the masked grid must equal (i) the same
// nodes simulated as points and (ii) the same grid simulated without selection (a masked target must not change the others).
struct GvpType { ECov type; double param; const char* name; };
static std::vector<GvpType> gvp_types()
{
  return {{ECov::EXPONENTIAL, 1., "EXPONENTIAL"}, {ECov::SPHERICAL, 1., "SPHERICAL"}, {ECov::CUBIC, 1., "CUBIC"}, {ECov::GAUSSIAN, 1., "GAUSSIAN"},
          {ECov::SINCARD, 1., "SINCARD"}, {ECov::BESSELJ, 2., "BESSELJ"}, {ECov::MATERN, 0.3, "MATERN(0.3)"}, {ECov::MATERN, 0.45, "MATERN(0.45)"},
          {ECov::MATERN, 0.75, "MATERN(0.75)"}, {ECov::MATERN, 1.5, "MATERN(1.5)"}, {ECov::STABLE, 0.7, "STABLE(0.7)"}, {ECov::STABLE, 1.5, "STABLE(1.5)"},
          {ECov::POWER, 1.5, "POWER(1.5)"}, {ECov::SPLINE_GC, 1., "SPLINE_GC"}, {ECov::LINEAR, 1., "LINEAR"}, {ECov::ORDER1_GC, 1., "ORDER1_GC"},
          {ECov::ORDER3_GC, 1., "ORDER3_GC"}, {ECov::ORDER5_GC, 1., "ORDER5_GC"}, {ECov::NUGGET, 1., "NUGGET"}};
}

static const char* gvp_maskname[5] = {"no selection", "hole: node ix=1 of every row masked", "first node of every row masked", "checkerboard", "whole row iy=0 masked"};

VF_PART(tb_grid_vs_points)
{
  std::vector<GvpType> TT = gvp_types();
  Space sp;
  sp.axis("type", (int)TT.size()).axis("nested", 2).axis("grid", 4).axis("nbtuba", 2).axis("seed", 4).axis("aniso", 2).axis("mask", 5);
  const int seeds[4] = {12345, 1, 20000158, 777};
  for_each_case(C, sp, [&](uint64_t id, const std::vector<int>& ix) {
    if (!C.thorough() && (ix[4] >= 2 || (ix[6] > 0 && ix[4] >= 1))) return;  // quick: 2 seeds without selection, 1 seed per selection
    const GvpType& T = TT[ix[0]];
    bool nested = ix[1] == 1, aniso = ix[5] == 1;
    int nbtuba = ix[3] == 0 ? 6 : 1, seed = seeds[ix[4]], mask = ix[6];
    int ndim = ix[2] == 3 ? 3 : 2;
    defineDefaultSpace(ESpaceType::RN, ndim);
    auto mkgrid = [&]() -> DbGrid* {
      switch (ix[2])
      {
        case 0: return DbGrid::create({4, 3});
        case 1: return DbGrid::create({3, 2}, {0.5, 2.}, {10., -3.});
        case 2: return DbGrid::create({3, 3}, {1., 0.75}, {1., 2.}, {30., 0.});
        default: return DbGrid::create({3, 2, 2}, {1., 0.5, 2.}, {0., 1., -1.});
      }
    };
    DbGrid* g = mkgrid();
    VectorDouble ranges = ndim == 2 ? VectorDouble{3., 1.5} : VectorDouble{3., 1.5, 2.};
    VectorDouble angles = ndim == 2 ? VectorDouble{20., 0.} : VectorDouble{20., 0., 0.};
    Model* m;
    auto addT = [&](Model* mm) { if (aniso) mm->addCovFromParam(T.type, 1., 1.25, T.param, ranges, VectorDouble(), angles); else mm->addCovFromParam(T.type, 2., 1.25, T.param); };
    if (!nested) m = aniso ? Model::createFromParam(T.type, 1., 1.25, T.param, ranges, VectorDouble(), angles) : Model::createFromParam(T.type, 2., 1.25, T.param);
    else { m = Model::createFromParam(ECov::SPHERICAL, 3., 0.5); if (m != nullptr) addT(m); }
    std::string kase = std::to_string(id);
    std::string desc = std::string(nested ? "SPHERICAL + " : "") + T.name + (aniso ? " (anisotropic, rotated)" : " (range 2)") + ", grid menu " + std::to_string(ix[2]) + " (" + std::to_string(g->getSampleNumber()) + " nodes), " + gvp_maskname[mask] +
                       ", nbtuba=" + std::to_string(nbtuba) + ", seed=" + std::to_string(seed);
    if (m == nullptr) { C.skip(); C.outcome("model-refused"); delete g; return; }
    // the nugget component draws one Gaussian per ACTIVE node in node order: with a selection the values of the other nodes
    // legitimately change; nothing in the property forbids it -> excluded and counted
    if (mask > 0 && T.type == ECov::NUGGET) { C.skip(); C.outcome("excluded:nugget-with-selection(draws follow the active nodes)"); delete g; delete m; return; }
    // the IRF structures (linear, order-k GC) are simulated by integrating a Wiener-Levy process on Poisson points whose
    // density (_setDensity) is derived from the NUMBER OF ACTIVE samples (measured: theta 7.79 with 12 active nodes, 7.14 with
    // 11): with a selection the discretisation, hence the realisation, legitimately differs -> excluded and counted
    if (mask > 0 && (T.type == ECov::LINEAR || T.type == ECov::ORDER1_GC || T.type == ECov::ORDER3_GC || T.type == ECov::ORDER5_GC))
    { C.skip(); C.outcome("excluded:IRF-process-with-selection(Poisson density follows the number of active nodes)"); delete g; delete m; return; }
    int nn = g->getSampleNumber();
    // active flags of the selection
    std::vector<double> sel(nn, 1.);
    VectorInt ind(ndim);
    int nactive = nn;
    if (mask > 0)
    {
      nactive = 0;
      for (int i = 0; i < nn; i++)
      {
        g->rankToIndice(i, ind);
        int sum = 0;
        for (int d = 0; d < ndim; d++) sum += ind[d];
        bool off = mask == 1 ? ind[0] == 1 : mask == 2 ? ind[0] == 0 : mask == 3 ? (sum % 2 == 1) : ind[1] == 0;
        sel[i] = off ? 0. : 1.;
        if (!off) nactive++;
      }
    }
    // point Db with the coordinates of ALL the grid nodes, no selection (same extension of the bands as the grid, whose
    // extension is taken from its corners whatever the selection)
    std::vector<std::vector<double>> cols(ndim);
    std::vector<std::string> nm, lc;
    for (int d = 0; d < ndim; d++) { for (int i = 0; i < nn; i++) cols[d].push_back(g->getCoordinate(i, d)); nm.push_back("x" + std::to_string(d + 1)); lc.push_back("x" + std::to_string(d + 1)); }
    Db* p = make_db(cols, nm, lc);
    DbGrid* gm = nullptr;
    if (mask > 0) { gm = mkgrid(); gm->addColumns(VectorDouble(sel.begin(), sel.end()), "sel", ELoc::SEL); }
    int ng0 = g->getColumnNumber(), np0 = p->getColumnNumber(), nm0 = gm ? gm->getColumnNumber() : 0;
    int eg = simtub(nullptr, g, m, nullptr, 2, seed, nbtuba);
    int ep = simtub(nullptr, p, m, nullptr, 2, seed, nbtuba);
    int em = gm ? simtub(nullptr, gm, m, nullptr, 2, seed, nbtuba) : eg;
    C.eval();
    if (eg != ep || em != eg || (eg == 0 && (g->getColumnNumber() != ng0 + 2 || p->getColumnNumber() != np0 + 2 || (gm && gm->getColumnNumber() != nm0 + 2))))
    {
      C.outcome("error-codes-differ");
      C.violation(std::string("tb:grid-vs-points:") + T.name + ":error", desc + ": simtub returns " + std::to_string(eg) + " on the grid, " + std::to_string(em) + " on the grid with the selection and " + std::to_string(ep) + " on the same nodes given as points", kase);
    }
    else if (eg != 0) { C.skip(); C.outcome(std::string("all-refused:") + T.name); }
    else
    {
      // subject = the grid run (with its selection when there is one); references = points, and the unmasked grid
      DbGrid* subj = gm ? gm : g;
      int ns0 = gm ? nm0 : ng0;
      double scale = 0., worstP = 0., worstG = 0.;
      int wiP = 0, wsP = 0, wiG = 0, wsG = 0;
      for (int s2 = 0; s2 < 2; s2++)
        for (int i = 0; i < nn; i++)
        {
          if (sel[i] == 0.) continue;  // masked targets are not judged
          double a = subj->getValueByColIdx(i, ns0 + s2), b = p->getValueByColIdx(i, np0 + s2), c = g->getValueByColIdx(i, ng0 + s2);
          scale = std::max({scale, std::fabs(a), std::fabs(b), std::fabs(c)});
          double d1 = std::fabs(a - b), d2 = std::fabs(a - c);
          if (!(d1 <= worstP)) { worstP = d1; wiP = i; wsP = s2; }
          if (!(d2 <= worstG)) { worstG = d2; wiG = i; wsG = s2; }
        }
      bool finite = std::isfinite(scale) && std::isfinite(worstP) && std::isfinite(worstG);
      double tol = 1e-9 * std::max(1., scale);
      bool okP = finite && worstP <= tol, okG = finite && worstG <= tol;
      if ((T.type != ECov::NUGGET || nested) && nactive > 0) C.nontrivial(id);
      C.outcome(std::string(okP && okG ? "equal(1e-9):" : "DIFFERENT:") + T.name + (mask ? ":selection" : ""));
      if (!okP)
        C.violation(std::string("tb:grid-vs-points:") + T.name + (mask ? ":selection" : ""), desc + ": node " + std::to_string(wiP) + ", simulation " + std::to_string(wsP + 1) + ": grid support gives " + fmt(subj->getValueByColIdx(wiP, ns0 + wsP)) + ", the same location as a point gives " + fmt(p->getValueByColIdx(wiP, np0 + wsP)), kase);
      if (!okG)
        C.violation(std::string("tb:grid-masked-vs-unmasked:") + T.name, desc + ": active node " + std::to_string(wiG) + ", simulation " + std::to_string(wsG + 1) + ": " + fmt(subj->getValueByColIdx(wiG, ns0 + wsG)) + " with the selection, " + fmt(g->getValueByColIdx(wiG, ng0 + wsG)) + " on the same grid without selection (same seed)", kase);
      if (id % 211 == 0) C.sample("{\"id\":" + kase + ",\"case\":" + jstr(desc) + ",\"active_nodes\":" + std::to_string(nactive) + ",\"max_abs_diff_vs_points\":" + f6(worstP) + ",\"max_abs_diff_vs_unmasked\":" + f6(worstG) + "}");
    }
    delete g; delete p; delete m; delete gm;
  });
}

// ---------------------------------------------------------------------------------------------------------
// fft_kernel (E1, exact up to the documented approximation of the method): the covariance kernel that CalcSimuFFT really
// discretises.  The field produced by the FFT method has, by construction, the covariance c(n) whose discrete Fourier
// transform is the spectrum stored by _prepar(); the harness runs _alloc() + _prepar(false) on the real code (private
// members through -fno-access-control), transforms the stored spectrum back with the library's fftn and compares c(n), for
// every index offset |n_j| <= 2, with Model::eval at the lag h = sum_j n_j e_j, where the mesh vectors e_j are taken from the
// coordinates of the grid nodes (DbGrid geometry, independent of the FFT code).  This decides, without sweeping the seed
// space, what the population part cannot afford for every geometry: rotated grids (angles that are not multiples of 90
// degrees), non-square meshes, anisotropic models whose main axis is not aligned with the grid, 2-D and 3-D.
// Tolerance 2 % of the sill: the method periodises the covariance over the dilated grid (dilation until the covariance is
// below percent = 0.1 % of the sill, aliasing correction over 3^ndim images renormalised at lag 0) and zeroes negative
// spectral terms with a rescaling of the others; measured on the unchanged tree: see the outcome histogram (worst
// deviation buckets).  A wrong lag geometry moves c(n) by 5-40 % of the sill.
VF_PART(fft_kernel)
{
  Space sp;
  sp.axis("grid", 8).axis("model", 6).axis("aliasing", 2);
  for_each_case(C, sp, [&](uint64_t id, const std::vector<int>& ix) {
    int ndim = ix[0] >= 6 ? 3 : 2;
    defineDefaultSpace(ESpaceType::RN, ndim);
    DbGrid* g;
    switch (ix[0])
    {
      case 0: g = DbGrid::create({4, 4}); break;
      case 1: g = DbGrid::create({5, 3}, {1., 0.5}, {10., -3.}); break;
      case 2: g = DbGrid::create({4, 4}, {1., 1.}, {0., 0.}, {30., 0.}); break;              // rotated, square mesh
      case 3: g = DbGrid::create({4, 4}, {1., 0.5}, {1., 2.}, {30., 0.}); break;             // rotated, dx != dy
      case 4: g = DbGrid::create({5, 3}, {0.5, 1.25}, {0., 0.}, {70., 0.}); break;           // rotated, dx != dy
      case 5: g = DbGrid::create({3, 5}, {1.5, 0.75}, {-2., 1.}, {-20., 0.}); break;         // rotated the other way
      case 6: g = DbGrid::create({3, 3, 2}, {1., 0.5, 2.}, {0., 1., -1.}); break;            // 3-D
      default: g = DbGrid::create({3, 2, 3}, {1., 0.5, 0.75}, {0., 0., 0.}, {25., 0., 0.}); break;  // 3-D rotated about z
    }
    Model* m;
    VectorDouble r2 = ndim == 2 ? VectorDouble{3., 1.5} : VectorDouble{3., 1.5, 2.};
    VectorDouble a2 = ndim == 2 ? VectorDouble{40., 0.} : VectorDouble{40., 0., 0.};
    switch (ix[1])
    {
      case 0: m = Model::createFromParam(ECov::SPHERICAL, 2.5, 1.5); break;
      case 1: m = Model::createFromParam(ECov::SPHERICAL, 1., 2., 1., r2); break;                        // anisotropic, axes = coordinate axes
      case 2: m = Model::createFromParam(ECov::SPHERICAL, 1., 2., 1., r2, VectorDouble(), a2); break;     // anisotropic, rotated 40 degrees
      case 3: m = Model::createFromParam(ECov::EXPONENTIAL, 1., 1., 1., r2, VectorDouble(), a2); break;
      case 4: m = Model::createFromParam(ECov::GAUSSIAN, 2., 0.75); break;
      default: m = Model::createFromParam(ECov::CUBIC, 1., 1.25, 1., r2, VectorDouble(), a2); m->addCovFromParam(ECov::EXPONENTIAL, 1.5, 0.5); break;
    }
    std::string kase = std::to_string(id);
    std::string desc = "grid menu " + std::to_string(ix[0]) + ", model menu " + std::to_string(ix[1]) + ", aliasing " + (ix[2] ? "on" : "off");
    CalcSimuFFT calc(1, false, 1);
    calc.setDbout(g);
    calc.setModel(m);
    calc.setParam(SimuFFTParam(ix[2] == 1, 0.1));
    if (!calc._check() || !calc._preprocess()) { C.skip(); C.outcome("refused"); delete g; delete m; return; }
    calc._alloc();
    // were the aliasing images really used? (they are only when the plain spectrum has negative terms)
    bool imagesUsed = false;
    if (ix[2] == 1)
    {
      calc.setParam(SimuFFTParam(false, 0.1));
      calc._prepar(false);
      VectorDouble plain = calc._cmat;
      calc.setParam(SimuFFTParam(true, 0.1));
      calc._prepar(false);
      for (size_t k = 0; k < plain.size(); k++) if (plain[k] != calc._cmat[k]) { imagesUsed = true; break; }
    }
    else
      calc._prepar(false);
    C.eval();
    int N = calc._sizes_alloc;
    std::vector<double> u(calc._cmat.begin(), calc._cmat.end()), v(N, 0.);
    VectorInt dims = calc._dims;
    (void)fftn(ndim, dims.data(), u.data(), v.data(), 1, 1.);
    // mesh vectors from the grid geometry
    int nxs[3] = {g->getNX(0), g->getNX(1), ndim == 3 ? g->getNX(2) : 1};
    int unitRank[3] = {1, nxs[0], nxs[0] * nxs[1]};
    double e[3][3] = {{0}};
    for (int j = 0; j < ndim; j++) for (int d = 0; d < ndim; d++) e[j][d] = g->getCoordinate(unitRank[j], d) - g->getCoordinate(0, d);
    double sill = m->eval(SpacePoint(VectorDouble(ndim, 0.)), SpacePoint(VectorDouble(ndim, 0.)));
    double worst = 0., wgot = 0., wexp = 0., maxim = 0.;
    int wn[3] = {0, 0, 0};
    int lim[3] = {2, 2, ndim == 3 ? 1 : 0};
    for (int n2 = -lim[2]; n2 <= lim[2]; n2++)
      for (int n1 = -lim[1]; n1 <= lim[1]; n1++)
        for (int n0 = -lim[0]; n0 <= lim[0]; n0++)
        {
          int n[3] = {n0, n1, n2};
          int idx[3];
          bool ok = true;
          for (int j = 0; j < 3; j++) { int dj = j < ndim ? calc._dims[j] : 1; if (std::abs(n[j]) * 2 >= dj && dj > 1) ok = false; idx[j] = ((n[j] % dj) + dj) % dj; }
          if (!ok) continue;
          VectorDouble h(ndim, 0.);
          for (int d = 0; d < ndim; d++) for (int j = 0; j < ndim; j++) h[d] += n[j] * e[j][d];
          double expv = m->eval(SpacePoint(VectorDouble(ndim, 0.)), SpacePoint(h));
          int lin = idx[0] + calc._dims[0] * (idx[1] + calc._dims[1] * idx[2]);
          double got = u[lin];
          maxim = std::max(maxim, std::fabs(v[lin]));
          double dev = std::fabs(got - expv) / sill;
          if (!(dev <= worst)) { worst = dev; wgot = got; wexp = expv; wn[0] = n0; wn[1] = n1; wn[2] = n2; }
        }
    bool rotated = ix[0] == 2 || ix[0] == 3 || ix[0] == 4 || ix[0] == 5 || ix[0] == 7;
    if (rotated && (ix[1] == 1 || ix[1] == 2 || ix[1] == 3 || ix[1] == 5 || ix[0] != 2)) C.nontrivial(id);
    const double TOLK = 0.02;
    C.outcome(std::string(rotated ? "rotated-grid" : "axis-aligned-grid") + (imagesUsed ? ":aliasing-images-used" : "") + (worst <= 0.002 ? ":dev<=0.2%" : worst <= 0.005 ? ":dev<=0.5%" : worst <= 0.01 ? ":dev<=1%" : worst <= TOLK ? ":dev<=2%" : ":dev>2%"));
    if (!(worst <= TOLK) || !(maxim <= 1e-8 * sill))
      C.violation(imagesUsed ? std::string("fft:kernel:aliasing-images") : "fft:kernel:grid" + std::to_string(ix[0]),
                  desc + " (dilated " + std::to_string(calc._dims[0]) + "x" + std::to_string(calc._dims[1]) + (ndim == 3 ? "x" + std::to_string(calc._dims[2]) : "") + "): the covariance discretised by simfft at the index offset (" +
                    std::to_string(wn[0]) + "," + std::to_string(wn[1]) + (ndim == 3 ? "," + std::to_string(wn[2]) : "") + ") is " + fmt(wgot) + ", the model at that lag gives " + fmt(wexp) + " (deviation " + f6(100 * worst) + " % of the sill; imaginary part " + f6(maxim) + ")",
                  kase);
    if (id % 7 == 0) C.sample("{\"id\":" + kase + ",\"case\":" + jstr(desc) + ",\"worst_dev\":" + f6(worst) + "}");
    calc._cleanVariableDb(2);
    delete g; delete m;
  });
}

int main(int argc, char** argv)
{
  return run_main(argc, argv, [](Ctx&) { silence(); });
}
