#!/usr/bin/env python3
"""Driver of the /verif machinery (DESIGN.md section 2).

  vf.py setup                      configure + build both library flavours and every harness
  vf.py build [rel|asan]           incremental (ninja) build of /repo's *working tree* into build/<flavour>
  vf.py run <ID> [quick|thorough]  rebuild, run all shards of the harness, merge, write evidence/<ID>.json,
                                   print VIOLATION / KNOWN-FINDING lines, exit 0/1 (2 = the check itself is broken)
  vf.py replay <file.json>         re-run one recorded case without the explorer
"""
import fcntl
import json
import os
import re
import shutil
import subprocess
import sys
import time

ROOT = os.path.dirname(os.path.abspath(__file__))
REPO = os.environ.get("VF_REPO", "/repo")
BUILD = os.environ.get("VF_BUILD", os.path.join(ROOT, "build"))
# Mutation-testing overrides (tools/mutant.py): never set by the registered commands.
OUTROOT = os.environ.get("VF_OUT", ROOT)          # where evidence/ and replay/ are written
EXTRA_OBJS = os.environ.get("VF_EXTRA_OBJS", "").split()   # objects linked before libgstlearn.a (override archive members)
TAG = os.environ.get("VF_TAG", "")
SKIP_LIB = os.environ.get("VF_SKIP_LIB_BUILD", "") == "1"
NCPU = os.cpu_count() or 4

FLAVOURS = {
    # name: (CXX flags for the library, extra flags for harness compile/link)
    "rel": ("-Wno-error -DGSTLEARN_VERIF", ["-O1"]),
    "asan": ("-Wno-error -DGSTLEARN_VERIF -O1 -g1 -fsanitize=address -fno-omit-frame-pointer",
             ["-O1", "-g1", "-fsanitize=address", "-fno-omit-frame-pointer"]),
}
C_FLAGS = {"rel": "", "asan": "-O1 -g1 -fsanitize=address"}

# property id -> harness description
def load_checks():
    """checks.d/<ID>.json: one description per property (source, flavour, level, rule, ...)."""
    d = os.path.join(ROOT, "checks.d")
    out = {}
    for f in sorted(os.listdir(d)):
        if f.endswith(".json"):
            out[f[:-5]] = json.load(open(os.path.join(d, f)))
    return out


CHECKS = load_checks()


def log(*a):
    print(*a, file=sys.stderr, flush=True)


class Lock:
    def __init__(self, name):
        os.makedirs(BUILD, exist_ok=True)
        self.f = open(os.path.join(BUILD, name + ".lock"), "w")

    def __enter__(self):
        fcntl.flock(self.f, fcntl.LOCK_EX)

    def __exit__(self, *a):
        fcntl.flock(self.f, fcntl.LOCK_UN)


def libdir(fl):
    return os.path.join(BUILD, fl)


def libs(fl):
    d = libdir(fl)
    return [os.path.join(d, "Release", "libgstlearn.a"),
            os.path.join(d, "3rd-party", "csparse", "libcsparse.a"),
            os.path.join(d, "3rd-party", "gmtsph", "libgmtsph.a")]


def build_lib(fl):
    """Incremental build of /repo's working tree (ninja decides from mtimes what to recompile)."""
    d = libdir(fl)
    if SKIP_LIB:
        return
    with Lock("lib_" + fl):
        t = time.time()
        if not os.path.exists(os.path.join(d, "build.ninja")):
            os.makedirs(d, exist_ok=True)
            cmd = ["cmake", "-G", "Ninja", "-S", REPO, "-B", d, "-DCMAKE_BUILD_TYPE=Release",
                   "-DCMAKE_CXX_FLAGS=" + FLAVOURS[fl][0], "-DCMAKE_C_FLAGS=" + C_FLAGS[fl]]
            r = subprocess.run(cmd, stdout=subprocess.PIPE, stderr=subprocess.STDOUT, text=True)
            if r.returncode != 0:
                log(r.stdout[-4000:])
                log("BROKEN: cmake configure failed for flavour", fl)
                sys.exit(2)
        r = subprocess.run(["ninja", "-C", d, "static"], stdout=subprocess.PIPE, stderr=subprocess.STDOUT, text=True)
        if r.returncode != 0:
            log(r.stdout[-6000:])
            log("BROKEN: library build failed for flavour", fl)
            sys.exit(2)
        log("[vf] library %s up to date (%.1fs)" % (fl, time.time() - t))


def harness_deps(src):
    deps = [src]
    hd = os.path.join(ROOT, "harness", "vf")
    for f in os.listdir(hd):
        deps.append(os.path.join(hd, f))
    return deps


def build_harness(pid, fl):
    ck = CHECKS[pid]
    src = os.path.join(ROOT, "harness", ck["source"])
    bind = os.path.join(BUILD, "bin")
    os.makedirs(bind, exist_ok=True)
    exe = os.path.join(bind, "%s_%s%s" % (os.path.splitext(ck["source"])[0], fl, TAG))
    with Lock("harness_%s_%s" % (pid, fl)):
        newest = max(os.path.getmtime(p) for p in harness_deps(src) + libs(fl) + EXTRA_OBJS)
        if os.path.exists(exe) and os.path.getmtime(exe) >= newest:
            return exe
        t = time.time()
        cmd = ["g++", "-std=c++20", "-fopenmp", "-fno-access-control", "-w", "-DGSTLEARN_VERIF",
               "-I" + os.path.join(REPO, "include"), "-I" + libdir(fl), "-I/usr/include/eigen3",
               "-I" + os.path.join(REPO, "3rd-party", "csparse"), "-I" + os.path.join(REPO, "3rd-party", "gmtsph"),
               "-I" + os.path.join(ROOT, "harness")] + FLAVOURS[fl][1] + [src, "-o", exe + ".tmp"] + EXTRA_OBJS + libs(fl) + ["-lnlopt"]
        r = subprocess.run(cmd, stdout=subprocess.PIPE, stderr=subprocess.STDOUT, text=True)
        if r.returncode != 0:
            log(r.stdout[-8000:])
            log("BROKEN: harness %s does not compile against the current tree" % ck["source"])
            sys.exit(2)
        os.replace(exe + ".tmp", exe)
        log("[vf] harness %s (%s) built (%.1fs)" % (ck["source"], fl, time.time() - t))
    return exe


def read_known():
    known, fixed = [], []
    files = [os.path.join(ROOT, "known_findings.txt")]
    for p in files:
        if not os.path.exists(p):
            continue
        for line in open(p):
            line = line.strip()
            m = re.match(r"known:\s+property=(\S+)\s+key=(\S+)\s*(.*)", line)
            if m:
                known.append((m.group(1), m.group(2), m.group(3)))
            m = re.match(r"fixed:\s+property=(\S+)\s+(\S+)\s+key=(\S+)\s*(.*)", line)
            if m:
                fixed.append((m.group(1), m.group(3), m.group(4)))
    return known, fixed


def sanitize(s):
    return re.sub(r"[^A-Za-z0-9_.=+-]", "_", s)[:120]


def validate_evidence(ev):
    try:
        import jsonschema
        schema = json.load(open("/root/.vp/EVIDENCE.schema.json"))
        jsonschema.validate(ev, schema)
    except ImportError:
        cov = ev["coverage"]
        for k in ("evaluations", "distinct_nontrivial", "rule", "samples"):
            assert k in cov, k
        assert cov["evaluations"] >= 1 and cov["distinct_nontrivial"] >= 2 and len(cov["samples"]) >= 1
    except FileNotFoundError:
        pass


def run_check(pid, tier):
    t0 = time.time()
    ck = CHECKS[pid]
    fl = ck.get("flavour", "rel")
    seed = int(os.environ.get("VERIF_SEED", "0") or 0)
    build_lib(fl)
    exe = build_harness(pid, fl)
    nsh = int(os.environ.get("VF_SHARDS", ck.get("shards", NCPU)))
    deadline = float(os.environ.get("VF_DEADLINE", ck.get("deadline", {}).get(tier, 600 if tier == "quick" else 2400)))
    outd = os.path.join(BUILD, "out", "%s_%s%s_%d" % (pid, tier, TAG, os.getpid()))  # per-process: two runs of the same check may overlap
    shutil.rmtree(outd, ignore_errors=True)
    os.makedirs(outd)
    scratch = os.path.join(BUILD, "scratch", "%s_%s%s_%d" % (pid, tier, TAG, os.getpid()))
    shutil.rmtree(scratch, ignore_errors=True)
    os.makedirs(scratch, exist_ok=True)
    env = dict(os.environ)
    env["OMP_NUM_THREADS"] = "1"
    env["ASAN_OPTIONS"] = env.get("ASAN_OPTIONS", "detect_leaks=0:abort_on_error=1:allocator_may_return_null=1:max_allocation_size_mb=2048:handle_abort=0:handle_segv=0")
    env["VF_SCRATCH"] = scratch
    env["VF_ROOT"] = ROOT
    procs = []
    for i in range(nsh):
        out = os.path.join(outd, "frag_%d.json" % i)
        cmd = [exe, "--tier", tier, "--shard", str(i), "--nshards", str(nsh), "--out", out, "--deadline", str(deadline)]
        lf = open(os.path.join(outd, "log_%d.txt" % i), "w")
        procs.append((i, out, subprocess.Popen(cmd, stdout=lf, stderr=subprocess.STDOUT, env=env, cwd=scratch), lf))
    frags, broken = [], []
    hard = deadline * 1.5 + 120
    t_run = time.time()  # the hard limit counts from the start of the shards, not of the (possibly long) library build
    for i, out, p, lf in procs:
        try:
            rc = p.wait(timeout=max(1, hard - (time.time() - t_run)))
        except subprocess.TimeoutExpired:
            p.kill()
            rc = -9
        lf.close()
        fr = None
        if os.path.exists(out):
            try:
                fr = json.load(open(out))
            except Exception as e:
                broken.append("shard %d wrote an unreadable fragment: %s" % (i, e))
        if fr is None:
            tail = open(os.path.join(outd, "log_%d.txt" % i), errors="replace").read()[-1500:]
            broken.append("shard %d exited %s without fragment; log tail: %s" % (i, rc, tail))
            continue
        if rc not in (0, 98):
            broken.append("shard %d exit status %s" % (i, rc))
        frags.append((i, out, fr))

    shutil.rmtree(scratch, ignore_errors=True)
    # merge -----------------------------------------------------------------------------------
    parts, histo, samples, notes = {}, {}, [], []
    viol, vcount = [], {}
    sigs, skeys = set(), set()
    import array
    for i, out, fr in frags:
        for n, p in fr["parts"].items():
            q = parts.setdefault(n, dict(evaluations=0, nontrivial=0, skipped=0, space=0, states=0, transitions=0, traces=0, exhaustive=True, wall_s=0.0))
            for k in ("evaluations", "skipped", "states", "transitions", "traces"):
                q[k] += p[k]
            q["space"] = max(q["space"], p["space"])
            q["exhaustive"] = q["exhaustive"] and p["exhaustive"]
            q["wall_s"] = max(q["wall_s"], p["wall_s"])
        for k, v in fr["histogram"].items():
            histo[k] = histo.get(k, 0) + v
        samples += fr["samples"]
        notes += fr["notes"]
        for k, v in fr["violation_counts"].items():
            vcount[k] = vcount.get(k, 0) + v
        viol += fr["violations"]
        if "crash" in fr:
            c = fr["crash"]
            key = "crash:%s:%s" % (c["part"], c["signal"])
            vcount[key] = vcount.get(key, 0) + 1
            viol.append(dict(key=key, what="the library crashed (%s) while the harness executed this case" % c["signal"], part=c["part"], case=c["case"]))
            for q in parts.values():
                q["exhaustive"] = False
        sf = out + ".sig"
        if os.path.exists(sf):
            a = array.array("Q")
            a.frombytes(open(sf, "rb").read())
            sigs.update(a)
        sf = out + ".states"
        if os.path.exists(sf):
            a = array.array("Q")
            a.frombytes(open(sf, "rb").read())
            skeys.update(a)
    # distinct counts per part cannot be split from the union; report the union and per-part sums
    for i, out, fr in frags:
        for n, p in fr["parts"].items():
            parts[n]["nontrivial"] += p["nontrivial"]

    known, fixed = read_known()
    known_keys = {(p, k): w for p, k, w in known}
    lines, nviol, nknown = [], 0, 0
    rdir = os.path.join(OUTROOT, "replay", pid)
    shutil.rmtree(rdir, ignore_errors=True)
    seen_key = {}
    for v in viol:
        key = v["key"]
        n = seen_key.get(key, 0)
        seen_key[key] = n + 1
        if n >= 2:
            continue
        os.makedirs(rdir, exist_ok=True)
        rp = os.path.join(rdir, "%s-%d.json" % (sanitize(key), n))
        is_known = (pid, key) in known_keys
        json.dump(dict(property=pid, key=key, what=v["what"], part=v["part"], case=v["case"], tier=tier, known_finding=is_known,
                       replay_cmd="python3-vt %s/vf.py replay %s" % (ROOT, rp),
                       harness_args=["--case", "%s:%s" % (v["part"], v["case"])]), open(rp, "w"), indent=1)
        if n == 0:
            if is_known:
                lines.append("KNOWN-FINDING: property=%s key=%s %s (%d cases; e.g. %s)" % (pid, key, known_keys[(pid, key)], vcount.get(key, 1), rp))
                nknown += 1
            else:
                lines.append("VIOLATION property=%s replay=%s key=%s cases=%d :: %s" % (pid, rp, key, vcount.get(key, 1), v["what"][:400]))
                nviol += 1

    evals = sum(p["evaluations"] for p in parts.values())
    exhaustive = all(p["exhaustive"] for p in parts.values()) and not broken
    level = ck["level"]
    cov = dict(evaluations=evals, distinct_nontrivial=len(sigs), rule=ck["rule"], samples=samples[:12], exhaustive=exhaustive,
               parts=parts, outcome_histogram=histo, shards=nsh, deadline_s=deadline,
               skipped=sum(p["skipped"] for p in parts.values()), notes=sorted(set(notes))[:40],
               known_findings_reported=nknown, violation_keys={k: c for k, c in vcount.items()})
    if level == "model_checking":
        cov["states"] = len(skeys) if skeys else sum(p["states"] for p in parts.values())
        cov["states_rule"] = "distinct canonical state keys over all shards" if skeys else "sum of per-part state counts"
        cov["transitions"] = sum(p["transitions"] for p in parts.values())
        cov["traces_validated_against_impl"] = sum(p["traces"] for p in parts.values())
    ev = dict(property_id=pid, tier=tier, seed=seed, level=level, coverage=cov, assumptions=ck.get("assumptions", []),
              wall_s=round(time.time() - t0, 2), violations=nviol)
    os.makedirs(os.path.join(OUTROOT, "evidence"), exist_ok=True)
    evp = os.path.join(OUTROOT, "evidence", pid + ".json")
    json.dump(ev, open(evp + ".tmp", "w"), indent=1)
    os.replace(evp + ".tmp", evp)

    for l in lines:
        print(l)
    print("[vf] %s %s: evaluations=%d distinct_nontrivial=%d exhaustive=%s violations=%d known=%d wall=%.1fs" % (
        pid, tier, evals, len(sigs), exhaustive, nviol, nknown, time.time() - t0))
    for n, p in sorted(parts.items()):
        print("[vf]   part %-28s eval=%-9d nontriv=%-8d skipped=%-7d states=%-7d trans=%-8d exhaustive=%s %.1fs" % (
            n, p["evaluations"], p["nontrivial"], p["skipped"], p["states"], p["transitions"], p["exhaustive"], p["wall_s"]))
    sys.stdout.flush()
    if broken:
        for b in broken:
            log("BROKEN:", b)
        return 2
    try:
        validate_evidence(ev)
    except Exception as e:
        log("BROKEN: evidence does not validate: %s" % str(e)[:500])
        return 2
    # vacuity guard
    floor = ck.get("min_nontrivial", {}).get(tier, 2)
    if exhaustive and len(sigs) < floor:
        log("BROKEN: vacuous exploration: distinct_nontrivial=%d below the floor %d" % (len(sigs), floor))
        return 2
    return 1 if nviol else 0


def replay(path):
    r = json.load(open(path))
    pid = r["property"]
    ck = CHECKS[pid]
    fl = ck.get("flavour", "rel")
    build_lib(fl)
    exe = build_harness(pid, fl)
    env = dict(os.environ)
    env["OMP_NUM_THREADS"] = "1"
    env["VF_SCRATCH"] = os.path.join(BUILD, "scratch", "replay_%d" % os.getpid())
    env["VF_ROOT"] = ROOT
    env.setdefault("ASAN_OPTIONS", "detect_leaks=0:abort_on_error=1:allocator_may_return_null=1:max_allocation_size_mb=2048:handle_abort=0:handle_segv=0")
    os.makedirs(env["VF_SCRATCH"], exist_ok=True)
    return subprocess.call([exe, "--tier", r.get("tier", "thorough")] + r["harness_args"], env=env, cwd=env["VF_SCRATCH"])


def main():
    if len(sys.argv) < 2:
        print(__doc__)
        return 2
    cmd = sys.argv[1]
    if cmd == "build":
        for fl in (sys.argv[2:] or ["rel", "asan"]):
            build_lib(fl)
        return 0
    if cmd == "setup":
        fls = sorted({c.get("flavour", "rel") for c in CHECKS.values()})
        for fl in fls:
            build_lib(fl)
        import concurrent.futures as cf

        def one(p):
            # a harness that does not compile must not stop the others: its own quick_cmd will report it (exit 2)
            try:
                build_harness(p, CHECKS[p].get("flavour", "rel"))
                return None
            except SystemExit:
                return p
        with cf.ThreadPoolExecutor(8) as ex:
            bad = [p for p in ex.map(one, CHECKS) if p]
        if bad:
            log("[vf] setup: harnesses that did not build:", bad)
        return 0
    if cmd == "run":
        pid = sys.argv[2]
        tier = sys.argv[3] if len(sys.argv) > 3 else os.environ.get("VERIF_TIER", "quick")
        return run_check(pid, tier)
    if cmd == "replay":
        return replay(sys.argv[2])
    print(__doc__)
    return 2


if __name__ == "__main__":
    sys.exit(main())
